"""C15: sampling stops exactly per the stopping rule; finished runs are idempotent."""
import concurrent.futures
import json
import math
import os
import subprocess
import sys

import common
from common import cB, cL, cN, cOpt, cStr, cT, cZ, float_dyadic, float_key

sys.path.insert(0, common.VERIF + "/translator")
PID = "C15"
INF = float("inf")
CRITS = ["ratio", "ratio_ns", "Z_err", "log_dZ", "ess", "fractional_error"]
ALPH = [0.05, 0.1, 0.5, 1.0, 2.0, 5.0]
TY_S = "scfg * sst * list (list Z * list (Z * Z) * option (option sobs))"
TY_I = "icfg * ist * list (list (list Z * nat * list Z) * option (option iobs))"


def unnum(x):
    return float(x)          # "inf" / "-inf" / "nan" strings are understood by float()


def key(x):
    return cZ(float_key(unnum(x)))


def jnum(x):
    x = float(x)
    return "inf" if x == INF else ("-inf" if x == -INF else x)


# =================================================================================================
# the property stated on observations alone (direct predicate)
# =================================================================================================
def spec_std_stop(c0, tol, cap, it0, stream):
    """least k: cond_k <= tol, or (k >= 1 and it0 + k >= cap); None = not within the stream"""
    conds = [c0] + list(stream)
    for k, c in enumerate(conds):
        if c <= tol or (k >= 1 and cap is not None and it0 + k >= cap):
            return k
    return None


def spec_reached(any_, crit, tol):
    r = [c <= t for c, t in zip(crit, tol)]
    return any(r) if any_ else all(r)


def spec_ins_stop(c0, tols, any_, min_it, cap, it0, stream):
    crits = [c0] + list(stream)
    for k, c in enumerate(crits):
        if (spec_reached(any_, c, tols) and it0 + k >= min_it) or (k >= 1 and cap is not None and it0 + k >= cap):
            return k
    return None


# =================================================================================================
# generators
# =================================================================================================
def gen_std_hist(rng, n):
    out = []
    nid = [100]

    def fresh_id():
        nid[0] += 1
        return nid[0]

    for _ in range(n):
        tol = rng.choice(ALPH)
        cap = rng.choice([None, None, 1, 2, 3, 5, 8])
        prior = rng.random() < 0.08
        r = rng.random()
        if r < 0.7:
            st = {"cond": "inf", "it": 0, "fin": False, "live": None, "ns": []}
        elif r < 0.95:
            st = {"cond": jnum(rng.choice(ALPH + [INF])), "it": rng.randint(0, 6), "fin": False,
                  "live": [fresh_id() for _ in range(rng.randint(1, 3))], "ns": [fresh_id() for _ in range(rng.randint(0, 3))]}
        else:
            st = {"cond": jnum(rng.choice(ALPH + [INF])), "it": rng.randint(0, 6), "fin": True, "live": None,
                  "ns": [fresh_id() for _ in range(rng.randint(0, 3))]}
        calls = []
        for _ in range(rng.randint(1, 4)):
            ln = rng.choice([0, 1, 2, 3, 4, 6, 8])
            vals = sorted((rng.choice(ALPH + [10.0]) for _ in range(ln)), reverse=True)
            if rng.random() < 0.3:
                rng.shuffle(vals)
            calls.append({"fresh": [fresh_id() for _ in range(rng.randint(1, 3))],
                          "stream": [[v, fresh_id()] for v in vals]})
        out.append({"tol": tol, "cap": cap, "prior": prior, "state": st, "calls": calls})
    return out


def gen_ins_hist(rng, n, aliases):
    names_pool = [a for _, al in aliases for a in al]
    out = []
    nid = [100]

    def fresh_id():
        nid[0] += 1
        return nid[0]

    vals = [-1.0, 0.0, 0.5, 1.0, 2.0]
    for _ in range(n):
        k = rng.choice([1, 1, 2, 2, 3])
        names = [rng.choice(names_pool) for _ in range(k)]
        tol = [rng.choice(vals) for _ in range(k)]
        crit_names = names[0] if (k == 1 and rng.random() < 0.5) else names
        tolerance = tol[0] if (k == 1 and rng.random() < 0.5) else tol
        st = {"crit": None, "it": 0, "fin": False, "live": [fresh_id() for _ in range(rng.randint(1, 3))], "dead": []}
        if rng.random() < 0.25:
            st["it"] = rng.randint(0, 5)
            st["crit"] = [jnum(rng.choice(vals + [INF])) for _ in range(k)]
            st["dead"] = [fresh_id() for _ in range(rng.randint(0, 2))]
        calls = []
        for _ in range(rng.randint(1, 3)):
            ln = rng.choice([0, 1, 2, 3, 5, 7])
            stream = []
            for _ in range(ln):
                stream.append({"crit": [rng.choice(vals) for _ in range(k)], "nrem": rng.randint(0, 2),
                               "new": [fresh_id() for _ in range(rng.randint(0, 2))]})
            calls.append({"stream": stream})
        out.append({"criteria": crit_names, "tolerance": tolerance, "check": rng.choice(["any", "all"]),
                    "min_it": rng.choice([None, None, 0, 1, 2, 4]), "max_it": rng.choice([None, None, 1, 2, 3, 6]),
                    "state": st, "calls": calls})
    return out


def gen_reached(rng, n):
    vals = [-1.0, 0.0, 0.5, 1.0, INF]
    out = []
    for _ in range(n):
        k = rng.choice([0, 1, 1, 2, 2, 3])
        kt = k if rng.random() < 0.85 else rng.choice([0, 1, 2, 3])
        out.append({"crit": [jnum(rng.choice(vals)) for _ in range(k)], "tol": [jnum(rng.choice(vals)) for _ in range(kt)],
                    "any": rng.random() < 0.5})
    return out


def gen_configure(rng, n, aliases):
    pool = [a for _, al in aliases for a in al]
    out = []
    # every alias alone, as a string and as a list
    for a in pool:
        out.append({"names": a, "tolerance": 0.5, "check": "any"})
        out.append({"names": [a], "tolerance": [0.5], "check": "all"})
    for _ in range(n):
        k = rng.choice([1, 2, 2, 3])
        names = [rng.choice(pool) if rng.random() < 0.85 else rng.choice(["bogus", "dZ", "ESS"]) for _ in range(k)]
        nt = k if rng.random() < 0.8 else rng.choice([1, 2, 3])
        tol = [rng.choice(ALPH) for _ in range(nt)]
        out.append({"names": names, "tolerance": tol if (nt > 1 or rng.random() < 0.5) else tol[0],
                    "check": rng.choice(["any", "all", "all", "any", "some"])})
    return out


def gen_finalise(rng, n):
    out = [{"live": None, "ns": [1]}]
    for _ in range(n):
        out.append({"live": [rng.randint(0, 50) for _ in range(rng.randint(0, 6))],
                    "ns": [rng.randint(0, 50) for _ in range(rng.randint(0, 5))]})
    return out


# =================================================================================================
# Coq literals
# =================================================================================================
def ozl(l):
    return "None" if l is None else "(Some " + cL(map(cZ, l)) + ")"


def lit_sobs(o, ids=True):
    if "raised" in o:
        return "None"
    if o.get("oos"):
        return "(Some None)"
    idl = "None"
    if ids:
        idl = "(Some " + cT(ozl(o["live"]), cL(map(cZ, o["ns"]))) + ")"
    live_none = (o["live"] is None) if ids else o["live_none"]
    return "(Some (Some " + cT(cN(o["n"]), key(o["cond"]), cZ(o["it"]), cB(o["fin"]), cB(live_none), idl) + "))"


def lit_std_case(c, obs):
    cfg = f"(mk_scfg {key(c['tol'])} {cOpt(None if c['cap'] is None else cZ(c['cap']))} {cB(c['prior'])})"
    st = c["state"]
    s0 = f"(mk_sst {key(st['cond'])} {cZ(st['it'])} {cB(st['fin'])} {ozl(st['live'])} {cL(map(cZ, st['ns']))})"
    calls = []
    for call, o in zip(c["calls"], obs):
        stream = cL(cT(key(v), cZ(i)) for v, i in call["stream"])
        calls.append(cT(cL(map(cZ, call["fresh"])), stream, lit_sobs(o)))
    return cT(cfg, s0, cL(calls))


def lit_iobs(o, ids=True):
    if "raised" in o:
        return "None"
    if o.get("oos"):
        return "(Some None)"
    idl = "None"
    if ids:
        idl = "(Some " + cT(ozl(o["live"]), cL(map(cZ, o["dead"]))) + ")"
    return "(Some (Some " + cT(cN(o["n"]), cL(map(key, o["crit"])), cZ(o["it"]), cB(o["fin"]), idl) + "))"


def lit_ins_case(c, res):
    k = res["configured"]
    cfg = (f"(mk_icfg {cB(k['stop_any'])} {cL(map(key, k['tolerance']))} {cZ(k['min'])} "
           f"{cOpt(None if k['max'] is None else cZ(k['max']))})")
    st = c["state"]
    crit0 = st["crit"] if st["crit"] is not None else k["criterion0"]
    s0 = f"(mk_ist {cL(map(key, crit0))} {cZ(st['it'])} {cB(st['fin'])} {ozl(st['live'])} {cL(map(cZ, st['dead']))})"
    calls = []
    for call, o in zip(c["calls"], res["calls"]):
        stream = cL(cT(cL(map(key, e["crit"])), cN(e["nrem"]), cL(map(cZ, e["new"]))) for e in call["stream"])
        calls.append(cT(stream, lit_iobs(o)))
    return cT(cfg, s0, cL(calls))


def dy(x):
    m, e = float_dyadic(unnum(x))
    return cT(cZ(m), cZ(e))


def dyo(x):
    x = unnum(x)
    return "None" if x == -INF else f"(Some {dy(x)})"


# =================================================================================================
# tie A: regenerate, re-prove
# =================================================================================================
HAND = {
    "gen_spre": "Definition gen_spre := k_spre std_sk.\n", "gen_spost": "Definition gen_spost := k_spost std_sk.\n",
    "gen_sentry": "Definition gen_sentry := k_sentry std_sk.\n", "gen_sfin": "Definition gen_sfin := k_sfin std_sk.\n",
    "gen_sinit": "Definition gen_sinit := k_sinit std_sk.\n", "gen_sfin_effs": "Definition gen_sfin_effs := std_effs.\n",
    "gen_ipre": "Definition gen_ipre := k_ipre ins_sk.\n", "gen_ipost": "Definition gen_ipost := k_ipost ins_sk.\n",
    "gen_ientry": "Definition gen_ientry := k_ientry ins_sk.\n", "gen_ifin_always": "Definition gen_ifin_always := true.\n",
    "gen_reached": "Definition gen_reached := reached.\n",
}
TODAY_AFTER = """
Definition gen_ssk : sskel := {| k_spre := gen_spre; k_spost := gen_spost; k_sentry := gen_sentry; k_sfin := gen_sfin;
  k_sinit := gen_sinit; k_sfin_effs := gen_sfin_effs |}.
Definition gen_isk : iskel := {| k_ipre := gen_ipre; k_ipost := gen_ipost; k_ientry := gen_ientry;
  k_reached := gen_reached; k_ifin_always := gen_ifin_always |}.
"""


def translate(chk):
    """-> (coq text defining every gen_* name, alias rows, set of names that were really regenerated)"""
    import c15_loops as T
    from pyast import Declined
    parts, regen, rows = {}, set(), None

    def attempt(label, fn, names):
        try:
            r = fn()
            txt, info = (r if isinstance(r, tuple) else (r, None))
            chk.translator[label] = {"status": "translated", "info": info} if info is not None else "translated"
            for nm in names:
                regen.add(nm)
            parts[label] = txt
            return r
        except Declined as e:
            chk.translator[label] = f"declined: {e}"
            parts[label] = "".join(HAND[nm] for nm in names if nm in HAND)
            return None

    attempt("NestedSampler.nested_sampling_loop", T.std_loop, ["gen_spre", "gen_spost", "gen_sentry", "gen_sfin"])
    attempt("NestedSampler.initialise", T.std_init, ["gen_sinit"])
    attempt("NestedSampler.finalise", T.std_finalise, ["gen_sfin_effs"])
    attempt("ImportanceNestedSampler.nested_sampling_loop", T.ins_loop,
            ["gen_ipre", "gen_ipost", "gen_ientry", "gen_ifin_always"])
    attempt("ImportanceNestedSampler.reached_tolerance", T.reached, ["gen_reached"])
    r = attempt("ImportanceNestedSampler.stopping_criterion_aliases", T.aliases, ["gen_aliases"])
    if r is not None:
        rows = r[1]
    else:
        # the table cannot be read statically: the correspondence falls back to the table of the hand model
        rows = [("ratio", ["ratio", "ratio_all"]), ("ratio_ns", ["ratio_ns"]), ("Z_err", ["Z_err", "evidence_error"]),
                ("log_dZ", ["log_dZ", "log_evidence"]), ("ess", ["ess"]), ("fractional_error", ["fractional_error"])]
        parts["ImportanceNestedSampler.stopping_criterion_aliases"] = (
            "Definition gen_aliases : atable := [" + "; ".join(
                '("%s", [%s])' % (k, "; ".join('"%s"' % a for a in al)) for k, al in rows) + "]%string.\n")
    src = {}
    try:
        src["std"] = T.std_sources()
        src["ins"] = T.ins_sources()
        chk.translator["sources"] = src
    except Declined as e:
        chk.translator["sources"] = f"declined: {e}"
    return "".join(parts.values()) + TODAY_AFTER, rows, regen, src


GEN_HDR = ("From Coq Require Import String.\nFrom Coq Require Import List ZArith Bool Lia ZifyBool Arith.\nImport ListNotations.\n"
           "From NessaiV Require Import Model.C15_Stop Proofs.C15_Stop_proofs Run.C15_run.\nLocal Open Scope Z_scope.\n"
           "Set Printing Width 1000000.\nSet Printing Depth 1000000.\n")

TODAY = [
    ("gen_spre", "P_spre gen_spre", "unfold P_spre, gen_spre. test_tac.",
     "standard loop continues exactly while condition > tolerance (guard + head breaks)"),
    ("gen_spost", "P_post gen_spost", "unfold P_post, gen_spost. test_tac.",
     "standard loop breaks after the body exactly when iteration >= max_iteration"),
    ("gen_sentry", "P_entry gen_sentry", "unfold P_entry, gen_sentry. test_tac.",
     "standard nested_sampling_loop returns at once exactly when finalised"),
    ("gen_sfin", "P_sfin gen_sfin", "unfold P_sfin, gen_sfin. test_tac.",
     "standard finalise() after the loop is guarded by condition <= tolerance"),
    ("gen_sinit", "P_sinit gen_sinit", "unfold P_sinit, gen_sinit. test_tac.",
     "initialise clears finalised exactly when condition > tolerance"),
    ("gen_sfin_effs", "fin_ok gen_sfin_effs = true", "vm_compute. reflexivity.",
     "finalise effect list passes the proven-sound checker fin_ok (each live point appended once, live set cleared, flag set)"),
    ("gen_ipre", "P_ipre gen_ipre", "unfold P_ipre, gen_ipre. test_tac.",
     "importance loop stops before the body exactly when reached_tolerance and iteration >= min_iteration"),
    ("gen_ipost", "P_post gen_ipost", "unfold P_post, gen_ipost. test_tac.",
     "importance loop breaks after the body exactly when iteration >= max_iteration"),
    ("gen_ientry", "P_entry gen_ientry", "unfold P_entry, gen_ientry. test_tac.",
     "importance nested_sampling_loop returns at once exactly when finalised"),
    ("gen_ifin_always", "gen_ifin_always = true", "reflexivity.",
     "importance finalise() follows the loop unconditionally"),
    ("gen_reached", "P_reached gen_reached", "unfold P_reached, gen_reached. reached_tac.",
     "reached_tolerance = any / all of (criterion_i <= tolerance_i)"),
    ("gen_aliases", "atable_ok gen_aliases = true", "vm_compute. reflexivity.",
     "no alias is listed under two criteria (alias table passes atable_ok)"),
]


def today(chk, gen, regen, src):
    ok_all = True
    jobs = []
    for nm, stmt, proof, what in TODAY:
        if nm not in regen:
            continue
        jobs.append((nm, GEN_HDR + gen + f"Lemma today_{nm} : {stmt}.\nProof. {proof} Qed.\n", what))
    with concurrent.futures.ThreadPoolExecutor(max_workers=8) as ex:
        futs = [(nm, what, ex.submit(chk.coq_run, f"today_{nm}", txt, 300)) for nm, txt, what in jobs]
        for nm, what, f in futs:
            ok, _, err = f.result()
            chk.oblige(f"today: {what} [regenerated {nm}]", "today", ok, err)
            ok_all = ok_all and ok
    # whole-skeleton instances of the property theorems for today's source (corollaries; informational)
    txt = GEN_HDR + gen + ("Lemma today_P_std : P_std gen_ssk.\nProof. unfold P_std, gen_ssk; cbn. repeat split; "
                           "try (unfold P_spre, P_post, P_entry, P_sfin, P_sinit, gen_spre, gen_spost, gen_sentry, gen_sfin, gen_sinit; test_tac); "
                           "try (vm_compute; reflexivity). Qed.\n"
                           "Lemma today_P_ins : P_ins gen_isk.\nProof. unfold P_ins, gen_isk; cbn. repeat split; "
                           "try (unfold P_ipre, P_post, P_entry, gen_ipre, gen_ipost, gen_ientry; test_tac); "
                           "try (unfold P_reached, gen_reached; reached_tac). Qed.\n")
    ok, _, err = chk.coq_run("today_skeletons", txt, 300)
    chk.notes.append("P_std gen_ssk /\\ P_ins gen_isk (all property theorems instantiate to today's source): "
                     + ("proved" if ok else "NOT proved " + err[-200:]))
    # attribute sources (plain data; a shape that is not recognised is left to the correspondence on real runs)
    if isinstance(src, dict) and "std" in src:
        s = src["std"]
        okh = s["history_dlogZ_records"] == ["self.condition"] and "self.condition" in s["guard_reads"] \
            and s["consume_sample_assigns_condition"] == 1 and s["consume_sample_increments_iteration"] == 1 \
            and s["consume_sample_assigns_iteration"] == 1
        i = src["ins"]
        oki = set(CRITS) <= set(i["assigned"]) and i["returns"] == ["cond"] \
            and i["definitions"].get("cond") == "[getattr(self, sc) for sc in self.stopping_criterion]" \
            and any("getattr(self, k, np.nan)" in h for h in i["history_loop"])
        for okx, what in ((okh, "history['dlogZ'] records self.condition, the attribute the loop guard reads and "
                                "consume_sample assigns once (iteration incremented once)"),
                          (oki, "compute_stopping_criterion assigns every criterion attribute, returns them by "
                                "configured name, and update_history records the same attributes")):
            if okx:
                chk.oblige("today: " + what, "today", True, "")
            else:
                chk.notes.append("source shape not recognised (real-run correspondence decides): " + what)
    return ok_all


# =================================================================================================
# scripted histories: direct predicate
# =================================================================================================
def check_std_history(chk, c, obs):
    tol, cap = c["tol"], c["cap"]
    st = dict(c["state"])
    cond, it, fin, live = unnum(st["cond"]), st["it"], st["fin"], st["live"]
    produced = False          # the state was produced by a completed call of this history
    for call, o in zip(c["calls"], obs):
        stream = [unnum(v) for v, _ in call["stream"]]
        rp = {"case": c, "observed": obs}
        finished = fin and cond <= tol
        if "raised" in o:
            if c["prior"] and produced:
                chk.fail("C15:std:prior_sampling-rerun",
                         f"run() after a finished prior-sampling run raised {o['raised']}", rp)
            elif live is None and fin:
                chk.count("std:odd start state raised")
            else:
                chk.fail("C15:std:raised", f"nested_sampling_loop raised {o['raised']}", rp)
            return
        if o.get("oos"):
            want = spec_std_stop(cond, tol, cap, it, stream)
            if finished or (want is not None and not c["prior"]):
                key_ = "C15:std:cap-rerun" if (produced and not finished and cap is not None and it >= cap) else "C15:std:late-stop"
                chk.fail(key_, f"the loop asked for another iteration after {o['n']} (spec stop index {want})", rp)
            return
        if finished:
            if o["n"] != 0 or unnum(o["cond"]) != cond or o["it"] != it or not o["fin"]:
                chk.fail("C15:std:finished-rerun", "run() on a finished run changed the state", rp)
        elif c["prior"]:
            if o["n"] != 0:
                chk.fail("C15:std:prior-iterated", "prior sampling executed a loop body", rp)
        elif not (fin and not produced):
            want = spec_std_stop(cond, tol, cap, it, stream)
            if produced and cap is not None and it >= cap and cond > tol and o["n"] >= 1:
                chk.fail("C15:std:cap-rerun",
                         f"run() after a run stopped by max_iteration={cap} executed {o['n']} more iteration(s): "
                         f"iteration {it} -> {o['it']}", rp)
            elif want is None or o["n"] != want:
                chk.fail("C15:std:stop-index", f"loop executed {o['n']} bodies, the stopping rule gives {want}", rp)
            else:
                if o["n"] >= 1:
                    chk.nontriv(("std", tol, cap, cond, it, tuple(stream[:o["n"]])))
                ends_tol = unnum(o["cond"]) <= tol
                chk.count("std:end:" + ("tolerance" if ends_tol else "cap") + (":equal" if unnum(o["cond"]) == tol else ""))
                if ends_tol:
                    exp_ns = (st["ns"] if not produced else prev_ns) + (live_ids_before(call, live, o["n"]))
                    if not o["fin"] or o["live"] is not None or o["ns"] != exp_ns:
                        chk.fail("C15:std:finalise", "finalisation did not consume every live point exactly once", rp)
        cond, it, fin, live = unnum(o["cond"]), o["it"], o["fin"], o["live"]
        prev_ns = o["ns"]
        produced = True


def live_ids_before(call, live, n):
    """ids that were ever live during this call, in the order the model records them"""
    start = list(live) if live is not None else list(call["fresh"])
    return start + [i for _, i in call["stream"][:n]]


def check_ins_history(chk, c, res):
    if res.get("config_error"):
        chk.count("ins:configuration rejected")
        return False
    k = res["configured"]
    tols = [unnum(t) for t in k["tolerance"]]
    st = c["state"]
    crit = [unnum(v) for v in (st["crit"] if st["crit"] is not None else k["criterion0"])]
    it, fin = st["it"], st["fin"]
    rp = {"case": c, "observed": res}
    for call, o in zip(c["calls"], res["calls"]):
        stream = [[unnum(v) for v in e["crit"]] for e in call["stream"]]
        if "raised" in o:
            chk.fail("C15:ins:raised", f"nested_sampling_loop raised {o['raised']}", rp)
            return True
        want = None if fin else spec_ins_stop(crit, tols, k["stop_any"], k["min"], k["max"], it, stream)
        if o.get("oos"):
            if fin or want is not None:
                chk.fail("C15:ins:late-stop", f"the loop asked for another iteration (spec stop index {want})", rp)
            return True
        if fin:
            if o["n"] != 0 or o["it"] != it or not o["fin"]:
                chk.fail("C15:ins:finished-rerun", "nested_sampling_loop on a finished run changed the state", rp)
        else:
            if want is None or o["n"] != want:
                chk.fail("C15:ins:stop-index", f"loop executed {o['n']} bodies, the stopping rule gives {want}", rp)
            else:
                if o["n"] >= 1:
                    chk.nontriv(("ins", tuple(tols), k["stop_any"], k["min"], k["max"], it, tuple(map(tuple, stream[:o["n"]]))))
                chk.count("ins:end:" + ("criteria" if spec_reached(k["stop_any"], [unnum(v) for v in o["crit"]], tols)
                                        and o["it"] >= k["min"] else "cap"))
            if not o["fin"] or o["live"] is not None:
                chk.fail("C15:ins:finalise", "the loop ended without finalising", rp)
        crit, it, fin = [unnum(v) for v in o["crit"]], o["it"], o["fin"]
    return True


# =================================================================================================
# real runs
# =================================================================================================
def std_real_case(r):
    """Coq literal: the recorded run as a history of three run() calls (ids not tracked)"""
    cfg = f"(mk_scfg {key(r['tol'])} {cOpt(None if r['cap'] is None else cZ(r['cap']))} {cB(bool(r['cfg'].get('prior_sampling')))})"
    s0 = f"(mk_sst {key(r['start']['cond'])} {cZ(r['start']['it'])} {cB(r['start']['fin'])} None [])"
    calls = []
    by_call = {}
    for b in r["bodies1"]:
        by_call.setdefault(1, []).append(b)
    stream1 = cL(cT(key(b["cond1"]), "0%Z") for b in r["bodies1"])
    o1 = dict(r["run1"], n=len(r["bodies1"]), cond=r["run1"]["condition"], it=r["run1"]["iteration"], fin=r["run1"]["finalised"])
    calls.append(cT("[]", stream1, lit_sobs(o1, ids=False)))
    return cfg, s0, calls


def lit_std_real(r, extra_streams):
    cfg, s0, calls = std_real_case(r)
    for name, stream in extra_streams:
        o = r.get(name)
        if o is None:
            break
        if "raised" in o:
            calls.append(cT("[]", "[]", "None"))
            break
        oo = dict(o, n=o["bodies"], cond=o["condition"], it=o["iteration"], fin=o["finalised"])
        calls.append(cT("[]", cL(cT(key(c), "0%Z") for c in stream), lit_sobs(oo, ids=False)))
    return cT(cfg, s0, cL(calls))


def check_std_real(chk, r, all_bodies):
    """direct predicate on one real standard run (+ run again + resume)"""
    name = r["cfg"]["name"]
    rp = {"real_run": "standard", "cfg": r["cfg"]}
    if "error" in r:
        chk.oblige(f"real standard run {name} completed", "harness", False, r.get("trace", r["error"]))
        return
    tol, cap = unnum(r["tol"]), r["cap"]
    b1 = r["bodies1"]
    conds = [unnum(b["cond1"]) for b in b1]
    prior = bool(r["cfg"].get("prior_sampling"))
    run1 = r["run1"]
    if not prior:
        want = spec_std_stop(unnum(r["start"]["cond"]), tol, cap, r["start"]["it"], conds)
        if want != len(b1):
            chk.fail("C15:std:real-stop-index", f"run {name}: {len(b1)} iterations, the stopping rule on the recorded "
                     f"conditions gives {want} (tol {tol}, cap {cap})", dict(rp, conditions=conds[-5:], observed=run1))
        if any(b["it1"] != b["it0"] + 1 for b in b1) or (b1 and unnum(b1[-1]["cond1"]) != unnum(run1["condition"])):
            chk.fail("C15:std:real-body", f"run {name}: a body did not advance the iteration by one / final condition differs", rp)
        if tol in conds:
            chk.count("real:std:tolerance equals a recorded condition")
        chk.nontriv(("realstd", name, tol, cap, len(b1)))
    ends_tol = unnum(run1["condition"]) <= tol
    chk.count("real:std:end:" + ("prior" if prior else ("tolerance" if ends_tol else "cap")))
    # the compared values are the ones in the history
    at = {b["it1"]: unnum(b["cond1"]) for b in b1}
    at[r["start"]["it"]] = unnum(r["start"]["cond"])
    for i, v in zip(r["history"]["iterations"], r["history"]["dlogZ"]):
        if i not in at or at[i] != unnum(v):
            chk.fail("C15:std:history", f"run {name}: history['dlogZ'] at iteration {i} is {v}, the compared condition "
                     f"was {at.get(i)}", dict(rp, history=r["history"]))
            break
    chk.oracle_validations += len(r["history"]["iterations"])
    # finalisation: every remaining live point exactly once
    f1 = r["finalise1"]
    if ends_tol or prior:
        okf = len(f1) == 1 and f1[0]["n_ns_after"] == f1[0]["n_ns_before"] + r["nlive"] and \
            f1[0]["tail_digest"] == f1[0]["live_digest"] and run1["finalised"] and run1["live_none"] and \
            run1["n_ns"] == run1["iteration"] + r["nlive"]
        if not okf:
            chk.fail("C15:std:real-finalise", f"run {name}: the remaining live points were not consumed exactly once",
                     dict(rp, finalise=[{k: v for k, v in f.items() if k != 'live'} for f in f1], observed=run1))
    elif f1:
        chk.fail("C15:std:real-finalise-early", f"run {name}: finalised above the tolerance", rp)
    # idempotence: run again, resume
    for tag, what in (("run2", "run() again"), ("run3", "FlowSampler(resume=True).run()")):
        o = r.get(tag)
        if o is None:
            continue
        how = "prior_sampling" if prior else ("tolerance" if ends_tol else "cap")
        if "raised" in o:
            k_ = "C15:std:prior_sampling-rerun" if prior else f"C15:std:{how}-rerun-raised"
            chk.fail(k_, f"{what} after a run finished by {how} raised {o['raised']}: {o.get('msg', '')}",
                     dict(rp, step=tag, observed=o))
            continue
        same = o["digest"] == run1["digest"] and o["iteration"] == run1["iteration"] and o["evals"] == run1["evals"] \
            and o["bodies"] == 0
        if not same:
            k_ = "C15:std:cap-rerun" if how == "cap" else f"C15:std:{how}-rerun"
            chk.fail(k_, f"{what} after a run stopped by {how} (iteration {run1['iteration']}) executed {o['bodies']} more "
                     f"iteration(s): iteration -> {o['iteration']}, log Z {run1['logZ']} -> {o['logZ']}, "
                     f"evaluations {run1['evals']} -> {o['evals']}", dict(rp, step=tag, first=run1, observed=o))
        if tag == "run3" and r.get("resumed") is False:
            chk.fail("C15:std:not-resumed", f"run {name}: FlowSampler(resume=True) did not resume the final checkpoint", rp)
    chk.evaluations += 1


def u_from_samples(logL, logW):
    w = [math.exp(a + b) for a, b in zip(logL, logW)]
    n = len(w)
    zhat = sum(w) / n
    return math.sqrt(sum((x - zhat) ** 2 for x in w) / (n * (n - 1))), zhat


def py_criteria(logL, logW, live_idx, nested_idx, thr, prev_logZ):
    """the criteria by their definitions, in plain float arithmetic (fsum), over ALL samples: a sample with
    log L = -inf contributes Z_i = 0 and still counts in n"""
    l_ = [a + b for a, b in zip(logL, logW)]
    w = [math.exp(x) if x > -INF else 0.0 for x in l_]

    def logz(idx):
        ws = [w[i] for i in idx]
        t = math.fsum(ws)
        return (math.log(t) - math.log(len(ws))) if ws and t > 0 else -INF

    n = len(w)
    tot = math.fsum(w)
    zhat = tot / n
    lz = logz(range(n))
    u = math.sqrt(math.fsum((x - zhat) ** 2 for x in w) / (n * (n - 1))) if n > 1 else float("nan")
    out = {"log_evidence": lz, "ess": tot * tot / math.fsum(x * x for x in w), "evidence_error": u,
           "fractional_error": u / zhat, "log_evidence_error": u / zhat,
           "ratio": logz([i for i in range(n) if logL[i] >= thr]) - lz,
           "ratio_ns": logz(live_idx) - logz(nested_idx),
           "log_dZ": abs(lz - prev_logZ) if prev_logZ is not None else INF}
    return out


def criteria_mismatches(e):
    """names of the criteria whose reported value differs from the definition recomputed from the samples of e"""
    logL, logW = [unnum(v) for v in e["logL"]], [unnum(v) for v in e["logW"]]
    prev = None if e.get("prev_logZ") is None else unnum(e["prev_logZ"])
    d = py_criteria(logL, logW, e["live_idx"], e["nested_idx"], unnum(e["threshold"]), prev)
    got = {k: unnum(v) for k, v in e["attrs"].items()}
    got["log_evidence"] = unnum(e["log_evidence"])
    got["log_evidence_error"] = unnum(e["log_evidence_error"])
    bad = []

    def close(a, b):
        if a == b:
            return True
        if not math.isfinite(b):          # outside the domain of the definition (e.g. every nested sample has zero
            return not math.isfinite(a)   # likelihood): any non-finite value behaves the same in `c <= t`
        if not math.isfinite(a):
            return False
        return abs(a - b) <= 1e-9 * (1.0 + abs(b))

    for k in ("log_evidence", "ess", "fractional_error", "log_evidence_error", "ratio", "ratio_ns", "log_dZ"):
        if not close(got[k], d[k]):
            bad.append((k, got[k], d[k]))
    z = got["Z_err"]
    if not (close(z, d["evidence_error"]) or close(z, math.exp(d["fractional_error"]))):   # the second form is finding D10
        bad.append(("Z_err", z, d["evidence_error"]))
    return bad


def gen_critvec(rng, n):
    out = []
    for _ in range(n):
        def vec(m):
            nz = rng.choice([0, 0, 1, 2, m // 3, m // 2])
            logL = sorted(rng.uniform(-8, 0) for _ in range(m - nz))
            logL = ["-inf"] * nz + logL
            logW = [rng.uniform(-1.5, 1.5) for _ in range(m)]
            k = rng.randint(nz + 1, m - 1)           # nested samples: the zero-likelihood ones and at least one finite
            thr = logL[k]
            return {"logL": logL, "logW": logW, "nested_idx": list(range(k)), "live_idx": list(range(k, m)), "threshold": thr}
        m = rng.choice([4, 6, 9, 16, 25, 40])
        cur = vec(m)
        prev = vec(rng.choice([4, 6, 9, 16])) if rng.random() < 0.7 else None
        out.append({"cur": cur, "prev": prev})
    return out


def check_critvec(chk, c, o, ccases):
    rp = {"critvec": c}
    if "raised" in o:
        chk.fail("C15:ins:criterion-raised", f"compute_stopping_criterion raised {o['raised']}: {o.get('msg', '')}", rp)
        return
    e = dict(c["cur"], attrs=o["attrs"], log_evidence=o["log_evidence"], log_evidence_error=o["log_evidence_error"],
             prev_logZ=o["prev_logZ"])
    nz = sum(1 for v in c["cur"]["logL"] if unnum(v) == -INF)
    chk.count("critvec:zero-likelihood samples:" + ("none" if nz == 0 else "some"))
    for name, got, want in criteria_mismatches(e):
        chk.fail(f"C15:ins:criterion-definition:{name}",
                 f"criterion {name} = {got!r} on a vector of {len(c['cur']['logL'])} samples ({nz} with zero likelihood); "
                 f"its definition recomputed from the samples gives {want!r}", dict(rp, observed=o))
    if [float_key(unnum(v)) for v in o["returned"]] != [float_key(unnum(o["attrs"][k])) for k in CRITS]:
        chk.fail("C15:ins:criterion-source", "the values returned by compute_stopping_criterion are not the attributes", rp)
    # the same decided in Coq with enclosures
    cur, prev = c["cur"], c["prev"]
    rows = [cT(dyo(a), dyo(b)) for a, b in zip(cur["logL"], cur["logW"])]
    sl = cL(rows)
    a = o["attrs"]
    tag = f"vector n={len(rows)} zero={nz}"
    thr = unnum(cur["threshold"])
    above = [rows[i] for i, v in enumerate(cur["logL"]) if unnum(v) >= thr]
    ccases.append((f"CLogZ {sl} {dy(o['log_evidence'])}", f"{tag}: log Z"))
    ccases.append((f"CEss {sl} {dy(a['ess'])}", f"{tag}: ess"))
    ccases.append((f"CFrac {sl} {dy(a['fractional_error'])}", f"{tag}: fractional_error"))
    ccases.append((f"CFrac {sl} {dy(o['log_evidence_error'])}", f"{tag}: log_evidence_error"))
    u, zhat = u_from_samples([unnum(v) for v in cur["logL"]], [unnum(v) for v in cur["logW"]])
    if abs(unnum(a["Z_err"]) - u) <= abs(unnum(a["Z_err"]) - math.exp(u / zhat)):
        ccases.append((f"CU {sl} {dy(a['Z_err'])}", f"{tag}: Z_err (= evidence error)"))
    else:
        ccases.append((f"CZerrCode {sl} {dy(a['Z_err'])}", f"{tag}: Z_err (as coded)"))
    if math.isfinite(unnum(a["ratio"])):
        ccases.append((f"CRatio {cL(above)} {sl} {dy(a['ratio'])}", f"{tag}: ratio"))
    if math.isfinite(unnum(a["ratio_ns"])):
        ccases.append((f"CRatio {cL([rows[i] for i in cur['live_idx']])} {cL([rows[i] for i in cur['nested_idx']])} "
                       f"{dy(a['ratio_ns'])}", f"{tag}: ratio_ns"))
    if prev is not None and math.isfinite(unnum(a["log_dZ"])):
        prow = cL(cT(dyo(x), dyo(y)) for x, y in zip(prev["logL"], prev["logW"]))
        ccases.append((f"CDz {sl} {prow} {dy(a['log_dZ'])}", f"{tag}: log_dZ"))


def check_ins_real(chk, r):
    name = r["cfg"]["name"]
    rp = {"real_run": "importance", "cfg": r["cfg"]}
    if "error" in r:
        chk.oblige(f"real importance run {name} completed", "harness", False, r.get("trace", r["error"]))
        return
    k = r["configured"]
    tols = [unnum(t) for t in k["tolerance"]]
    its = r["its"]
    run1 = r["run1"]
    stream = [[unnum(v) for v in e["returned"]] for e in its]
    want = spec_ins_stop([unnum(v) for v in k["criterion0"]], tols, k["stop_any"], k["min"], k["max"], 0, stream)
    if want != len(its):
        chk.fail("C15:ins:real-stop-index", f"run {name}: {len(its)} iterations, the stopping rule on the recorded criteria "
                 f"gives {want}", dict(rp, configured=k, criteria=stream))
    chk.nontriv(("realins", name, tuple(tols), k["stop_any"], k["min"], k["max"], len(its)))
    if any(t in [c[i] for c in stream] for i, t in enumerate(tols)):
        chk.count("real:ins:tolerance equals a recorded criterion")
    for j, e in enumerate(its):
        if e["it"] != j:
            chk.fail("C15:ins:real-body", f"run {name}: iteration counter {e['it']} at body {j}", rp)
        got = [unnum(v) for v in e["returned"]]
        exp = [unnum(e["attrs"][n]) for n in k["stopping_criterion"]]
        if [float_key(v) for v in got] != [float_key(v) for v in exp]:
            chk.fail("C15:ins:criterion-source", f"run {name}: the compared values {got} are not the attributes "
                     f"{k['stopping_criterion']} = {exp}", rp)
        for n in CRITS:
            h = unnum(r["history"][n][j])
            a = unnum(e["attrs"][n])
            if not (h == a or (h != h and a != a)):
                chk.fail("C15:ins:history", f"run {name}: history['stopping_criteria']['{n}'][{j}] = {h}, attribute was {a}", rp)
        if j == 0 and unnum(e["attrs"]["log_dZ"]) != INF:
            chk.fail("C15:ins:log_dZ-first", "log_dZ at the first iteration is not inf", rp)
        if "logL" in e:
            logL, logW = [unnum(v) for v in e["logL"]], [unnum(v) for v in e["logW"]]
            nz = sum(1 for v in logL if v == -INF)
            chk.count("real:ins:iterations with zero-likelihood samples" if nz else "real:ins:iterations without zero-likelihood samples")
            for cname, got_, want_ in criteria_mismatches(e):
                chk.fail(f"C15:ins:criterion-definition:{cname}",
                         f"run {name}, iteration {j}: criterion {cname} = {got_!r} is compared / recorded, its definition "
                         f"recomputed from the sampler's {len(logL)} samples ({nz} with zero likelihood) gives {want_!r}", rp)
            u, zhat = u_from_samples(logL, logW)
            z = unnum(e["attrs"]["Z_err"])
            if abs(z - u) > 1e-6 * max(1.0, abs(u)) and abs(z - math.exp(u / zhat)) <= 1e-9 * (1 + abs(z)):
                chk.fail("C15:ins:Z_err-is-exp-of-relative-error",
                         f"the Z_err (alias evidence_error) criterion is {z:.6g} = exp(u/Z) with u/Z = {u / zhat:.6g}; the "
                         f"standard error of the evidence recomputed from the samples is u = {u:.6g} (Z = {zhat:.6g})",
                         {"zerr": {"logL": logL[:40], "logW": logW[:40], "tol": 0.5}})
        chk.oracle_validations += 1
    chk.count("real:ins:end:" + ("criteria" if its and spec_reached(k["stop_any"], stream[-1], tols) and len(its) >= k["min"] else "cap"))
    if not (run1["finalised"] and run1["live_none"] and run1["nested_is_all"]):
        chk.fail("C15:ins:real-finalise", f"run {name}: not every sample is a nested sample exactly once after the run", dict(rp, observed=run1))
    for tag, what in (("run2", "run() again"), ("run3", "FlowSampler(resume=True).run()")):
        o = r.get(tag)
        if o is None:
            continue
        if "raised" in o:
            chk.fail("C15:ins:rerun-raised", f"{what} raised {o['raised']}: {o.get('msg', '')}", dict(rp, step=tag))
            continue
        if not (o["digest"] == run1["digest"] and o["iteration"] == run1["iteration"] and o["evals"] == run1["evals"]
                and o["bodies"] == 0):
            chk.fail("C15:ins:rerun", f"{what} on a finished importance run changed the results "
                     f"(iteration {run1['iteration']} -> {o['iteration']}, evaluations {run1['evals']} -> {o['evals']})",
                     dict(rp, step=tag, first=run1, observed=o))
        if tag == "run3" and r.get("resumed") is False:
            chk.fail("C15:ins:not-resumed", f"run {name}: FlowSampler(resume=True) did not resume the final checkpoint", rp)
    chk.evaluations += 1


def lit_ins_real(r):
    k = r["configured"]
    cfg = (f"(mk_icfg {cB(k['stop_any'])} {cL(map(key, k['tolerance']))} {cZ(k['min'])} "
           f"{cOpt(None if k['max'] is None else cZ(k['max']))})")
    s0 = f"(mk_ist {cL(map(key, k['criterion0']))} 0%Z false (Some []) [])"
    stream = cL(cT(cL(map(key, e["returned"])), "0%nat", "[]") for e in r["its"])
    run1 = r["run1"]
    o1 = "(Some (Some " + cT(cN(len(r["its"])), cL(map(key, run1["criterion"])), cZ(run1["iteration"]), cB(run1["finalised"]), "None") + "))"
    calls = [cT(stream, o1)]
    for tag in ("run2", "run3"):
        o = r.get(tag)
        if o is None or "raised" in o:
            break
        calls.append(cT("[]", "(Some (Some " + cT(cN(o["bodies"]), cL(map(key, o["criterion"])), cZ(o["iteration"]),
                                                  cB(o["finalised"]), "None") + "))"))
    return cT(cfg, s0, cL(calls))


def criteria_cases(r):
    """ccase literals for one importance run that kept its samples; returns (definitions, case terms, labels)"""
    defs, cases, labels = [], [], []
    prev = None
    for j, e in enumerate(r["its"]):
        if "logL" not in e:
            continue
        rows = [cT(dyo(a), dyo(b)) for a, b in zip(e["logL"], e["logW"])]
        nm = f"s_{r['cfg']['name']}_{j}"
        defs.append(f"Definition {nm} : samples := {cL(rows)}.")
        thr = unnum(e["threshold"])
        above = [rows[i] for i, v in enumerate(e["logL"]) if unnum(v) >= thr]
        live = [rows[i] for i in e["live_idx"]]
        nest = [rows[i] for i in e["nested_idx"]]
        a = e["attrs"]

        def add(term, label):
            cases.append(term)
            labels.append(f"{r['cfg']['name']} it {j}: {label}")

        add(f"CLogZ {nm} {dy(e['log_evidence'])}", "log Z")
        add(f"CEss {nm} {dy(a['ess'])}", "ess")
        if "ess_stats" in e:
            add(f"CEss {nm} {dy(e['ess_stats'])}", "utils.stats.effective_sample_size")
        add(f"CFrac {nm} {dy(a['fractional_error'])}", "fractional_error")
        add(f"CFrac {nm} {dy(e['log_evidence_error'])}", "log_evidence_error")
        u, zhat = u_from_samples([unnum(v) for v in e["logL"]], [unnum(v) for v in e["logW"]])
        if abs(unnum(a["Z_err"]) - u) <= abs(unnum(a["Z_err"]) - math.exp(u / zhat)):
            add(f"CU {nm} {dy(a['Z_err'])}", "Z_err (= evidence error)")
        else:
            add(f"CZerrCode {nm} {dy(a['Z_err'])}", "Z_err (as coded)")
        if above and math.isfinite(unnum(a["ratio"])):
            add(f"CRatio {cL(above)} {nm} {dy(a['ratio'])}", "ratio")
        if live and nest and math.isfinite(unnum(a["ratio_ns"])):
            add(f"CRatio {cL(live)} {cL(nest)} {dy(a['ratio_ns'])}", "ratio_ns")
        if prev is not None and unnum(a["log_dZ"]) != INF:
            add(f"CDz {nm} {prev} {dy(a['log_dZ'])}", "log_dZ")
        prev = nm
    return defs, cases, labels


# =================================================================================================
def child_json(chk, job, timeout):
    rc, out, err = chk.child("c15_child.py", timeout=timeout, inp=json.dumps(job))
    if rc != 0:
        return None, (err or "")[-1500:] + f" (rc {rc})"
    try:
        return json.loads(out), ""
    except Exception as e:
        return None, f"unparsable child output: {e}: {out[-300:]}"


def coq_mism(chk, name, hdr, chkfn, lits, what, ty, shard=400, cmd="mism"):
    bad, ok_all, errs = [], True, ""
    for k in range(0, len(lits), shard):
        txt = hdr + f"Definition cs : list ({ty}) := {cL(lits[k:k + shard])}.\nEval vm_compute in ({cmd} {chkfn} cs).\n"
        ok, evals, err = chk.coq_run(f"{name}_{k}", txt, timeout=900)
        if not ok or len(evals) != 1:
            ok_all, errs = False, err
            break
        bad += [k + i for i in common.parse_nat_list(evals[0])]
    chk.oblige(f"correspondence: {what} ({len(lits)} cases)", "correspondence", ok_all and not bad,
               errs or "mismatching: " + " || ".join(lits[i][:600] for i in bad[:3]))
    chk.traces += len(lits)
    return bad


def std_run_cfgs(tier, seed, base):
    """boundary runs placed on the recorded conditions of the base run"""
    conds = [unnum(b["cond1"]) for b in base["bodies1"]]
    k = min(len(conds) - 2, 23)
    below = math.nextafter(conds[k], -INF)
    cfgs = [
        {"name": "tol_eq", "nlive": 50, "seed": seed, "stopping": jnum(conds[k])},                # condition == tolerance at body k+1
        {"name": "tol_eq_cap_eq", "nlive": 50, "seed": seed, "stopping": jnum(conds[k]), "max_iteration": k + 1},
        {"name": "tol_below", "nlive": 50, "seed": seed, "stopping": jnum(below), "max_iteration": k + 3},
        {"name": "cap_small", "nlive": 50, "seed": seed, "max_iteration": 7},
        {"name": "prior", "nlive": 50, "seed": seed, "prior_sampling": True},
    ]
    if tier != "quick":
        for j, kk in enumerate([3, 11, 31, 47]):
            if kk < len(conds):
                cfgs.append({"name": f"tol_eq_{j}", "nlive": 50, "seed": seed, "stopping": jnum(conds[kk])})
                cfgs.append({"name": f"cap_{j}", "nlive": 50, "seed": seed, "max_iteration": kk + 1})
        cfgs.append({"name": "tol_default_long", "nlive": 100, "seed": seed + 1, "stopping": 1.0})
    return cfgs


def up(x):
    """fractional_error is a numpy longdouble in the sampler and is compared as such: a float64 tolerance one ulp
    above the recorded (rounded) value is certainly >= the longdouble value"""
    return math.nextafter(x, INF)


def ins_run_cfgs(tier, seed, base, cut_runs=()):
    its = base["its"]
    a = [{n: unnum(e["attrs"][n]) for n in CRITS} for e in its]
    k = min(2, len(a) - 1)
    common_kw = {"nlive": 40, "seed": seed}
    cfgs = [
        dict(common_kw, name="ratio_eq", tolerance=jnum(a[k]["ratio"]), stopping_criterion="ratio_all", max_iteration=6),
        dict(common_kw, name="default_tol", max_iteration=6),
        dict(common_kw, name="min_it", tolerance=jnum(a[0]["ratio"]), stopping_criterion="ratio", min_iteration=3, max_iteration=6),
        dict(common_kw, name="any2", stopping_criterion=["log_evidence", "ratio"],
             tolerance=[jnum(a[min(1, len(a) - 1)]["log_dZ"]), -50.0], check_criteria="any", max_iteration=6),
        dict(common_kw, name="all2", stopping_criterion=["log_evidence", "fractional_error"],
             tolerance=[jnum(a[min(1, len(a) - 1)]["log_dZ"]), jnum(up(a[k]["fractional_error"]))], check_criteria="all",
             max_iteration=6),
    ]
    for cb in cut_runs:
        if "error" in cb or not cb.get("its"):
            continue
        ac = [{n: unnum(e["attrs"][n]) for n in CRITS} for e in cb["its"]]
        kc = min(1, len(ac) - 1)
        cfgs.append(dict(common_kw, name="cut_frac_eq", cut=3.0, stopping_criterion="fractional_error",
                         tolerance=jnum(up(ac[kc]["fractional_error"])), max_iteration=5, keep_samples=True))
        if tier != "quick":
            cfgs.append(dict(common_kw, name="cut_zerr_eq", cut=3.0, stopping_criterion="evidence_error",
                             tolerance=jnum(ac[kc]["Z_err"]), max_iteration=6, keep_samples=True))
    if tier != "quick":
        cfgs += [
            dict(common_kw, name="ess_dir", stopping_criterion="ess", tolerance=jnum(a[0]["ess"]), max_iteration=5),
            dict(common_kw, name="zerr", stopping_criterion="evidence_error", tolerance=1.08, max_iteration=8, keep_samples=True),
            dict(common_kw, name="ratio_ns", stopping_criterion="ratio_ns", tolerance=jnum(a[k]["ratio_ns"]), max_iteration=8),
            dict(common_kw, name="all3", stopping_criterion=["ratio", "ess", "Z_err"], tolerance=[0.0, 1e6, 1.2],
                 check_criteria="all", min_iteration=2, max_iteration=10),
        ]
    return cfgs


def run(chk):
    rng = chk.rng
    quick = chk.tier == "quick"
    chk.rule = ("(1) scripted histories: the real nested_sampling_loop / initialise / finalise / reached_tolerance / "
                "configure_* of both samplers on an object whose loop body replays a generated oracle stream; conditions, "
                "criteria and tolerances from a 6-value alphabet (equalities frequent), caps None/1..8, min_iteration "
                "None/0..4, 1-3 criteria over every alias, any/all, fresh / mid-run / finished start states, 1-4 run() "
                "calls per history, streams shorter and longer than needed; (2) real short runs of both samplers with "
                "tolerances and caps placed ON recorded condition / criterion values of a base run, each followed by "
                "run() again and resume from the final checkpoint; non-trivial = at least one loop body executed; "
                "distinct by (config, start, consumed stream)")
    chk.assumptions += [
        "oracle: the loop body (consume_sample / the INS level update) is an arbitrary producer of the next condition / criterion values",
        "float comparisons enter the discrete model through the strictly monotone key map common.float_key (+inf has a key; NaN excluded)",
        "resume restores the pickled state (C12); a resumed run is modelled as run() on the final state",
        "criteria enclosures: Interval 4.6.1 operators (exp, ln, sqrt, div) at 80 bits; tolerance 2^-30 (1+|x|)",
        "wrappers are installed at class level on consume_sample / nested_sampling_loop / finalise / compute_stopping_criterion",
    ]
    chk.static_props(["C15"], ["C15_run", "C15_crit_run"])
    gen, rows, regen, src = translate(chk)
    today(chk, gen, regen, src)

    seed = 1500 + chk.seed
    root = os.path.join(chk.build, "runs")
    n_s, n_i = (700, 500) if quick else (6000, 4000)
    sjob = {"mode": "scripted", "std": gen_std_hist(rng, n_s), "ins": gen_ins_hist(rng, n_i, rows),
            "reached": gen_reached(rng, 400 if quick else 3000),
            "configure": gen_configure(rng, 200 if quick else 1500, rows),
            "finalise": gen_finalise(rng, 100 if quick else 600),
            "zerr": [{"logL": [rng.uniform(-6, 0) for _ in range(30)], "logW": [rng.uniform(-1, 1) for _ in range(30)], "tol": 0.5}],
            "critvec": gen_critvec(rng, 60 if quick else 400)}
    std_base = {"mode": "std", "root": root + "_std", "runs": [{"name": "base", "nlive": 50, "seed": seed, "max_iteration": 60}]}
    ins_base = {"mode": "ins", "root": root + "_ins", "runs": [{"name": "base", "nlive": 40, "seed": seed, "tolerance": -50.0,
                                                       "max_iteration": 5 if quick else 8, "keep_samples": True},
                                                      # a likelihood that is exactly zero outside a disc: log-weights of -inf
                                                      {"name": "cut_base", "nlive": 40, "seed": seed, "tolerance": -50.0, "cut": 3.0,
                                                       "max_iteration": 3 if quick else 6, "keep_samples": True}]}
    with concurrent.futures.ThreadPoolExecutor(max_workers=4) as ex:
        f_s = ex.submit(child_json, chk, sjob, 900)
        f_b = ex.submit(child_json, chk, std_base, 600)
        f_i = ex.submit(child_json, chk, ins_base, 600)
        (sres, serr), (bres, berr), (ires, ierr) = f_s.result(), f_b.result(), f_i.result()
        chk.oblige("scripted child ran", "harness", sres is not None, serr)
        chk.oblige("real standard base run ran", "harness", bres is not None and "error" not in bres["runs"][0],
                   berr or (bres and bres["runs"][0].get("trace", "")))
        chk.oblige("real importance base run ran", "harness", ires is not None and "error" not in ires["runs"][0],
                   ierr or (ires and ires["runs"][0].get("trace", "")))
        std_runs, ins_runs = [], []
        f2 = f3 = None
        if bres is not None and "error" not in bres["runs"][0]:
            std_runs.append(bres["runs"][0])
            f2 = ex.submit(child_json, chk, {"mode": "std", "root": root + "_std", "runs": std_run_cfgs(chk.tier, seed, bres["runs"][0])}, 1500)
        if ires is not None and "error" not in ires["runs"][0]:
            ins_runs += ires["runs"]
            f3 = ex.submit(child_json, chk, {"mode": "ins", "root": root + "_ins",
                                             "runs": ins_run_cfgs(chk.tier, seed, ires["runs"][0], ires["runs"][1:])}, 1500)
        # ---- scripted part while the boundary runs are going ------------------------------------------
        vec_cases = []
        if sres is not None:
            vec_cases = scripted(chk, sjob, sres, gen, rows)
        for f, runs, what in ((f2, std_runs, "standard"), (f3, ins_runs, "importance")):
            if f is not None:
                res, err = f.result()
                chk.oblige(f"real {what} boundary runs ran", "harness", res is not None, err)
                if res is not None:
                    runs += res["runs"]
    real(chk, std_runs, ins_runs, gen, vec_cases)


def scripted(chk, job, res, gen, rows):
    hdr = GEN_HDR + gen
    canon = {a: k for k, al in rows for a in al}
    # ---- standard histories -------------------------------------------------------------------------
    lits = []
    for c, o in zip(job["std"], res["std"]):
        check_std_history(chk, c, o)
        lits.append(lit_std_case(c, o))
        chk.count("std:histories")
        chk.count("std:calls", len(o))
    chk.evaluations += len(lits)
    coq_mism(chk, "shist", hdr, "(chk_shist gen_ssk)", lits,
             "histories of run() calls on the real NestedSampler.initialise / nested_sampling_loop / finalise (scripted "
             "body) = model s_run over the regenerated skeleton: bodies executed, condition, iteration, finalised, live "
             "points, nested samples, raised / wants-more", TY_S)
    for i in range(0, len(lits), max(1, len(lits) // 2)):
        chk.sample({"scripted_standard_history": job["std"][i], "observed": res["std"][i]})
    # ---- importance histories -----------------------------------------------------------------------
    lits = []
    for c, o in zip(job["ins"], res["ins"]):
        if check_ins_history(chk, c, o):
            lits.append(lit_ins_case(c, o))
            chk.count("ins:histories")
            chk.count("ins:any" if o["configured"]["stop_any"] else "ins:all")
            chk.count(f"ins:criteria:{len(o['configured']['tolerance'])}")
    chk.evaluations += len(lits)
    coq_mism(chk, "ihist", hdr, "(chk_ihist gen_isk)", lits,
             "histories of the real ImportanceNestedSampler.nested_sampling_loop (real reached_tolerance, configure_*, "
             "finalise; scripted body) = model i_run over the regenerated skeleton", TY_I)
    if job["ins"]:
        chk.sample({"scripted_importance_history": job["ins"][0], "observed": res["ins"][0]})
    # ---- reached_tolerance ----------------------------------------------------------------------------
    lits = []
    for c, o in zip(job["reached"], res["reached"]):
        if "raised" in o:
            chk.fail("C15:ins:reached-raised", f"reached_tolerance raised {o['raised']}", {"reached": c})
            continue
        crit, tol = [unnum(v) for v in c["crit"]], [unnum(v) for v in c["tol"]]
        if o["reached"] != spec_reached(c["any"], crit, tol):
            chk.fail("C15:ins:reached", f"reached_tolerance = {o['reached']} for criterion {crit}, tolerance {tol}, "
                     f"{'any' if c['any'] else 'all'}", {"reached": c, "observed": o})
        lits.append(cT(cB(c["any"]), cL(map(key, c["crit"])), cL(map(key, c["tol"])), cB(o["reached"])))
    chk.evaluations += len(lits)
    coq_mism(chk, "reached", hdr, "(chk_reached gen_reached)", lits,
             "the real reached_tolerance property = regenerated gen_reached", "bool * list Z * list Z * bool", shard=1000)
    # ---- configure_stopping_criterion ------------------------------------------------------------------
    lits = []
    for c, o in zip(job["configure"], res["configure"]):
        names = [c["names"]] if isinstance(c["names"], str) else list(c["names"])
        ntol = len(c["tolerance"]) if isinstance(c["tolerance"], list) else 1
        known = [n for n in names if n in canon]
        rp = {"configure": c, "observed": o}
        if c["check"] not in ("any", "all"):
            if o.get("error") != "ValueError":
                chk.fail("C15:ins:check_criteria", f"check_criteria={c['check']!r} accepted", rp)
            continue
        if "error" in o:
            if o["error"] != "ValueError" or (len(known) == len(names) == ntol):
                chk.fail("C15:ins:configure-raised", f"valid configuration rejected: {o}", rp)
        else:
            if o["stopping_criterion"] != [canon[n] for n in known] or o["stop_any"] != (c["check"] == "any") or \
                    len(o["criterion"]) != ntol or any(unnum(v) != INF for v in o["criterion"]):
                chk.fail("C15:ins:alias", f"names {names} configured as {o['stopping_criterion']}", rp)
            if len(known) != len(names):
                chk.count("configure:unknown name silently dropped")
            for n in names:
                chk.count("alias:" + n)
        lits.append(cT(cL(map(cStr, names)), cN(ntol), cOpt(None if "error" in o else cL(map(cStr, o["stopping_criterion"])))))
    chk.evaluations += len(lits)
    coq_mism(chk, "configure", hdr, "(chk_resolve gen_aliases)", lits,
             "the real configure_stopping_criterion (every alias alone + mixes + unknown names) = model resolve over the "
             "regenerated alias table", "list string * nat * option (list string)", shard=1000)
    # ---- finalise ---------------------------------------------------------------------------------------
    lits = []
    for c, o in zip(job["finalise"], res["finalise"]):
        rp = {"finalise": c, "observed": o}
        if c["live"] is None:
            if "raised" not in o:
                chk.fail("C15:std:finalise-none", "finalise with live_points=None did not raise", rp)
            obs = "None"
        elif "raised" in o:
            chk.fail("C15:std:finalise-raised", f"finalise raised {o['raised']}", rp)
            continue
        else:
            n = len(c["live"])
            if o["ns"] != c["ns"] + c["live"] or not o["live_none"] or not o["fin"] or \
                    [b for _, b in o["increments"]] != list(range(n, 0, -1)):
                chk.fail("C15:std:finalise", "finalise did not append every live point exactly once (with nlive - i)", rp)
            obs = "(Some " + cL(map(cZ, o["ns"])) + ")"
        lits.append(cT(ozl(c["live"]), cL(map(cZ, c["ns"])), obs))
    hdr_f = hdr + ("Definition chk_fin (c : option (list Z) * list Z * option (list Z)) : bool :=\n"
                   "  let '(lv, ns, o) := c in let st := finalise gen_sfin_effs (mk_sst 0 0 false lv ns) in\n"
                   "  match o with None => s_err st | Some l => negb (s_err st) && zlist_eqb (s_ns st) l && s_fin st\n"
                   "    && match s_live st with None => true | Some _ => false end end.\n")
    chk.evaluations += len(lits)
    coq_mism(chk, "finalise", hdr_f, "chk_fin", lits,
             "the real NestedSampler.finalise on id lists = denotation of the regenerated effect list",
             "option (list Z) * list Z * option (list Z)", shard=1000)
    # ---- D10: Z_err on a real integral state ---------------------------------------------------------------
    for c, o in zip(job["zerr"], res["zerr"]):
        check_zerr(chk, c, o)
    # ---- every criterion on sample vectors with and without zero-likelihood samples -----------------------------
    vec_cases = []
    for c, o in zip(job.get("critvec", []), res.get("critvec", [])):
        check_critvec(chk, c, o, vec_cases)
    chk.evaluations += len(job.get("critvec", []))
    return vec_cases


def check_zerr(chk, c, o):
    z, u = unnum(o["Z_err"]), unnum(o["evidence_error"])
    if abs(z - u) > 1e-6 * max(1.0, abs(u)) and abs(z - math.exp(unnum(o["log_evidence_error"]))) <= 1e-9 * (1 + abs(z)):
        chk.fail("C15:ins:Z_err-is-exp-of-relative-error",
                 f"the Z_err (alias evidence_error) criterion is {z:.6g} = exp(sigma[ln Z]) >= 1; the evidence error "
                 f"recomputed from the samples is {u:.6g} (Z = {unnum(o['evidence']):.6g}): a tolerance below 1 is never met",
                 {"zerr": c, "observed": o})
        return True
    return False


def real(chk, std_runs, ins_runs, gen, vec_cases=()):
    hdr = GEN_HDR + gen
    lits = []
    ccases = list(vec_cases)
    for r in std_runs:
        check_std_real(chk, r, None)
        if "error" in r:
            continue
        lits.append(lit_std_real(r, [(t, [unnum(v) for v in r[t].get("stream", [])]) for t in ("run2", "run3") if t in r]))
        b = r["bodies1"]
        step = max(1, len(b) // (12 if chk.tier == "quick" else 40))
        if r["cfg"]["name"] in ("base", "tol_default_long"):
            for x in b[::step]:
                ccases.append((f"CStd {dy(x['logZ1'])} {dy(x['logLmax0'])} {cZ(x['it0'])} {cZ(r['nlive'])} {dy(x['cond1'])}",
                               f"standard condition at iteration {x['it0']}"))
        chk.sample({"real_standard_run": r["cfg"], "tol": r["tol"], "cap": r["cap"], "run1": r["run1"],
                    "run2": r.get("run2"), "run3": r.get("run3"), "last_conditions": [x["cond1"] for x in b[-3:]]}, limit=10)
    if lits:
        coq_mism(chk, "real_std", hdr, "(chk_shist gen_ssk)", lits,
                 "real standard runs: the conditions recorded around consume_sample replayed through the model stop where "
                 "the run stopped (run, run again, resume)", TY_S)
    lits = []
    defs = []
    for r in ins_runs:
        check_ins_real(chk, r)
        if "error" in r:
            continue
        lits.append(lit_ins_real(r))
        d, cs, lb = criteria_cases(r)
        defs += d
        ccases += list(zip(cs, lb))
        chk.sample({"real_importance_run": r["cfg"], "configured": r["configured"], "run1": r["run1"],
                    "criteria": [e["returned"] for e in r["its"]]}, limit=10)
    if lits:
        coq_mism(chk, "real_ins", hdr, "(chk_ihist gen_isk)", lits,
                 "real importance runs: the criteria recorded around compute_stopping_criterion replayed through the model "
                 "stop where the run stopped (run, run again, resume)", TY_I)
    # ---- criteria recomputed from the samples, decided inside Coq with interval enclosures -------------------
    if ccases:
        chdr = ("From Coq Require Import List ZArith Bool.\nImport ListNotations.\n"
                "From NessaiV Require Import Lib.Enclose Model.C15_Criteria Run.C15_crit_run.\n"
                "Set Printing Width 1000000.\nSet Printing Depth 1000000.\n" + "\n".join(defs) + "\n")
        nsh = 4
        shards = [ccases[i::nsh] for i in range(nsh)]
        bad, ok_all, errs = [], True, ""
        with concurrent.futures.ThreadPoolExecutor(max_workers=nsh) as ex:
            futs = []
            for k, sh in enumerate(shards):
                if sh:
                    txt = chdr + "Eval vm_compute in (cmism " + cL(f"({t})" for t, _ in sh) + ").\n"
                    futs.append((sh, ex.submit(chk.coq_run, f"criteria_{k}", txt, 1500)))
            for sh, f in futs:
                ok, evals, err = f.result()
                if not ok or len(evals) != 1:
                    ok_all, errs = False, err
                    continue
                bad += [sh[i][1] for i in common.parse_nat_list(evals[0])]
        chk.oblige(f"correspondence: criteria recomputed from the recorded samples enclose the reported values "
                   f"(ess, log Z, log_dZ, fractional / log-evidence error, Z_err as coded, ratio, ratio_ns, standard "
                   f"condition; {len(ccases)} cases, each a theorem about reals by C15_criteria_defs)", "correspondence",
                   ok_all and not bad, errs or "outside tolerance: " + "; ".join(bad[:6]))
        chk.traces += len(ccases)
        chk.oracle_validations += len(ccases)
        for _, lb in ccases:
            chk.count("criteria:" + lb.split(": ")[-1].split(" at ")[0])
        if bad:
            chk.fail("C15:criteria-definition", "a reported criterion differs from its definition recomputed from the samples: "
                     + "; ".join(bad[:6]), {"labels": bad})


def replay(data):
    rp = data["replay"]
    chk = common.Check(PID + "_replay", "quick", 0)
    chk.known = []

    def child(job, timeout=600):
        r = subprocess.run(["timeout", str(timeout), common.PY, os.path.join(common.VERIF, "harness", "c15_child.py")],
                           input=json.dumps(job), capture_output=True, text=True, env=common.child_env(), cwd=chk.build)
        if r.returncode != 0:
            print(r.stderr[-800:])
            return None
        return json.loads(r.stdout)

    if "case" in rp and "calls" in rp["case"] and "criteria" not in rp["case"]:
        res = child({"mode": "scripted", "std": [rp["case"]]})
        check_std_history(chk, rp["case"], res["std"][0])
        print(json.dumps({"observed": res["std"][0]}))
    elif "case" in rp and "criteria" in rp["case"]:
        res = child({"mode": "scripted", "ins": [rp["case"]]})
        check_ins_history(chk, rp["case"], res["ins"][0])
        print(json.dumps({"observed": res["ins"][0]})[:2000])
    elif "reached" in rp:
        c = rp["reached"]
        o = child({"mode": "scripted", "reached": [c]})["reached"][0]
        if o.get("reached") != spec_reached(c["any"], [unnum(v) for v in c["crit"]], [unnum(v) for v in c["tol"]]):
            chk.fail("C15:ins:reached", "reached_tolerance differs from any/all", rp)
        print(json.dumps(o))
    elif "critvec" in rp:
        o = child({"mode": "scripted", "critvec": [rp["critvec"]]})["critvec"][0]
        print(json.dumps(o))
        check_critvec(chk, rp["critvec"], o, [])
    elif "zerr" in rp:
        o = child({"mode": "scripted", "zerr": [rp["zerr"]]})["zerr"][0]
        print(json.dumps(o))
        check_zerr(chk, rp["zerr"], o)
    elif "real_run" in rp:
        mode = "std" if rp["real_run"] == "standard" else "ins"
        res = child({"mode": mode, "root": os.path.join(chk.build, "runs"), "runs": [rp["cfg"]]}, 900)
        r = res["runs"][0]
        (check_std_real(chk, r, None) if mode == "std" else check_ins_real(chk, r))
        print(json.dumps({k: r.get(k) for k in ("run1", "run2", "run3")})[:2000])
    elif "finalise" in rp or "configure" in rp:
        k = "finalise" if "finalise" in rp else "configure"
        print(json.dumps(child({"mode": "scripted", k: [rp[k]]})[k][0]))
        print("re-run ./check C15 for the verdict on this case")
    else:
        print("nothing to replay; re-run ./check C15")
    import shutil
    shutil.rmtree(chk.build, ignore_errors=True)
    if chk.failures:
        f = chk.failures[0]
        print(f"VIOLATION property={PID} replay=(replayed) {f['key']}: {f['what']}")
        return 1
    print("replay: the property holds on this input")
    return 0
