"""C03: every INS sample carries the exact meta-proposal density and weight."""
import itertools
import json
import re
import math
import os
import subprocess
import sys
from concurrent.futures import ThreadPoolExecutor

import common
from common import cL, cN, cOpt, cT, cZ, float_dyadic

sys.path.insert(0, common.VERIF + "/translator")
PID = "C03"
INF = float("inf")


def dy(x):
    m, e = float_dyadic(x)
    return cT(cZ(m), cZ(e))


def odyo(x):
    return "None" if x == -INF else f"(Some {dy(x)})"


def pow2_ge(x):
    """smallest power of two >= x (x > 0), as a float"""
    return 2.0 ** math.ceil(math.log2(x))


def configs(tier, seed):
    base = {"nlive": 60, "max_iteration": 3, "min_samples": 20, "min_remove": 2}
    out = []
    if tier == "quick":
        variants = [{}, {"strict_threshold": True}, {"replace_all": True}, {"draw_constant": False},
                    {"draw_iid_live": False}, {"reparameterisation": None},
                    {"strict_threshold": True, "replace_all": True, "reparameterisation": None}]
        for i, v in enumerate(variants):
            out.append({"seed": 100 * seed + i + 1, "kwargs": {**base, **v}})
        # a prior that vanishes inside its bounding box (draws are rejected on logP), and a non-constant
        # unit-hypercube prior (logU != 0)
        out.append({"seed": 100 * seed + 50, "model": "constrained", "kwargs": dict(base)})
        out.append({"seed": 100 * seed + 51, "model": "gaussprior", "kwargs": {**base, "max_iteration": 4}})
        out.append({"seed": 100 * seed + 52, "model": "gaussprior", "kwargs": {**base, "draw_iid_live": False, "strict_threshold": True}})
        # a prior that does not test the bounds itself, without the logit map: only the sampler keeps samples in the cube
        out.append({"seed": 100 * seed + 53, "model": "nocheck", "kwargs": {**base, "reparameterisation": None}})
        out.append({"seed": 100 * seed + 54, "model": "nocheck", "kwargs": {**base, "reparameterisation": None, "draw_iid_live": False,
                                                                         "max_iteration": 5}})
        # tied likelihoods (a floor; exactly zero outside a disc): the order among ties is decided by the other fields
        out.append({"seed": 100 * seed + 55, "model": "floor", "kwargs": dict(base)})
        out.append({"seed": 100 * seed + 56, "model": "cut", "kwargs": {**base, "strict_threshold": True}})
        # checkpoint/resume cycles (the process dies right after the checkpoint of the listed iterations): the restored
        # stores are checked before the resumed sampler does anything, then after every further iteration
        out.append({"seed": 100 * seed + 60, "kwargs": {**base, "max_iteration": 4}, "resume_after": [2]})
        out.append({"seed": 100 * seed + 61, "model": "gaussprior", "resume_after": [1, 3],
                    "kwargs": {**base, "max_iteration": 4, "save_log_q": True, "strict_threshold": True}})
        # two resumes with new proposals trained in between, without the density table
        out.append({"seed": 100 * seed + 62, "kwargs": {**base, "max_iteration": 5}, "resume_after": [1, 3]})
        # variable draws where most levels remove fewer than min_samples
        out.append({"seed": 100 * seed + 57, "kwargs": {**base, "nlive": 80, "min_samples": 60, "draw_constant": False, "max_iteration": 4}})
        # ... and more stored samples than any internal batch size at the moment a checkpoint WITHOUT the density table is resumed
        out.append({"seed": 100 * seed + 71, "kwargs": {**base, "nlive": 6000, "max_iteration": 3}, "resume_after": [1], "hang_after": 900})
        # more samples in one store than any internal batch size of the density evaluation
        out.append({"seed": 100 * seed + 70, "kwargs": {**base, "nlive": 26000, "max_iteration": 1}, "hang_after": 900})
    else:
        i = 0
        for st, ra, dc, iid, rp in itertools.product([False, True], [False, True], [True, False], [True, False],
                                                     ["logit", None]):
            i += 1
            kw = {**base, "nlive": 80, "max_iteration": 5, "min_samples": 30, "strict_threshold": st,
                  "replace_all": ra, "draw_constant": dc, "draw_iid_live": iid, "reparameterisation": rp}
            out.append({"seed": 100 * seed + i, "kwargs": kw, "model": ["uniform", "constrained", "gaussprior", "nocheck", "floor", "cut"][i % 6]})
        for j, (ra, slq, iid) in enumerate(itertools.product([[2], [1, 2], [1, 3, 4]], [False, True], [True, False])):
            out.append({"seed": 100 * seed + 60 + j, "model": ["uniform", "constrained", "gaussprior"][j % 3], "resume_after": ra,
                        "kwargs": {**base, "nlive": 80, "max_iteration": 5, "min_samples": 30, "save_log_q": slq,
                                   "draw_iid_live": iid, "reparameterisation": [None, "logit"][j % 2]}})
        for j, nl in enumerate((26000, 61000)):
            out.append({"seed": 100 * seed + 90 + j, "kwargs": {**base, "nlive": nl, "max_iteration": 1 + j,
                                                               "draw_iid_live": j == 0}, "hang_after": 1500})
    return out


# functions whose failure is a failure of the density bookkeeping itself
BOOKKEEPING = {"update_log_q", "compute_meta_proposal_from_log_q", "compute_log_Q", "compute_meta_proposal_samples", "add_samples",
               "add_initial_samples", "sort_samples", "update_proposal_weights", "add_new_proposal_weight", "log_prob_ith",
               "log_prob_all", "get_proposal_log_prob", "rescale", "to_prime", "add_and_update_points", "update_evidence",
               "resume_from_pickled_sampler", "get_inverse_indices", "finalise", "draw", "draw_from_prior", "inverse_rescale"}


def translate(chk):
    import c03_order
    from pyast import Declined
    try:
        a, b = c03_order.order()
        chk.translator["add_new_proposal_weight + add_and_update_points"] = "translated"
        return a, b
    except Declined as e:
        chk.translator["add_new_proposal_weight + add_and_update_points"] = f"declined: {e}"
        return None


def today(chk, orders):
    with_iid, without = orders
    txt = (common.COQ_HEADER + "From Coq Require Import Reals.\n"
           "From NessaiV Require Import Lib.Enclose Model.C03_Meta Proofs.C03_Meta_proofs.\n"
           f"Definition order_now_iid : list eff := {with_iid}.\nDefinition order_now : list eff := {without}.\n"
           "Lemma today : order_ok true order_now_iid = true /\\ order_ok false order_now = true.\n"
           "Proof. vm_compute. split; reflexivity. Qed.\n"
           "(* the soundness theorem instantiated on today's order: the property statement for this code *)\n"
           "Lemma today_property : forall (pt : Type) (q : nat -> pt -> xlog) (logU : pt -> R) n_new ptt pti cs0 t0 i0,\n"
           "  Forall (row_ok pt q logU cs0) t0 -> Forall (row_ok pt q logU cs0) i0 ->\n"
           "  let c := cexec pt q logU n_new ptt pti {| c_counts := cs0; c_train := {| c_rows := t0; c_pending := [] |};\n"
           "             c_iid := {| c_rows := i0; c_pending := [] |} |} order_now_iid in\n"
           "  Forall (row_ok pt q logU (cs0 ++ [n_new])) (c_rows pt (c_train pt c)) /\\\n"
           "  Forall (row_ok pt q logU (cs0 ++ [n_new])) (c_rows pt (c_iid pt c)).\n"
           "Proof. intros pt q logU n_new ptt pti cs0 t0 i0 Ht Hi.\n"
           "  destruct (order_ok_sound pt q logU n_new ptt pti cs0 true order_now_iid t0 i0 (proj1 today) Ht Hi) as (_ & H1 & H2).\n"
           "  split; [exact H1|exact (H2 eq_refl)]. Qed.\n")
    ok, _, err = chk.coq_run("today_order", txt, timeout=300)
    chk.oblige("today: order_ok (regenerated effect order of add_new_proposal_weight + add_and_update_points) "
               "+ instantiated soundness", "today", ok, err)


def run_one(chk, i, cfg):
    cfg = dict(cfg)
    cfg["output"] = os.path.join(chk.build, f"run_{i}")
    rc, out, err = chk.child("c03_child.py", [json.dumps(cfg)], timeout=600)
    try:
        return json.loads(out)
    except Exception:
        return {"error": "child failed", "trace": (err or out)[-1500:]}


def check_snapshot(chk, cfg, snap, lits, wlits, K, rng, recomputed=False):
    counts = [snap["counts"][k] for k in sorted(snap["counts"], key=int)]
    weights = [snap["weights"][k] for k in sorted(snap["weights"], key=int)]
    total = sum(counts)
    where = f"{snap['where']}@{snap['iteration']}"
    rep = lambda extra: {"config": cfg, "where": where, "counts": counts, "weights": weights, **extra}
    if len(weights) != len(counts) or any(abs(w - c / total) > 1e-15 for w, c in zip(weights, counts)):
        chk.fail("C03:weights", f"weights {weights} are not counts/total for counts {counts}", rep({}))
    if abs(sum(weights) - 1.0) > 1e-12:
        chk.fail("C03:weights-sum", f"weights sum to {sum(weights)}", rep({}))
    wlits.append(cT(cL(map(cN, counts)), cL(dy(w) for w in weights), dy(2.0 ** -50)))
    for st in snap["stores"]:
        rows = st["rows"]
        if st["store"] == "train" and st.get("n", len(rows)) != total:
            chk.fail("C03:counts", f"{st.get('n', len(rows))} stored samples but counts sum to {total}", rep({"store": st["store"]}))
        if st.get("n_flows") is not None and st["n_flows"] != len(counts):
            chk.fail("C03:proposals-missing", f"{st['n_flows'] - 1} saved flows can be re-evaluated but the sampler counts {len(counts) - 1} "
                     f"flow proposals ({st['store']} store)", rep({"store": st["store"]}))
        if st.get("by_it") is not None:
            # the weights are fractions of the samples actually held: tally the store by the proposal each sample came from
            tally = [st["by_it"].get(j - 1, 0) for j in range(len(counts))]
            if sum(tally) == st.get("n", sum(tally)) and tally != counts and not cfg["kwargs"].get("replace_all"):
                chk.fail("C03:counts-vs-store", f"the {st['store']} store holds {tally} samples per proposal but the weights are "
                         f"computed from the counts {counts}", rep({"store": st["store"], "tally": tally}))
        if st.get("vec"):
            chk.evaluations += st["vec"]["n"] - len(rows)
            chk.count("rows_checked_vectorised", st["vec"]["n"])
            if st["vec"]["n_bad"]:
                chk.fail("C03:store-vector", f"{st['vec']['n_bad']} of {st['vec']['n']} rows of the {st['store']} store fail the row clauses "
                         f"(first at {st['vec']['first_bad']})", rep({"store": st["store"], "vec": st["vec"]}))
        for r in rows:
            chk.evaluations += 1
            key = None
            if len(r["lq"]) != len(counts):
                key, what = "C03:row-width", f"log_q row has {len(r['lq'])} columns for {len(counts)} proposals"
            elif any((a != b) and not (abs(a - b) <= 1e-3 + 1e-4 * abs(b)) for a, b in zip(r["lq"], r["lq_re"])):
                key, what = "C03:log_q-not-proposal", f"stored log_q {r['lq']} != proposals re-evaluated {r['lq_re']}"
            elif not all(0.0 <= v < 1.0 for v in r["x"]):
                key, what = "C03:outside-unit-cube", f"sample {r['x']} outside the unit hypercube"
            elif not (r["logL"] == r["logL_re"] or abs(r["logL"] - r["logL_re"]) <= 1e-12 * max(1, abs(r["logL"]))):
                key, what = "C03:logL", f"stored logL {r['logL']} != model {r['logL_re']}"
            else:
                mx = max(q + math.log(w) for q, w in zip(r["lq"], weights) if w > 0 and q > -INF)
                lse = mx + math.log(sum(w * math.exp(q - (mx)) for q, w in zip(r["lq"], weights) if q > -INF))
                # after a resume without save_log_q the rows are RE-EVALUATED float32 flows while logQ is the pickled value:
                # until the next iteration recomputes logQ from the rows they agree to float32 accuracy only
                if abs(lse - r["logQ"]) > (2e-5 if recomputed else 1e-9) * max(1.0, abs(lse)):
                    key, what = "C03:logQ", f"stored logQ {r['logQ']} != log-mixture {lse} of its row with weights {weights}"
                elif abs(r["logW"] - (r["logU"] - r["logQ"])) > 1e-12 * max(1.0, abs(r["logW"])):
                    key, what = "C03:logW", f"stored logW {r['logW']} != logU - logQ = {r['logU'] - r['logQ']}"
            chk.oracle_validations += 2
            if key:
                chk.fail(key, what, rep({"store": st["store"], "row": r}))
            if sum(1 for q in r["lq"] if q > -50) >= 2:
                chk.nontriv((cfg["seed"], where, st["store"], r["x"]))
        pick = rows if len(rows) <= K else rng.sample(rows, K)
        for r in pick:
            if len(r["lq"]) != len(counts) or r["lq"][0] == -INF or not all(map(math.isfinite, (r["logQ"], r["logU"], r["logW"]))):
                continue
            tq = pow2_ge(2.0 ** (-15 if recomputed else -30) * max(1.0, abs(r["logQ"])))
            tw = pow2_ge(2.0 ** -45 * max(1.0, abs(r["logW"])))
            lits.append(cT(cL(map(cN, counts)), cL(odyo(q) for q in r["lq"]), dy(r["logQ"]), dy(r["logU"]), dy(r["logW"]),
                           dy(tq), dy(tw)))


def eval_shards(chk, name, lits, chkfn, size, typ="list _"):
    hdr = (common.COQ_HEADER + "From Coq Require Import Reals.\n"
           "From NessaiV Require Import Lib.Enclose Model.C03_Meta Run.C03_run.\n")
    shards = [lits[i:i + size] for i in range(0, len(lits), size)]

    def one(k):
        txt = hdr + f"Definition cs : {typ} := {cL(shards[k])}.\nEval vm_compute in (mism {chkfn} cs).\n"
        ok, evals, err = chk.coq_run(f"{name}_{k}", txt, timeout=900)
        if not ok or len(evals) != 1:
            return None, f"shard {name}_{k}: {err[-500:]}"
        return [k * size + i for i in common.parse_nat_list(evals[0])], ""

    bad = []
    with ThreadPoolExecutor(max_workers=12) as ex:
        for r, err in ex.map(one, range(len(shards))):
            if r is None:
                return None, err
            bad += r
    return bad, ""


def run(chk):
    rng = chk.rng
    chk.rule = ("real importance-sampler runs on a 2-d Gaussian over strict/soft threshold x replace_all x constant/variable "
                "draws x independent store on/off x logit/none; every row of both stores after every update_evidence and "
                "after finalise is checked on the Python side, a random subset of rows per snapshot inside Coq with 80-bit "
                "interval enclosures; non-trivial = a row with at least two proposals contributing (log_q > -50); "
                "distinct by (seed, snapshot, store, point)")
    chk.assumptions += [
        "oracle: the per-proposal log-densities q_j (torch flows + logit Jacobian) and the unit-hypercube prior; validated by "
        "re-evaluating every saved proposal at every stored sample (compute_meta_proposal_samples) to float32 accuracy",
        "oracle: the user's likelihood; validated by re-evaluating the model at the physical point of every stored sample",
        "Interval library operators (I.exp, I.ln, I.mul, I.div, I.add, I.sub) through Lib/Enclose.v",
        "tolerances: |logQ - mixture| <= 2^-30 max(1,|logQ|) (2^-15 between a resume that re-evaluates the float32 flows and the next iteration), |logW - (logU - logQ)| <= 2^-45 max(1,|logW|), |w_j - c_j/total| <= 2^-50",
    ]
    chk.static_props(["C03"], ["C03_run"])
    orders = translate(chk)
    if orders:
        today(chk, orders)
    cfgs = configs(chk.tier, chk.seed)
    with ThreadPoolExecutor(max_workers=12) as ex:
        results = list(ex.map(lambda t: run_one(chk, *t), enumerate(cfgs)))
    lits, wlits = [], []
    K = 25 if chk.tier == "quick" else 80
    for cfg, res in zip(cfgs, results):
        tag = ",".join(f"{k}={v}" for k, v in cfg["kwargs"].items() if k not in ("nlive", "max_iteration", "min_samples", "min_remove"))
        if "error" in res:
            frames = re.findall(r'File "[^"]*/nessai/([^"]+)", line \d+, in (\w+)', res.get("trace", ""))
            where = frames[-1] if frames else ("?", "?")
            if where[1] in BOOKKEEPING or not frames:
                chk.fail(f"C03:run-failed:{res['error']}@{where[1]}", f"importance sampler run failed inside the density bookkeeping "
                         f"({tag}): {res['trace'][-400:]}", {"config": cfg, "trace": res["trace"]})
                continue
            # the run died elsewhere (that an accepted configuration completes is C20's property, not this one): the
            # iterations that did finish are still checked
            chk.count(f"run ended early outside the bookkeeping code: {res['error']} in {where[0]}:{where[1]}")
            chk.notes.append(f"run {tag} model={cfg.get('model', 'uniform')} ended early: {res['error']} in {where[0]}:{where[1]}; "
                             f"{len(res.get('snaps', []))} snapshots taken before that are checked")
            if not res.get("snaps"):
                continue
        chk.traces += 1
        chk.count("runs")
        chk.count("snapshots", len(res["snaps"]))
        recomputed = False
        for snap in res["snaps"]:
            if snap["where"] == "resumed":
                recomputed = not cfg["kwargs"].get("save_log_q", False)
                chk.count("resumed_snapshots")
            elif snap["where"] == "update_evidence":
                recomputed = False
            check_snapshot(chk, cfg, snap, lits, wlits, K, rng, recomputed)
        if len(chk.samples) < 3:
            s = res["snaps"][-1]
            chk.sample({"config": cfg, "where": s["where"], "counts": s["counts"], "weights": s["weights"],
                        "row": s["stores"][0]["rows"][0]})
    bad, err = eval_shards(chk, "rows", lits, "chk_row", 150, "list rowcase")
    chk.oblige(f"correspondence: stored logQ within tolerance of the enclosure of ln(sum_j (c_j/total) exp(log_q_j)) and "
               f"logW of logU - logQ ({len(lits)} rows of real runs, proved per row inside Coq)", "correspondence",
               bad == [], err or "rows outside the enclosure: " + "; ".join(lits[i] for i in (bad or [])[:2]))
    bad, err = eval_shards(chk, "weights", wlits, "chk_weights", 200, "list (list nat * list (Z * Z) * (Z * Z))")
    chk.oblige(f"correspondence: proposal weights = counts/total ({len(wlits)} snapshots)", "correspondence",
               bad == [], err or "bad: " + "; ".join(wlits[i] for i in (bad or [])[:2]))
    chk.count("rows_checked_in_coq", len(lits))


def replay(data):
    rp = data["replay"]
    cfg = dict(rp["config"])
    import tempfile
    with tempfile.TemporaryDirectory(dir=os.path.join(common.VERIF, "build") if os.path.isdir(os.path.join(common.VERIF, "build")) else None) as d:
        cfg["output"] = d
        r = subprocess.run([common.PY, os.path.join(common.VERIF, "harness", "c03_child.py"), json.dumps(cfg)],
                           capture_output=True, text=True, env=common.child_env())
    res = json.loads(r.stdout)
    if "error" in res:
        print(res["trace"])
        print(f"VIOLATION property={PID} replay=(replayed) run failed: {res['error']}")
        return 1

    class Fake:
        def __init__(self):
            self.fails, self.evaluations, self.oracle_validations = [], 0, 0

        def fail(self, key, what, replay):
            self.fails.append((key, what))

        def nontriv(self, x):
            pass

    fk = Fake()
    import random
    recomputed = False
    for snap in res["snaps"]:
        if snap["where"] == "resumed":
            recomputed = not cfg["kwargs"].get("save_log_q", False)
        elif snap["where"] == "update_evidence":
            recomputed = False
        check_snapshot(fk, cfg, snap, [], [], 0, random.Random(0), recomputed)
    for k, w in fk.fails[:5]:
        print(k, w[:300])
    if fk.fails:
        print(f"VIOLATION property={PID} replay=(replayed) {fk.fails[0][1][:200]}")
        return 1
    print("replayed: no failure")
    return 0
