"""C10: batched / chunked / pooled evaluation equals pointwise evaluation, counted once."""
import json
import sys

import common
from common import cB, cL, cN, cT

sys.path.insert(0, common.VERIF + "/translator")

PID = "C10"
HAND_TREE = "batch_tree"


def translate(chk):
    import c10_tree
    from pyast import Declined

    status = {}
    tree = None
    try:
        tree = c10_tree.tree()
        status["batch_evaluate_function"] = "translated"
    except Declined as e:
        status["batch_evaluate_function"] = f"declined: {e}"
    try:
        c10_tree.chunks_shape()
        status["array_split_chunksize"] = "shape recognised"
    except Declined as e:
        status["array_split_chunksize"] = f"declined: {e}"
    counters = {}
    for cm in (("Model", "batch_evaluate_log_likelihood"), ("Model", "evaluate_log_likelihood")):
        try:
            counters[cm[1]] = c10_tree.counter(cm)
            status["counter:" + cm[1]] = "translated"
        except Declined as e:
            status["counter:" + cm[1]] = f"declined: {e}"
    calls = None
    try:
        calls, status["model_calls"] = c10_tree.model_calls()
    except Declined as e:
        status["model_calls"] = f"declined: {e}"
    chk.translator = status
    return tree, counters, calls


def today(chk, tree, counters, calls=None):
    """today-lemmas over the regenerated skeletons."""
    if tree is not None:
        txt = common.COQ_HEADER + "From NessaiV Require Import Model.C10_Batch Proofs.C10_Batch_proofs.\n"
        txt += f"Definition sk_now : dtree := {tree}.\n"
        txt += "Lemma today : tree_ok sk_now no_facts = true.\nProof. vm_compute. reflexivity. Qed.\n"
        # instantiating the soundness theorem on today's skeleton: the statement of the property for this tree
        txt += ("Lemma today_property : forall (A B : Type) (f : A -> B) fv pmap i,\n"
                "  (vectorised i = true -> forall l, fv l = map f l) ->\n"
                "  (forall X Y (g : X -> Y) l, pmap X Y g l = map g l) ->\n"
                "  (has_pool i = true -> 1 <= n_pool i) ->\n"
                "  forall l : list A, eval_tree f fv pmap sk_now i l = map f l.\n"
                "Proof. intros A B f fv pmap i H1 H2 H3 l. exact (checker_sound f fv pmap i H1 H2 H3 sk_now l today). Qed.\n")
        ok, _, err = chk.coq_run("today_tree", txt)
        chk.oblige("today: tree_ok sk_now = true (regenerated batch_evaluate_function) + instantiated soundness",
                   "today", ok, err)
    if calls is not None:
        txt = common.COQ_HEADER + "From NessaiV Require Import Model.C10_Batch Proofs.C10_Batch_proofs.\n"
        txt += f"Definition calls_now : list (fid * mcall) := {calls}.\n"
        txt += "Lemma today : calls_ok calls_now = true.\nProof. vm_compute. reflexivity. Qed.\n"
        ok, _, err = chk.coq_run("today_calls", txt)
        chk.oblige("today: calls_ok (regenerated call table of Model.batch_evaluate_log_likelihood / _log_prior / "
                   "_log_prior_unit_hypercube: function, vectorisation flag and pool wrapper belong together)",
                   "today", ok, err)
    for name, effs in counters.items():
        txt = common.COQ_HEADER + "From NessaiV Require Import Model.C10_Batch Proofs.C10_Batch_proofs.\n"
        txt += f"Definition c_now : list ceff := {effs}.\n"
        txt += "Lemma today : counter_ok c_now = true.\nProof. vm_compute. reflexivity. Qed.\n"
        txt += ("Lemma today_property : forall nchunks len c, counter_run nchunks len c_now c = c + len.\n"
                "Proof. exact (counter_sound c_now today). Qed.\n")
        ok, _, err = chk.coq_run("today_counter_" + name, txt)
        chk.oblige(f"today: counter_ok (regenerated {name})", "today", ok, err)


def gen_cases(chk):
    rng = chk.rng
    N = 10 if chk.tier == "quick" else 24
    cases = []
    for n in range(0, N + 1):
        for k in range(1, n + 2):
            cases.append({"kind": "chunks", "n": n, "k": k})
        for p in range(1, 5):
            cases.append({"kind": "splitn", "n": n, "p": p})
    # malformed stream
    for n in (0, 3):
        cases.append({"kind": "chunks", "n": n, "k": 0, "malformed": True})
        cases.append({"kind": "chunks", "n": n, "k": -2, "malformed": True})
    for n in range(0, N + 1):
        fvals = [rng.randrange(0, 50) for _ in range(n)]
        ks = list(range(0, n + 2))
        if chk.tier == "quick" and n > 4:
            ks = sorted(set([0, 1, 2, n - 1, n, n + 1, rng.randrange(1, n + 1)]))
        for k in ks:
            for has_pool in (False, True):
                for p in ((1, 2, 3, 4) if has_pool else (1,)):
                    if chk.tier == "quick" and has_pool and p not in (1, 3) and n % 3:
                        continue
                    for vect, fkind in ((True, "vec"), (False, "scalar"), (False, "arr1"), (False, "vec")):
                        if k and not vect and k > 1:
                            continue  # chunksize is ignored for non-vectorised functions; keep k in {0,1}
                        cases.append({"kind": "bef", "n": n, "fvals": fvals, "fkind": fkind, "has_pool": has_pool,
                                      "vectorised": vect, "chunksize": k, "n_pool": p,
                                      "wrapper": rng.random() < 0.5, "noise": rng.choice([0, 0, 1, 2, 3])})
    # Model-level cases
    model_ns = [0, 1, 2, 5, 9] if chk.tier == "quick" else list(range(0, 25))
    for n in model_ns:
        fvals = [rng.randrange(0, 50) for _ in range(n)]
        for which in ("likelihood", "prior", "prior_uh", "single"):
            for pool in ("none", "fake"):
                for vm, fkind in (("auto", "vec"), ("auto", "scalar"), ("force_true", "vec"), ("force_false", "vec"),
                                  ("auto", "arr1"), ("auto", "approx"), ("auto", "vecinf"), ("auto", "scalarinf")):
                    for k in (0, 1, 3, n + 1):
                        for unit in ((False, True) if which != "single" else (False,)):
                            if chk.tier == "quick" and rng.random() < 0.5:
                                continue
                            if which == "prior_uh" and unit:
                                continue
                            cases.append({"kind": "model", "which": which, "n": n, "fvals": fvals, "fkind": fkind,
                                          "pkind": rng.choice(["vec", "scalar", "arr1", "approx"]) if vm == "auto" else fkind,
                                          "ukind": rng.choice(["vec", "scalar", "arr1", "approx"]) if vm == "auto" else fkind,
                                          "pool": pool, "n_pool": rng.choice([1, 2, 3, 4]), "chunksize": k,
                                          "vect_mode": vm, "unit": unit, "noise": rng.choice([0, 1, 2, 3, 4]),
                                          "reuse": rng.random() < 0.5,
                                          "parallelise_prior": rng.random() < 0.5})
    real = []
    for n in ([7] if chk.tier == "quick" else [0, 1, 7, 24]):
        fvals = [rng.randrange(0, 50) for _ in range(n)]
        for p in ((2,) if chk.tier == "quick" else (1, 2, 3, 4)):
            for k in (0, 3):
                for which in ("likelihood", "prior"):
                    real.append({"kind": "model", "which": which, "n": n, "fvals": fvals, "fkind": "vec",
                                 "pool": "real", "n_pool": p, "chunksize": k, "vect_mode": "auto", "unit": False,
                                 "noise": 1 + (k + p) % 3, "parallelise_prior": True})
    return cases, real


def as_nat_list(vals):
    out = []
    for v in vals:
        if v is None or v != v or v in (float("inf"), float("-inf")) or v != int(v) or v < 0:
            return None
        out.append(int(v))
    return out


def direct_predicate(c, r):
    """The property on the implementation alone; returns a description of the failure or None."""
    if c["kind"] in ("chunks", "splitn"):
        if c.get("malformed"):
            return None if r.get("error") == "ValueError" else f"chunksize {c['k']} not rejected: {r}"
        if "error" in r:
            return f"raised {r['error']}"
        if sum(r["lens"]) != c["n"]:
            return f"pieces {r['lens']} do not cover {c['n']} points"
        if c["kind"] == "chunks" and any(x > c["k"] for x in r["lens"]):
            return f"piece larger than chunksize {c['k']}: {r['lens']}"
        return None
    if "error" in r:
        return f"raised {r['error']}"
    same = lambda a, b: len(a) == len(b) and all((x == y) or (x != x and y != y) for x, y in zip(a, b))
    if not same(r["out"], r["ref"]):
        return f"batch result {r['out']} != pointwise {r['ref']}"
    if r.get("input_unchanged") is False:
        return "the batch interface modified the caller's array of points"
    if "out2" in r and not same(r["out2"], r["ref2"]):
        return f"batch result on the re-used buffer {r['out2']} != pointwise {r['ref2']} (the buffer was refilled in place)"
    if c["kind"] == "model" and c["which"] in ("likelihood", "single") and r["delta"] != c["n"]:
        return f"likelihood_evaluations grew by {r['delta']} for a batch of {c['n']}"
    if c["kind"] == "model" and c["which"] in ("prior", "prior_uh") and r["delta"] != 0:
        return f"likelihood_evaluations grew by {r['delta']} during a prior evaluation"
    if c.get("pool") == "real":
        return None  # calls happen in the worker processes and are not observable here
    if sum(r.get("calls") or []) != c["n"] and not (c["kind"] == "model" and c["which"] in ("prior", "prior_uh")):
        return f"function saw {sum(r['calls'])} points for a batch of {c['n']} (calls {r['calls']})"
    k = c.get("chunksize") or 0
    vect = c.get("vectorised", r.get("vectorised"))
    if k and vect and any(s > k for s in r.get("calls") or []):
        return f"call with more than chunksize={k} points: {r['calls']}"
    return None


def run_impl(chk, cases, timeout=600):
    rc, out, err = chk.child("c10_child.py", timeout=timeout, inp=json.dumps(cases))
    if rc != 0:
        chk.oblige("implementation child ran", "harness", False, err[-1500:])
        return None
    return json.loads(out)


def run(chk):
    chk.rule = ("grid over batch size n, chunk size k in 0..n+1, pool size 1..4, 6 branches of batch_evaluate_function, "
                "vectorised/scalar/array-returning functions, Model.batch_evaluate_* with fake and real fork pools; "
                "non-trivial = the implementation made >= 2 function calls or handed >= 2 pieces to the pool; "
                "distinct by full case description")
    chk.assumptions += [
        "oracle: pool.map is order preserving (validated on fake pools exhaustively and on real fork pools for a subset)",
        "oracle: the vectorised form of the user's function agrees with the pointwise form (what check_vectorised_function tests)",
        "numpy.array_split semantics as modelled in Model/C10_Batch.v (validated exhaustively on the grid each run)",
    ]
    chk.static_props(["C10"], ["C10_run"])
    tree, counters, calls = translate(chk)
    today(chk, tree, counters, calls)
    tree_term = "sk_now" if tree is not None else HAND_TREE
    cases, real = gen_cases(chk)
    res = run_impl(chk, cases)
    res_real = run_impl(chk, real, timeout=900) if res is not None else None
    if res is None or res_real is None:
        return
    allc = list(zip(cases, res)) + list(zip(real, res_real))
    chk.evaluations = len(allc)
    # ---- direct predicate on every case (also the search for a failing input) ------
    for c, r in allc:
        why = direct_predicate(c, r)
        chk.count("kind:" + c["kind"] + (":" + c.get("pool", "") if c["kind"] == "model" else ""))
        if r.get("calls") and len(r["calls"]) >= 2 or (r.get("lens") and len(r["lens"]) >= 2):
            chk.nontriv(c)
        if c["kind"] != "chunks" and c["kind"] != "splitn":
            if "error" not in r:
                chk.oracle_validations += 1 if c.get("pool") == "real" else 0
        if why:
            chk.fail(f"C10:{c['kind']}:{why.split(':')[0][:40]}", why, {"case": c, "observed": r})
    # ---- correspondence inside Coq ---------------------------------------------------
    pieces, outs, calls, skipped = [], [], [], 0
    for c, r in allc:
        if "error" in r or c.get("malformed"):
            skipped += 1
            continue
        if c["kind"] == "chunks":
            pieces.append(cT("SChunks", f"mk false true {cN(c['k'])} 1", cN(c["n"]), cL(map(cN, r["lens"]))))
        elif c["kind"] == "splitn":
            pieces.append(cT("SSplitN", f"mk true true 0 {cN(c['p'])}", cN(c["n"]), cL(map(cN, r["lens"]))))
        elif c["kind"] == "bef":
            o = as_nat_list(r["out"])
            if o is None:
                continue
            i = f"mk {cB(c['has_pool'])} {cB(c['vectorised'])} {cN(c['chunksize'])} {cN(c['n_pool'])}"
            outs.append(cT(i, cL(map(cN, c["fvals"])), cL(map(cN, o))))
            calls.append(cT(i, cN(c["n"]), cL(map(cN, r["calls"]))))
        elif c["kind"] == "model" and c["which"] == "likelihood":
            o = as_nat_list(r["out"])
            if o is None:
                continue
            i = f"mk {cB(c['pool'] != 'none')} {cB(r['vectorised'])} {cN(c['chunksize'])} {cN(c['n_pool'])}"
            outs.append(cT(i, cL(map(cN, c["fvals"])), cL(map(cN, o))))
            if c["pool"] != "real":
                calls.append(cT(i, cN(c["n"]), cL(map(cN, r["calls"]))))
    hdr = common.COQ_HEADER + "From NessaiV Require Import Model.C10_Batch Run.C10_run.\n"
    if tree is not None:
        hdr += f"Definition sk_now : dtree := {tree}.\n"
    txt = hdr
    txt += f"Definition pieces : list (splitter * binputs * nat * list nat) := {cL(pieces)}.\nEval vm_compute in (mism chk_pieces pieces).\n"
    txt += f"Definition outs : list (binputs * list nat * list nat) := {cL(outs)}.\nEval vm_compute in (mism (chk_out {tree_term}) outs).\n"
    txt += f"Definition callsz : list (binputs * nat * list nat) := {cL(calls)}.\nEval vm_compute in (mism (chk_calls {tree_term}) callsz).\n"
    ok, evals, err = chk.coq_run("cases", txt)
    if not ok or len(evals) != 3:
        chk.oblige("correspondence batch evaluated in Coq", "correspondence", False, err)
        return
    names = ["piece lengths of array_split_chunksize / np.array_split = model chunks / split_n",
             "results of batch_evaluate_function and Model.batch_evaluate_log_likelihood = model eval_tree",
             "sizes of the calls the user's function received = model call_sizes"]
    for nm, ev, lst in zip(names, evals, (pieces, outs, calls)):
        bad = common.parse_nat_list(ev)
        if lst is calls:
            # how the batch is cut is not part of the property (only that results agree and no call
            # exceeds the chunk size, both checked above); recorded, not an obligation
            chk.notes.append(f"call-size agreement with the model: {len(lst) - len(bad)}/{len(lst)}")
            continue
        chk.oblige(f"correspondence: {nm} ({len(lst)} cases)", "correspondence", not bad,
                   "mismatching case literals: " + "; ".join(lst[i] for i in bad[:5]))
    chk.traces = len(pieces) + len(outs) + len(calls)
    chk.count("skipped_error_or_malformed", skipped)
    for c, r in allc[:: max(1, len(allc) // 5)]:
        chk.sample({"case": {k: v for k, v in c.items()}, "observed": r})


def replay(data):
    import subprocess, os
    c = data["replay"]["case"]
    r = subprocess.run([common.PY, os.path.join(common.VERIF, "harness", "c10_child.py")], input=json.dumps([c]),
                       capture_output=True, text=True, env=common.child_env())
    res = json.loads(r.stdout)[0]
    why = direct_predicate(c, res)
    print(json.dumps({"case": c, "observed": res, "failure": why}, indent=1))
    if why:
        print(f"VIOLATION property={PID} replay=(replayed) {why}")
        return 1
    return 0
