"""C01 child: drives the REAL nessai NestedSampler methods (populate_live_points, yield_sample,
insert_live_point, consume_sample, finalise) with a scripted proposal that replays a generated
stream of points (real structured arrays, real searchsorted / slice assignment), or traces a short
real run.  Reads a JSON list of cases on stdin, prints a JSON list of observations."""
import json
import logging
import os
import pickle
import sys
import tempfile

import numpy as np

from nessai.livepoint import empty_structured_array
from nessai.model import Model
from nessai.proposal.base import Proposal
from nessai.samplers.nestedsampler import NestedSampler


class StreamExhausted(Exception):
    pass


class TableModel(Model):
    """log_likelihood(x) is a table lookup by point id (x["x"]); used by the logL == 0.0 branch."""

    def __init__(self, table):
        self.names = ["x", "y"]
        self.bounds = {"x": [-1.0, 1.0e9], "y": [0.0, 1.0]}
        self.table = table

    def new_point(self, N=1):
        a = empty_structured_array(N, names=self.names)
        a["x"] = np.random.uniform(0.0, 1.0, N)
        a["y"] = np.random.uniform(0.0, 1.0, N)
        return a

    def new_point_log_prob(self, x):
        return np.zeros(np.size(x))

    def log_prior(self, x):
        return np.zeros(np.size(x)) if np.ndim(x) else np.float64(0.0)

    def log_likelihood(self, x):
        xs = np.atleast_1d(x["x"])
        out = np.array([self.table.get(int(v), -1.0) if float(v).is_integer() else -1.0 for v in xs])
        return out if np.ndim(x) else np.float64(out[0])


LOGP = {"fin": -0.5, "-inf": -np.inf, "inf": np.inf, "nan": np.nan}


class ScriptedProposal(Proposal):
    """Replays a fixed list of points; proposal.populated after each draw is scripted too."""

    def __init__(self, model, script=None):
        super().__init__(model)
        script = script or []
        self.samples = empty_structured_array(len(script), names=model.names)
        for i, d in enumerate(script):
            self.samples[i]["x"] = float(d["id"])
            self.samples[i]["y"] = 0.5 if d.get("inb", True) else 2.0
            self.samples[i]["logP"] = LOGP[d["logP"]]
            self.samples[i]["logL"] = d["logL"]
            self.samples[i]["it"] = -7
        self.pops = [bool(d["pop"]) for d in script]
        self.pos = 0
        self.populated = True
        self.populating = False
        self.log = []

    def draw(self, old_sample):
        if self.pos >= len(self.pops):
            raise StreamExhausted()
        i = self.pos
        self.pos += 1
        self.populated = self.pops[i]
        return self.samples[i]  # a view into the pool array, as the real proposals return


def rec(p):
    return [float(p["x"]), float(p["logL"]), float(p["logP"]), int(p["it"]), float(p["y"])]


def snapshot(ns, model, ev0):
    st = ns.state
    return {
        "live": [rec(p) for p in ns.live_points] if ns.live_points is not None else None,
        "dead_ids": [float(p["x"]) for p in ns.nested_samples],
        "dead_logL": [float(p["logL"]) for p in ns.nested_samples],
        "idxs": [int(i) for i in ns.insertion_indices],
        "iteration": int(ns.iteration),
        "logLmin": float(ns.logLmin),
        "n_logLs": len(st.logLs),
        "logLs": [float(v) for v in st.logLs],
        "nls": [int(v) for v in st.nlive],
        "rejected": int(ns.rejected),
        "evals": int(model.likelihood_evaluations - ev0),
    }


def make_sampler(model, n, script, outdir):
    ns = NestedSampler(
        model, nlive=n, output=outdir, plot=False, checkpointing=False, seed=1,
        uninformed_proposal=ScriptedProposal, uninformed_proposal_kwargs={"script": script},
        maximum_uninformed=1e12, uninformed_acceptance_threshold=-1.0, log_on_iteration=True,
    )
    ns.proposal = ns._uninformed_proposal
    ns.proposal.initialise()
    ns.initialise_history()
    # update_state (history, plots, periodic checkpoint) is outside the modelled code and divides by
    # nlive // 10, which is 0 for the tiny live sets used here
    ns.update_state = lambda force=False: None
    return ns


def wrap_yield(ns, ylog):
    """Record what every yield_sample generator hands back (mechanism named in the property)."""
    orig = type(ns).yield_sample

    def yield_sample(oldparam):
        for counter, p in orig(ns, oldparam):
            ylog.append({"counter": int(counter), "p": None if p is None else rec(p),
                         "populated": bool(ns.proposal.populated), "logLmin": float(ns.logLmin),
                         "old": p is oldparam or (p is not None and oldparam is not None
                                                  and float(p["x"]) == float(oldparam["x"]))})
            yield counter, p

    ns.yield_sample = yield_sample


def run_scripted(c, outdir):
    table = {int(d["id"]): float(d["ek"]) for d in c["stream"]}
    model = TableModel(table)
    ns = make_sampler(model, c["n"], c["stream"], outdir)
    ev0 = model.likelihood_evaluations
    ylog = []
    wrap_yield(ns, ylog)
    out = {"steps": [], "init": None, "final": None, "error": None, "error_at": None}
    try:
        ns.populate_live_points()
    except StreamExhausted:
        out["error"], out["error_at"] = "exhausted", "init"
        return out
    except Exception as e:  # noqa
        out["error"], out["error_at"] = type(e).__name__ + ": " + str(e)[:200], "init"
        return out
    out["init"] = snapshot(ns, model, ev0)
    out["init"]["pos"] = ns.proposal.pos
    resume_at = set(c.get("resume_at") or [])
    for k in range(c["iters"]):
        if k in resume_at:
            # checkpoint -> resume through the real pickling path (C01 "including resumed runs")
            ns.__dict__.pop("yield_sample", None)
            ns.__dict__.pop("update_state", None)
            blob = pickle.dumps(ns)
            calls_before = model.likelihood_evaluations
            ns2 = NestedSampler.resume_from_pickled_sampler(pickle.loads(blob), model)
            ns2.proposal = ns2._uninformed_proposal
            ns2.update_state = lambda force=False: None
            # resume adds the pickled evaluation count to the (here: same) model object again
            ev0 += model.likelihood_evaluations - calls_before
            ns = ns2
            wrap_yield(ns, ylog)
        before = [rec(p) for p in ns.live_points]
        y0 = len(ylog)
        try:
            ns.consume_sample()
        except StreamExhausted:
            out["error"], out["error_at"] = "exhausted", k
            return out
        except Exception as e:  # noqa
            out["error"], out["error_at"] = type(e).__name__ + ": " + str(e)[:200], k
            out["before"] = before
            return out
        s = snapshot(ns, model, ev0)
        s["before"] = before
        s["yields"] = ylog[y0:]
        out["steps"].append(s)
    if c.get("finalise"):
        live_before = [rec(p) for p in ns.live_points]
        try:
            ns.finalise()
        except Exception as e:  # noqa
            out["error"], out["error_at"] = type(e).__name__ + ": " + str(e)[:200], "finalise"
            return out
        out["final"] = snapshot(ns, model, ev0)
        out["final"]["live_before"] = live_before
    return out


# ---------------------------------------------------------------------------------------------
# short real runs, traced (trace refinement): every proposal draw and every consume_sample
# ---------------------------------------------------------------------------------------------
class Gauss(Model):
    def __init__(self, dims=2, variant=None):
        self.names = [f"x{i}" for i in range(dims)]
        self.bounds = {n: [-5.0, 5.0] for n in self.names}
        self.variant = variant
        if variant == "asym":
            # different, disjoint ranges per parameter: values swapped between columns leave the bounds
            self.bounds = {n: [10.0 * i, 10.0 * i + 1.0 + i] for i, n in enumerate(self.names)}
        if variant == "flat-corner":
            self.bounds = {n: [-1.0, 1.0] for n in self.names}
        if variant == "nan-wide":
            # prior 1.5 sqrt(x0) on the unit box, written log(in_bounds) + ...: NaN (-inf + nan) for x0 < 0;
            # new_point draws from a WIDER box with the matching density, so the rejection step must do the work
            self.bounds = {n: [0.0, 1.0] for n in self.names}

    def log_prior(self, x):
        if self.variant == "nan-wide":
            with np.errstate(divide="ignore", invalid="ignore"):
                return np.log(self.in_bounds(x), dtype="float") + np.log(1.5) + 0.5 * np.log(x[self.names[0]])
        if self.variant == "flat-corner":
            # the constant density of the uniform prior, NOT -inf outside the bounds (verify_model accepts it)
            lp = np.zeros(x.size)
        else:
            lp = np.log(self.in_bounds(x), dtype="float")
        for n in self.names:
            lp -= np.log(self.bounds[n][1] - self.bounds[n][0])
        return lp

    def log_likelihood(self, x):
        ll = np.zeros(x.size)
        for n in self.names:
            if self.variant == "asym":
                c = 0.5 * (self.bounds[n][0] + self.bounds[n][1])
                ll += -0.5 * ((x[n] - c) / 0.2) ** 2
            elif self.variant == "flat-corner":
                ll += -0.5 * ((x[n] - 1.0) / 0.3) ** 2          # posterior mass at the corner (1, 1)
            elif self.variant == "nan-wide":
                ll += -0.5 * ((x[n] - (0.05 if n == self.names[0] else 0.5)) / 0.2) ** 2
            else:
                ll += -0.5 * x[n] ** 2 - 0.5 * np.log(2 * np.pi)
        return ll

    def new_point(self, N=1):
        a = empty_structured_array(N, names=self.names)
        for n in self.names:
            if self.variant == "nan-wide":
                a[n] = np.random.uniform(-0.5, 1.5, N)
            else:
                a[n] = np.random.uniform(self.bounds[n][0], self.bounds[n][1], N)
        return a

    def new_point_log_prob(self, x):
        if self.variant == "nan-wide":
            return np.full(x.size, -len(self.names) * np.log(2.0))
        return self.log_prior(x)


def run_real(c, outdir):
    import torch

    torch.set_num_threads(1)
    model = Gauss(c.get("dims", 2), c.get("variant"))
    ids = {}

    def pid(p):
        k = tuple(float(p[n]) for n in model.names)
        if k not in ids:
            ids[k] = len(ids)
        return ids[k]

    kwargs = dict(nlive=c["nlive"], output=outdir, plot=False, checkpointing=False, seed=c["seed"],
                  checkpoint_callback=lambda sampler: None,  # the wrapped proposals are not picklable
                  stopping=c.get("stopping", 0.5), max_iteration=c.get("max_iteration"))
    if c["proposal"] == "analytic":
        kwargs.update(analytic_priors=True, maximum_uninformed=1e12, uninformed_acceptance_threshold=-1.0)
    elif c["proposal"] == "rejection":
        kwargs.update(maximum_uninformed=1e12, uninformed_acceptance_threshold=-1.0)
    else:  # flow
        kwargs.update(maximum_uninformed=c.get("maximum_uninformed", c["nlive"]),
                      flow_config=dict(n_blocks=2, n_neurons=4, max_epochs=c.get("max_epochs", 20), patience=5),
                      poolsize=c.get("poolsize", c["nlive"]), analytic_priors=True)
        if c.get("reparameterisations"):
            kwargs["reparameterisations"] = c["reparameterisations"]
    ns = NestedSampler(model, **kwargs)
    stream = []  # one entry per proposal.draw
    events = []

    def wrap_draw(prop):
        orig = prop.draw

        def draw(old, **kw):
            p = orig(old, **kw)
            stream.append({"id": pid(p), "logL": float(p["logL"]), "okP": bool(p["logP"] != -np.inf),
                           "finP": bool(np.isfinite(p["logP"])), "inb": bool(model.in_bounds(p)),
                           "pop": bool(prop.populated), "ek": None})
            return p

        prop.draw = draw

    wrap_draw(ns._uninformed_proposal)
    wrap_draw(ns._flow_proposal)
    orig_eval = model.evaluate_log_likelihood

    def evaluate_log_likelihood(x):
        v = orig_eval(x)
        if stream:
            stream[-1]["ek"] = float(np.atleast_1d(v)[0])
        return v

    model.evaluate_log_likelihood = evaluate_log_likelihood
    orig_consume = ns.consume_sample
    orig_pop = ns.populate_live_points

    def populate_live_points():
        orig_pop()
        events.append({"kind": "init", "pos": len(stream), "live": [[pid(p), float(p["logL"]), int(p["it"])] for p in ns.live_points]})

    def consume_sample():
        before = [pid(p) for p in ns.live_points]
        orig_consume()
        i = ns.insertion_indices[-1]
        ev = {"kind": "step", "pos": len(stream), "removed": pid(ns.nested_samples[-1]), "idx": int(i),
              "new": pid(ns.live_points[i]), "new_logL": float(ns.live_points[i]["logL"]),
              "new_finP": bool(np.isfinite(ns.live_points[i]["logP"])),
              "new_inb": bool(model.in_bounds(ns.live_points[i])),
              # the stored log-likelihood of the replacement is the model's value at the stored parameters
              "new_logL_ok": bool(np.isclose(float(model.log_likelihood(ns.live_points[i:i + 1])[0]),
                                             float(ns.live_points[i]["logL"]), rtol=1e-9, atol=1e-9)),
              "live_inb": bool(np.all(model.in_bounds(ns.live_points))),
              "worst_logL": float(ns.nested_samples[-1]["logL"])}
        full = (ns.iteration % c.get("full_every", 25) == 0) or ns.iteration <= 3
        if full:
            ev["live"] = [[pid(p), float(p["logL"]), int(p["it"])] for p in ns.live_points]
        # direct predicate pieces evaluated on the real arrays at every iteration
        ll = ns.live_points["logL"]
        ev["sorted"] = bool(np.all(ll[:-1] <= ll[1:]))
        ev["size"] = int(ns.live_points.size)
        after = [pid(p) for p in ns.live_points]
        ev["others_kept"] = bool(after[:i] + after[i + 1:] == before[1:])
        ev["worst_was_min"] = bool(before[0] == ev["removed"])
        ev["rank"] = int(np.sum(np.delete(ll, i) < ll[i]))
        ev["it_ok"] = bool(int(ns.live_points[i]["it"]) == ns.iteration)
        events.append(ev)

    ns.populate_live_points = populate_live_points
    ns.consume_sample = consume_sample
    ns.initialise()
    ns.nested_sampling_loop()
    fin = {"dead": [pid(p) for p in ns.nested_samples], "dead_logL": [float(p["logL"]) for p in ns.nested_samples],
           "idxs": [int(i) for i in ns.insertion_indices], "iteration": int(ns.iteration),
           "logLs": [float(v) for v in ns.state.logLs], "nls": [int(v) for v in ns.state.nlive],
           "finalised": bool(ns.finalised), "nlive": int(ns.nlive)}
    return {"stream": stream, "events": events, "final": fin, "error": None}


def run_resumed(c, outdir):
    """A real run through FlowSampler that dies right after the checkpoint of the iterations in c['resume_after'] and is
    resumed with FlowSampler(resume=True); the per-iteration clauses are evaluated by a CLASS-level wrapper of
    consume_sample (instance wrappers would not survive the pickle), so there is no proposal stream and no model replay."""
    import torch
    from nessai.flowsampler import FlowSampler

    torch.set_num_threads(1)
    ids = {}
    events = []

    def pid(model, p):
        k = tuple(float(p[n]) for n in model.names)
        if k not in ids:
            ids[k] = len(ids)
        return ids[k]

    real_consume = NestedSampler.consume_sample
    real_ckpt = NestedSampler.checkpoint
    state = {"stop": None, "session": 0}

    class StopHere(BaseException):
        pass

    def consume_sample(ns):
        model = ns.model
        before = [pid(model, p) for p in ns.live_points]
        real_consume(ns)
        i = ns.insertion_indices[-1]
        ll = ns.live_points["logL"]
        after = [pid(model, p) for p in ns.live_points]
        events.append({
            "kind": "step", "pos": int(ns.iteration), "session": state["session"], "idx": int(i), "nlive_attr": int(ns.nlive),
            "removed": pid(model, ns.nested_samples[-1]), "new": pid(model, ns.live_points[i]),
            "new_logL": float(ll[i]), "new_finP": bool(np.isfinite(ns.live_points[i]["logP"])),
            "new_inb": bool(model.in_bounds(ns.live_points[i])),
            "new_logL_ok": bool(np.isclose(float(model.log_likelihood(ns.live_points[i:i + 1])[0]), float(ll[i]),
                                           rtol=1e-9, atol=1e-9)),
            "live_inb": bool(np.all(model.in_bounds(ns.live_points))), "worst_logL": float(ns.nested_samples[-1]["logL"]),
            "sorted": bool(np.all(ll[:-1] <= ll[1:])), "size": int(ns.live_points.size),
            "others_kept": bool(after[:i] + after[i + 1:] == before[1:]), "worst_was_min": bool(before[0] == pid(model, ns.nested_samples[-1])),
            "rank": int(np.sum(np.delete(ll, i) < ll[i])), "it_ok": bool(int(ns.live_points[i]["it"]) == ns.iteration)})

    ckpt = {"n": 0, "bad": [], "mtime": None}

    def inspect_checkpoint(path):
        """The invariant on the PICKLED state (C01_resume: it reads only pickled fields): what a resume would start from."""
        import pickle
        with open(path, "rb") as fh:
            o = pickle.load(fh)
        lp, dead = o.live_points, o.nested_samples
        if lp is None:
            return None
        names = [n for n in lp.dtype.names if n not in ("logP", "logL", "it")]
        key = lambda p: tuple(float(p[n]) for n in names)
        live = [key(p) for p in lp]
        deadk = [key(p) for p in dead]
        ll = lp["logL"]
        probs = []
        if len(live) != o.nlive:
            probs.append(f"{len(live)} live points for nlive={o.nlive}")
        if not bool(np.all(ll[:-1] <= ll[1:])):
            probs.append("live points not sorted")
        if len(set(live)) != len(live):
            probs.append("a point is twice in the live set")
        if set(live) & set(deadk):
            probs.append("a point is both live and already recorded")
        if len(set(deadk)) != len(deadk):
            probs.append("a point is recorded twice")
        if not (len(dead) == o.iteration == len(o.insertion_indices) == len(o.state.logLs) - 1):
            probs.append(f"counts: {len(dead)} recorded, iteration {o.iteration}, {len(o.insertion_indices)} indices, "
                         f"{len(o.state.logLs) - 1} evidence increments")
        return probs

    def checkpoint(ns, *a, **k):
        r = real_ckpt(ns, *a, **k)
        if os.path.exists(ns.resume_file) and not ns.finalised:
            mt = os.stat(ns.resume_file).st_mtime_ns
            if mt != ckpt["mtime"]:
                ckpt["mtime"] = mt
                ckpt["n"] += 1
                try:
                    probs = inspect_checkpoint(ns.resume_file)
                except Exception as e:  # noqa: BLE001
                    probs = [f"checkpoint could not be read: {type(e).__name__}: {e}"]
                if probs and len(ckpt["bad"]) < 5:
                    ckpt["bad"].append({"iteration": int(ns.iteration), "problems": probs})
        if state["stop"] is not None and ns.iteration >= state["stop"] and not ns.finalised and os.path.exists(ns.resume_file):
            raise StopHere()
        return r

    NestedSampler.consume_sample = consume_sample
    NestedSampler.checkpoint = checkpoint
    resumed_at = []
    try:
        kw = dict(nlive=c["nlive"], output=outdir, plot=False, seed=c["seed"], signal_handling=False,
                  checkpointing=True, checkpoint_on_iteration=True, checkpoint_interval=c.get("checkpoint_interval", 5),
                  stopping=c.get("stopping", 0.5), max_iteration=c.get("max_iteration"))
        if c["proposal"] == "rejection":
            kw.update(maximum_uninformed=1e12, uninformed_acceptance_threshold=-1.0)
        else:
            kw.update(maximum_uninformed=c.get("maximum_uninformed", c["nlive"]),
                      flow_config=dict(n_blocks=2, n_neurons=4), training_config=dict(max_epochs=c.get("max_epochs", 10), patience=5),
                      poolsize=c.get("poolsize", c["nlive"]))
            if c.get("reparameterisations"):
                kw["reparameterisations"] = c["reparameterisations"]
        first = True
        for stop in list(c["resume_after"]) + [None]:
            state["stop"] = stop
            model = Gauss(c.get("dims", 2), c.get("variant"))
            if not first and c.get("resume_changes_settings", True):
                # a user re-running the script with edited settings: the checkpointed run decides, not the new arguments
                kw2 = dict(kw, nlive=c["nlive"] + 13, stopping=c.get("stopping", 0.5))
            else:
                kw2 = kw
            fs = FlowSampler(model, resume=not first, **kw2)
            if not first:
                resumed_at.append(int(fs.ns.iteration))
                state["session"] += 1
            first = False
            try:
                fs.run(plot=False, save=False)
            except StopHere:
                continue
        ns = fs.ns
        fin = {"dead": [pid(ns.model, p) for p in ns.nested_samples], "dead_logL": [float(p["logL"]) for p in ns.nested_samples],
               "idxs": [int(i) for i in ns.insertion_indices], "iteration": int(ns.iteration),
               "logLs": [float(v) for v in ns.state.logLs], "nls": [int(v) for v in ns.state.nlive],
               "finalised": bool(ns.finalised), "nlive": int(ns.nlive)}
    finally:
        NestedSampler.consume_sample = real_consume
        NestedSampler.checkpoint = real_ckpt
    return {"stream": [], "events": events, "final": fin, "error": None, "no_model": True, "resumed_at": resumed_at,
            "checkpoints": ckpt["n"], "bad_checkpoints": ckpt["bad"]}


def main():
    logging.disable(logging.CRITICAL)
    import warnings

    warnings.filterwarnings("ignore")
    cases = json.load(sys.stdin)
    outs = []
    with tempfile.TemporaryDirectory(dir=os.getcwd()) as d:
        for j, c in enumerate(cases):
            od = os.path.join(d, f"c{j}")
            if c["kind"] == "scripted":
                outs.append(run_scripted(c, od))
            else:
                try:
                    outs.append(run_resumed(c, od) if c["kind"] == "resumed" else run_real(c, od))
                except Exception as e:  # noqa
                    import traceback
                    outs.append({"error": type(e).__name__ + ": " + str(e)[:300], "tb": traceback.format_exc()[-1500:]})
    json.dump(outs, sys.stdout)


if __name__ == "__main__":
    main()
