"""C04: INS sample store stays sorted, partitioned and aligned under all updates."""
import itertools
import json
import math
import os
import subprocess
from concurrent.futures import ThreadPoolExecutor

import common
from common import cB, cL, cN, cOpt, cT, cZ, float_key

PID = "C04"
INF = float("inf")


# ---------------------------------------------------------------------------
def lit_batch(pairs):
    return cL(f"mkrow {cZ(float_key(k))} {cN(i)}" for k, i in pairs)


def lit_op(o):
    if o[0] == "init":
        return f"OInit {lit_batch(o[1])}"
    if o[0] == "add":
        return f"OAdd {lit_batch(o[1])}"
    if o[0] == "thr":
        return f"OThr {cZ(float_key(o[1]))}"
    return {"remove": "ORemove", "finalise": "OFinalise"}[o[0]]


def lit_snap(s):
    if "error" in s:
        return "None"
    live = cOpt(None if s["live"] is None else cL(map(cN, s["live"])))
    return "(Some " + cT(cL(cZ(float_key(k)) for k in s["keys"]), cL(map(cN, s["ids"])), cL(map(cN, s["lq"])),
                         live, cL(map(cN, s["dead"])), cN(s["ret"])) + ")"


def lit_case(c, tr):
    return cT(cB(c["strict"]), cB(c["repl"]), cL(map(lit_op, c["ops"])), cL(map(lit_snap, tr)))


# ---------------------------------------------------------------------------
def direct_predicate(c, tr):
    """The property on the implementation alone. Returns (key, description) of the first failure or None."""
    added = []  # (id, key) ever added
    thr = None
    prev = None
    for o, s in zip(c["ops"], tr):
        if "error" in s:
            # a call may raise only when it is a misuse of the API (stated here without the model)
            misuse = (
                (o[0] == "add" and (prev is None or (c["strict"] and thr is None) or (not c["strict"] and not o[1])))
                or (o[0] == "remove" and (prev is None or prev["live"] is None or (not c["repl"] and thr is None)))
                or (o[0] == "finalise" and (prev is None or prev["live"] is None))
            )
            if misuse:
                return None
            return "raised", f"valid call {o[0]} raised {s['error']}"
        if o[0] in ("init", "add"):
            if o[0] == "init":
                added = []
            added += [(i, k) for k, i in o[1]]
        if o[0] == "thr":
            thr = o[1]
        n = len(s["keys"])
        keys, ids, live, dead = s["keys"], s["ids"], s["live"], s["dead"]
        if any(keys[i] > keys[i + 1] for i in range(n - 1)):
            return "sorted", f"store not sorted after {o[0]}: {keys}"
        lv = live or []
        if any(a >= b for a, b in zip(lv, lv[1:])) or any(a >= b for a, b in zip(dead, dead[1:])):
            return "increasing", f"index sets not strictly increasing after {o[0]}: live {live} dead {dead}"
        if o[0] != "init" or prev is None:
            if sorted(lv + dead) != list(range(n)):
                return "partition", f"live {live} and dead {dead} do not partition {n} samples after {o[0]}"
        if sorted(zip(ids, keys)) != sorted(added):
            return "lost", f"stored samples {sorted(zip(ids, keys))} != added {sorted(added)} after {o[0]}"
        if s.get("lp_ids") is not None and live is not None and s["lp_ids"] != [ids[i] for i in live]:
            return "live-view", f"live_points returns samples {s['lp_ids']} but the live indices select {[ids[i] for i in live]} after {o[0]}"
        if s["lq"] != ids:
            return "detached", f"log_q rows {s['lq']} not attached to samples {ids} after {o[0]}"
        if o[0] == "add" and c["strict"] and thr is not None:
            want = [i for i in range(n) if keys[i] >= thr]
            if lv != want:
                return "strict-live", f"strict threshold {thr}: live {live} != samples at or above it {want}"
        if o[0] == "remove" and prev is not None:
            plive = prev["live"] or []
            if c["repl"]:
                want = len(plive)
            else:
                want = sum(1 for i in plive if prev["keys"][i] < thr)
                if any(keys[i] < thr for i in lv):
                    return "remove-left-below", f"live samples below threshold {thr} remain after remove_samples"
            if s["ret"] != want:
                return "removed-count", (f"remove_samples returned {s['ret']} but {want} live samples were "
                                         f"{'present' if c['repl'] else 'strictly below the threshold ' + str(thr)}")
            if len(lv) != len(plive) - want:
                return "removed-count", f"{len(plive) - len(lv)} samples left the live set, expected {want}"
        if o[0] == "add" and prev is not None and not c["strict"]:
            # statuses: previously dead samples stay dead, new samples are live
            pdead = {prev["ids"][i] for i in prev["dead"]}
            ndead = {ids[i] for i in dead}
            if pdead != ndead:
                return "status", f"discarded samples changed from ids {sorted(pdead)} to {sorted(ndead)} in add_samples"
        prev = s
    return None


# ---------------------------------------------------------------------------
def gen_random(rng, depth, maxb, nid):
    alph_all = [-INF, -2.5, -0.0, 0.0, 1.5, 3.25, 1e300, INF]
    k = rng.choice([2, 3, 4, 6])
    alph = sorted(rng.sample(alph_all, k))
    wide = rng.random() < 0.25

    def val():
        if wide:
            return rng.choice([rng.uniform(-10, 10), rng.gauss(0, 1e5), rng.choice(alph)])
        return rng.choice(alph)

    ids = itertools.count(nid)

    def mkbatch(nmin, nmax):
        # identities are handed out in a random order inside the batch: with tied likelihoods the order in which
        # np.argsort(order="logL") leaves the samples is then NOT the input order
        b = [[val(), next(ids)] for _ in range(rng.randint(nmin, nmax))]
        idl = [i for _, i in b]
        rng.shuffle(idl)
        return [[k, i] for (k, _), i in zip(b, idl)]

    ops = [["init", mkbatch(0 if rng.random() < 0.1 else 1, maxb)]]
    for _ in range(depth):
        r = rng.random()
        if r < 0.45:
            ops.append(["add", mkbatch(0 if rng.random() < 0.05 else 1, maxb)])
        elif r < 0.70:
            t = val()
            if rng.random() < 0.3:
                t = t + rng.choice([-1.0, 1.0, 0.5]) if math.isfinite(t) else t
            ops.append(["thr", t])
        elif r < 0.95:
            ops.append(["remove"])
        else:
            ops.append(["finalise"])
    return {"strict": rng.random() < 0.5, "repl": rng.random() < 0.4, "ops": ops}


def gen_sampler_like(rng, levels, nlive):
    """What the importance sampler does: threshold = likelihood of a live sample, remove, add a level."""
    ids = itertools.count(0)
    alph = [rng.choice([-3.0, -1.0, 0.0, 0.5, 2.0, 2.0, 7.0]) for _ in range(5)]

    def mk(n):
        b = [[rng.choice(alph) if rng.random() < 0.7 else rng.uniform(-5, 10), next(ids)] for _ in range(n)]
        idl = [i for _, i in b]
        rng.shuffle(idl)
        return [[k, i] for (k, _), i in zip(b, idl)]

    ops = [["init", mk(nlive)]]
    live_keys = sorted(k for k, _ in ops[0][1])
    strict = rng.random() < 0.5
    repl = rng.random() < 0.3
    for _ in range(levels):
        if not live_keys:
            break
        t = live_keys[rng.randrange(len(live_keys))]
        ops.append(["thr", t])
        ops.append(["remove"])
        new = mk(rng.randint(1, nlive))
        ops.append(["add", new])
        live_keys = [] if repl else [k for k in live_keys if k >= t]
        live_keys = sorted(live_keys + [k for k, _ in new if (k >= t or not strict)])
    ops.append(["finalise"])
    return {"strict": strict, "repl": repl, "ops": ops}


def gen_exhaustive(depth, rng=None, sample=None):
    alph = [-1.0, 0.0, 2.0]
    batches = [[a] for a in alph] + [list(p) for p in itertools.combinations_with_replacement(alph, 2)]
    thrs = alph + [5.0]
    opset = [("add", b) for b in batches] + [("thr", t) for t in thrs] + [("remove",), ("finalise",)]
    inits = [[0.0], [-1.0, 2.0], [0.0, 0.0, 2.0], []]
    seqs = itertools.product(opset, repeat=depth)
    for seq in seqs:
        if sample is not None and rng.random() > sample:
            continue
        for ini in inits:
            for strict in (False, True):
                for repl in (False, True):
                    ids = itertools.count(0)

                    def lab(keys):
                        # descending identities inside a batch (ties then sort against the input order)
                        il = [next(ids) for _ in keys]
                        return [[k, i] for k, i in zip(keys, reversed(il))]

                    ops = [["init", lab(ini)]]
                    for o in seq:
                        if o[0] == "add":
                            ops.append(["add", lab(o[1])])
                        elif o[0] == "thr":
                            ops.append(["thr", o[1]])
                        else:
                            ops.append([o[0]])
                    yield {"strict": strict, "repl": repl, "ops": ops}


def gen_prims(rng, tier):
    prims = []
    alph = [0.0, 1.0, 2.0]
    for n in range(0, 5):
        for l in itertools.combinations_with_replacement(alph, n):
            for v in [-1.0, 0.0, 0.5, 1.0, 2.0, 3.0]:
                prims.append({"kind": "ss", "l": list(l), "v": v})
    for n in range(0, 4):
        for m in range(0, 4):
            for idx in itertools.combinations_with_replacement(range(n + 1), m):
                prims.append({"kind": "insert", "l": list(range(100, 100 + n)), "idx": list(idx),
                              "vals": list(range(200, 200 + m))})
    for n in range(1, 7):
        for m in range(1, n + 1):
            for idx in itertools.combinations(range(n), m):
                prims.append({"kind": "inv", "n": n, "idx": list(idx)})
    return prims


def lit_prim(p, r):
    if p["kind"] == "ss":
        return "ss", cT(cL(cZ(float_key(x)) for x in p["l"]), cZ(float_key(p["v"])), cN(r))
    if p["kind"] == "insert":
        return "insert", cT(cL(map(cN, p["l"])), cL(map(cN, p["idx"])), cL(map(cN, p["vals"])), cL(map(cN, r)))
    return "inv", cT(cN(p["n"]), cL(map(cN, p["idx"])), cL(map(cN, r)))


# ---------------------------------------------------------------------------
def run_impl(chk, hist, prims, timeout=1200):
    rc, out, err = chk.child("c04_child.py", timeout=timeout, inp=json.dumps({"hist": hist, "prim": prims}))
    if rc != 0:
        chk.oblige("implementation child ran", "harness", False, err[-1500:])
        return None
    return json.loads(out)


def load_corpus():
    p = os.path.join(common.VERIF, "corpus", PID)
    out = []
    if os.path.isdir(p):
        for f in sorted(os.listdir(p)):
            if f.endswith(".json"):
                out.append(json.load(open(os.path.join(p, f))))
    return out


def shard_eval(chk, name, hdr, defname, chkname, lits, size=400, typ=None):
    """Evaluate `mism chk lits` in shards, in parallel; returns list of mismatching global indices or None."""
    # shards bounded by count and by literal bytes (long histories get shards of their own)
    shards, cur, curb = [], [], 0
    for gi, lit in enumerate(lits):
        if cur and (len(cur) >= size or curb + len(lit) > 120000):
            shards.append(cur)
            cur, curb = [], 0
        cur.append((gi, lit))
        curb += len(lit)
    if cur:
        shards.append(cur)

    def one(k):
        txt = hdr + (f"Definition {defname}{(' : ' + typ) if typ else ''} := {cL(l for _, l in shards[k])}.\n"
                     f"Eval vm_compute in (mism {chkname} {defname}).\n")
        ok, evals, err = chk.coq_run(f"{name}_{k}", txt, timeout=900)
        if not ok or len(evals) != 1:
            return None, f"shard {name}_{k} did not evaluate: {err[-600:]}"
        return [shards[k][i][0] for i in common.parse_nat_list(evals[0])], ""

    bad = []
    with ThreadPoolExecutor(max_workers=12) as ex:
        for r, err in ex.map(one, range(len(shards))):
            if r is None:
                return None, err
            bad += r
    return bad, ""


def run(chk):
    rng = chk.rng
    chk.rule = ("histories = add_initial then random/exhaustive sequences of add_samples / update threshold / "
                "remove_samples / finalise over small likelihood alphabets (ties, -inf, +inf, -0.0) in the four "
                "strict x replace_all modes, plus sampler-like level histories and long histories with large batches; "
                "non-trivial = at least one add_samples succeeded on a store with both live and discarded samples "
                "or a tie between a new and a stored sample; distinct by full history")
    chk.assumptions += [
        "list models of np.searchsorted / np.insert (non-decreasing index vector) / get_inverse_indices in Lib/ListOps.v "
        "(validated exhaustively against numpy on small inputs on every run)",
        "np.argsort(order='logL') breaks ties by the remaining fields in dtype order; the harness stores the sample id in "
        "the first field, so the model's (key, id) order is numpy's",
        "float64 likelihoods enter the model through the strictly monotone key map common.float_key",
    ]
    chk.static_props(["C04"], ["C04_run"])
    # ---- cases ----------------------------------------------------------------
    hist = load_corpus()
    ncorpus = len(hist)
    if chk.tier == "quick":
        hist += [gen_random(rng, rng.randint(2, 12), rng.choice([2, 3, 5]), 0) for _ in range(700)]
        hist += [gen_sampler_like(rng, rng.randint(2, 8), rng.randint(3, 12)) for _ in range(150)]
        hist += [gen_random(rng, 40, 25, 0) for _ in range(4)]
        hist += list(gen_exhaustive(2))
        hist += list(gen_exhaustive(3, rng, 0.03))
    else:
        hist += [gen_random(rng, rng.randint(2, 14), rng.choice([2, 3, 5, 8]), 0) for _ in range(6000)]
        hist += [gen_sampler_like(rng, rng.randint(2, 12), rng.randint(3, 30)) for _ in range(1500)]
        hist += [gen_random(rng, 60, 60, 0) for _ in range(6)]
        hist += list(gen_exhaustive(2))
        hist += list(gen_exhaustive(3))
        hist += list(gen_exhaustive(4, rng, 0.02))
    prims = gen_prims(rng, chk.tier)
    res = run_impl(chk, hist, prims)
    if res is None:
        return
    traces, pres = res["hist"], res["prim"]
    chk.evaluations = len(hist) + len(prims)
    chk.count("corpus", ncorpus)
    # ---- direct predicate -----------------------------------------------------------
    for c, tr in zip(hist, traces):
        f = direct_predicate(c, tr)
        nerr = sum(1 for s in tr if "error" in s)
        chk.count("histories_with_a_raising_call", 1 if nerr else 0)
        chk.count("calls", len(tr))
        nt = False
        for o, s, p in zip(c["ops"][1:], tr[1:], tr):
            if o[0] == "add" and "error" not in s and "error" not in p:
                if (p["live"] and p["dead"]) or (set(k for k, _ in o[1]) & set(p["keys"])):
                    nt = True
        if nt:
            chk.nontriv(c)
        chk.count("mode:" + ("strict" if c["strict"] else "soft") + ("+replace_all" if c["repl"] else ""))
        if f:
            chk.fail(f"C04:{f[0]}", f[1], {"case": c, "observed": tr})
    # ---- numpy primitive models ------------------------------------------------------
    hdr = common.COQ_HEADER + "From NessaiV Require Import Lib.ListOps Model.C04_Store Run.C04_run.\nOpen Scope Z_scope.\n"
    groups = {"ss": [], "insert": [], "inv": []}
    for p, r in zip(prims, pres):
        if isinstance(r, dict):
            continue
        k, lit = lit_prim(p, r)
        groups[k].append(lit)
    ptypes = {"ss": "list (list Z * Z * nat)", "insert": "list (list nat * list nat * list nat * list nat)",
              "inv": "list (nat * list nat * list nat)"}
    for k, fn in (("ss", "chk_ss"), ("insert", "chk_insert"), ("inv", "chk_inv")):
        bad, err = shard_eval(chk, "prim_" + k, hdr, "pc", fn, groups[k], size=1500, typ=ptypes[k])
        chk.oblige(f"library model vs numpy: {k} ({len(groups[k])} exhaustive small cases)", "correspondence",
                   bad == [], err or ("mismatch: " + "; ".join(groups[k][i] for i in (bad or [])[:3])))
        chk.oracle_validations += len(groups[k])
    # ---- correspondence of histories ----------------------------------------------------
    lits = [lit_case(c, tr) for c, tr in zip(hist, traces)]
    bad, err = shard_eval(chk, "hist", hdr, "cases", "chk_case", lits, size=300,
                          typ="list (bool * bool * list op * list (option snap))")
    chk.oblige(f"correspondence: per-call snapshots of the real OrderedSamples = model trace ({len(lits)} histories)",
               "correspondence", bad == [], err or f"{len(bad or [])} mismatching histories, first: "
               + json.dumps(hist[bad[0]] if bad else None)[:1500])
    if bad:
        chk.notes.append({"first_mismatching_history": hist[bad[0]], "observed": traces[bad[0]]})
    chk.traces = len(lits)
    for i in range(0, len(hist), max(1, len(hist) // 4)):
        chk.sample({"case": hist[i], "observed_last": traces[i][-1] if traces[i] else None})


def replay(data):
    c = data["replay"]["case"]
    r = subprocess.run([common.PY, os.path.join(common.VERIF, "harness", "c04_child.py")],
                       input=json.dumps({"hist": [c], "prim": []}), capture_output=True, text=True,
                       env=common.child_env())
    tr = json.loads(r.stdout)["hist"][0]
    f = direct_predicate(c, tr)
    print(json.dumps({"case": c, "observed": tr, "failure": f}, indent=1))
    if f:
        print(f"VIOLATION property={PID} replay=(replayed) {f[1]}")
        return 1
    return 0
