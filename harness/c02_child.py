"""Runs the real nessai quadrature code (nessai.evidence._NSIntegralState, nessai.posterior.compute_weights)
on the cases given on stdin (JSON) and prints the float64 results as JSON (repr round-trips exactly;
-Infinity / NaN are JSON tokens of Python's json module)."""
import json
import logging
import sys
import warnings

import numpy as np


def err_name(e):
    n = type(e).__name__
    return n if n in ("ValueError", "TypeError", "IndexError", "RuntimeError", "ZeroDivisionError") else "Other:" + n


def fl(x):
    return float(x)


def run_case(c):
    from nessai.evidence import _NSIntegralState
    from nessai.posterior import compute_weights

    # the mode as the caller spells it ("logt", "LogT", "T", ...: the library lower-cases); the model gets c["mode"]
    mode = c.get("spelling") or c["mode"]
    ls = [float(x) for x in c["ls"]]
    ns = [int(n) for n in c["ns"]]
    out = {}
    if c.get("malformed"):
        kind = c["malformed"]
        try:
            if kind == "len":
                compute_weights(np.array(ls), np.array(ns[:-1], dtype=float), expectation=mode)
            elif kind == "mode":
                compute_weights(np.array(ls), np.array(ns, dtype=float), expectation="expectation")
            elif kind == "mode_state":
                _NSIntegralState(5, expectation="expectation")
            elif kind == "int_too_large":
                compute_weights(np.array(ls), len(ls) + 1 + int(c.get("extra", 0)), expectation=mode)
            return {"rejected": None}
        except Exception as e:
            return {"rejected": err_name(e)}
    # ---- incremental state -----------------------------------------------------------
    try:
        base = int(c.get("base_nlive", ns[0] if ns else 1))
        st = _NSIntegralState(base, track_gradients=bool(c.get("gradients", False)), expectation=mode)
        if c.get("via_sampler"):
            # the run's increments with the default live count, then the REAL NestedSampler.finalise
            # on a stand-in object (live points, nlive, state): its loop chooses the final live counts
            import types
            from nessai.samplers.nestedsampler import NestedSampler

            n = int(c["via_sampler"])
            iters = len(ls) - n
            for l in ls[:iters]:
                st.increment(l)
            live = np.zeros(n, dtype=[("x", "f8"), ("logL", "f8")])
            live["logL"] = ls[iters:]
            fake = types.SimpleNamespace(live_points=live, nlive=n, state=st, nested_samples=[],
                                         update_state=lambda force=False: None, finalised=False)
            NestedSampler.finalise(fake)
            zrect = None
            ret = st.logZ
            out["sampler"] = {"finalised": bool(fake.finalised), "n_nested": len(fake.nested_samples)}
        else:
            for l, n in zip(ls, ns):
                if c.get("use_default") and n == base:
                    st.increment(l)          # the sampler's call during the run: nlive defaults to base_nlive
                else:
                    st.increment(l, nlive=n)
            zrect = fl(st.logZ)
            ret = st.finalise()
        # reading is not writing: read every public property of the state (twice), scribble on the arrays that were
        # returned, and only then collect what the state reports
        first_w = [fl(v) for v in st.log_posterior_weights]
        first_z = fl(st.logZ)
        for _ in range(2):
            for name in dir(type(st)):
                if not name.startswith("_") and isinstance(getattr(type(st), name, None), property):
                    try:
                        v = getattr(st, name)
                        if isinstance(v, np.ndarray) and v.dtype.kind == "f" and v.flags.writeable:
                            v += 1.0
                    except Exception:
                        pass
        out["stable"] = bool(first_w == [fl(v) for v in st.log_posterior_weights] and (first_z == fl(st.logZ) or first_z != first_z))
        out["st"] = {
            "log_vols": [fl(v) for v in st.log_vols],
            "logLs": [fl(v) for v in st.logLs],
            "zrect": zrect,
            "ztrap": fl(ret),
            "logZ_attr": fl(st.logZ),
            "log_evidence": fl(st.log_evidence),
            "w": [fl(v) for v in st.log_posterior_weights],
            "nlive": [int(v) for v in st.nlive],
        }
    except Exception as e:
        out["st"] = {"error": err_name(e), "msg": str(e)[:200]}
    # ---- one pass, per-iteration live counts -------------------------------------------
    try:
        z, w = compute_weights(np.array(ls), np.array(ns, dtype=float), expectation=mode)
        out["cw"] = {"z": fl(z), "w": [fl(v) for v in w]}
    except Exception as e:
        out["cw"] = {"error": err_name(e), "msg": str(e)[:200]}
    # ---- one pass, the same schedule as an integer-dtype array (what `np.array(counts)` gives a user) ----
    try:
        z, w = compute_weights(np.array(ls), np.array(ns, dtype=np.int64), expectation=mode)
        out["cwn"] = {"z": fl(z), "w": [fl(v) for v in w]}
    except Exception as e:
        out["cwn"] = {"error": err_name(e), "msg": str(e)[:200]}
    # ---- one pass, integer nlive (schedule n..n, n, n-1, .., 1) --------------------------
    if c.get("int_nlive"):
        try:
            z, w = compute_weights(np.array(ls), int(c["int_nlive"]), expectation=mode)
            out["cwi"] = {"z": fl(z), "w": [fl(v) for v in w]}
        except Exception as e:
            out["cwi"] = {"error": err_name(e), "msg": str(e)[:200]}
    return out


def main():
    cases = json.load(sys.stdin)
    logging.disable(logging.CRITICAL)
    warnings.filterwarnings("ignore")
    np.seterr(all="ignore")
    json.dump([run_case(c) for c in cases], sys.stdout)


if __name__ == "__main__":
    main()
