"""Runs the real nessai writers (save_to_json, save_dict_to_hdf5, FlowSampler.save_results / save_kwargs)
on generated value trees and on real result dictionaries of short sampler runs, reads the files back
with the standard json / h5py readers and reports (a) the read-back content in a neutral encoding for
the comparison with the Coq model and (b) the direct field-by-field comparison of the read-back with
the in-memory object.  Floats travel as float64 bit patterns (NaNs identified)."""
import json
import logging
import os
import struct
import sys
import types

import numpy as np

NAN = 0x7FF8000000000000
MARKER = "__none__"


def f2b(x):
    x = float(x)
    if x != x:
        return NAN
    return struct.unpack("<Q", struct.pack("<d", x))[0]


def b2f(b):
    return struct.unpack("<d", struct.pack("<Q", int(b)))[0]


# ------------------------------------------------------------------------------------------------
# opaque objects that appear in keyword arguments
class APool:
    """stands for a multiprocessing pool / any user object"""

    def __repr__(self):
        return "<APool object>"


def a_callback(x):
    return x


OPAQUE = {
    "class": lambda: dict,
    "nessai_class": lambda: __import__("nessai.proposal.flowproposal", fromlist=["FlowProposal"]).FlowProposal,
    "function": lambda: a_callback,
    "lambda": lambda: (lambda x: x),
    "pool": lambda: APool(),
    "timedelta": lambda: __import__("datetime").timedelta(seconds=3, microseconds=7),
    "set": lambda: {3},
    "complex": lambda: 1 + 2j,
    "bytes": lambda: b"ab",
    "dtype": lambda: np.dtype("f8"),
    "module": lambda: types,
}
NPW = {"int64": np.int64, "int32": np.int32, "uint8": np.uint8, "int16": np.int16,
       "float32": np.float32, "float16": np.float16, "longdouble": np.longdouble, "bool": np.bool_}
ADT = {"f": {"float64": "f8", "float32": "f4"}, "i": {"int64": "i8", "int32": "i4", "uint8": "u1"},
       "b": {"bool": "?"}}


def build(t):
    """tree spec -> python object"""
    k = t["t"]
    if k == "none":
        return None
    if k == "bool":
        return bool(t["v"])
    if k == "int":
        return int(t["v"])
    if k == "float":
        return b2f(t["b"])
    if k == "npfloat64":
        return np.float64(b2f(t["b"]))
    if k == "str":
        return t["v"]
    if k == "np":
        ty = NPW[t["w"]]
        if t["k"] == "f":
            return ty(b2f(t["b"]))
        if t["k"] == "b":
            return np.bool_(bool(t["b"]))
        return ty(int(t["b"]))
    if k == "arr":
        dt = ADT[t["k"]][t["dt"]]
        if t["k"] == "f":
            data = [b2f(b) for b in t["data"]]
        elif t["k"] == "b":
            data = [bool(b) for b in t["data"]]
        else:
            data = [int(b) for b in t["data"]]
        return np.array(data, dtype=dt).reshape(tuple(t["shape"]))
    if k == "struct":
        dt = [(n, "f8" if kk == "f" else "i4") for n, kk in t["fields"]]
        rows = [tuple(b2f(v) if kk == "f" else int(v) for v, (_, kk) in zip(r, t["fields"])) for r in t["rows"]]
        return np.array(rows, dtype=dt)
    if k == "list":
        return [build(x) for x in t["v"]]
    if k == "tuple":
        return tuple(build(x) for x in t["v"])
    if k == "dict":
        return {kk: build(x) for kk, x in t["v"]}
    if k == "opaque":
        return OPAQUE[t["kind"]]()
    raise SystemExit("unknown tree node " + k)


def describe(o):
    """python object -> tree spec (used for real result dictionaries and to report str() of opaque leaves)"""
    if o is None:
        return {"t": "none"}
    if isinstance(o, (bool,)):
        return {"t": "bool", "v": bool(o)}
    if isinstance(o, np.bool_):
        return {"t": "np", "k": "b", "w": "bool", "b": int(bool(o))}
    if isinstance(o, int):
        return {"t": "int", "v": str(int(o))}
    if isinstance(o, np.integer):
        return {"t": "np", "k": "i", "w": o.dtype.name, "b": str(int(o))}
    if isinstance(o, float):           # includes np.float64
        return {"t": "float", "b": f2b(o), "np": isinstance(o, np.floating)}
    if isinstance(o, np.floating):
        return {"t": "np", "k": "f", "w": o.dtype.name, "b": f2b(o)}
    if isinstance(o, str):
        return {"t": "str", "v": str(o)}
    if isinstance(o, np.ndarray):
        if o.dtype.names:
            fields = []
            for n in o.dtype.names:
                kd = o.dtype[n].kind
                if kd not in "fiu" or o.ndim != 1:
                    return {"t": "opaque", "kind": "ndarray:" + str(o.dtype), "repr": str(o)}
                fields.append([n, "f" if kd == "f" else "i"])
            rows = [[f2b(o[n][r]) if kk == "f" else int(o[n][r]) for n, kk in fields] for r in range(o.shape[0])]
            return {"t": "struct", "fields": fields, "rows": rows}
        kd = o.dtype.kind
        if kd == "f":
            return {"t": "arr", "shape": list(o.shape), "k": "f", "dt": o.dtype.name,
                    "data": [f2b(v) for v in o.reshape(-1)]}
        if kd in "iu":
            return {"t": "arr", "shape": list(o.shape), "k": "i", "dt": o.dtype.name,
                    "data": [str(int(v)) for v in o.reshape(-1)]}
        if kd == "b":
            return {"t": "arr", "shape": list(o.shape), "k": "b", "dt": "bool",
                    "data": [int(bool(v)) for v in o.reshape(-1)]}
        return {"t": "opaque", "kind": "ndarray:" + str(o.dtype), "repr": str(o)}
    if isinstance(o, list):
        return {"t": "list", "v": [describe(x) for x in o]}
    if isinstance(o, tuple):
        return {"t": "tuple", "v": [describe(x) for x in o]}
    if isinstance(o, dict):
        if not all(isinstance(k, str) for k in o):
            return {"t": "opaque", "kind": "dict-with-non-str-keys", "repr": str(o)}
        return {"t": "dict", "v": [[k, describe(x)] for k, x in o.items()]}
    return {"t": "opaque", "kind": type(o).__name__, "repr": str(o)}


# ------------------------------------------------------------------------------------------------
# read-back encodings
def enc_j(r):
    if r is None:
        return {"j": "null"}
    if isinstance(r, bool):
        return {"j": "bool", "v": r}
    if isinstance(r, int):
        return {"j": "int", "v": str(r)}
    if isinstance(r, float):
        return {"j": "float", "b": f2b(r)}
    if isinstance(r, str):
        return {"j": "str", "v": r}
    if isinstance(r, list):
        return {"j": "list", "v": [enc_j(x) for x in r]}
    if isinstance(r, dict):
        return {"j": "dict", "v": [[k, enc_j(x)] for k, x in r.items()]}
    return {"j": "other", "repr": repr(r)[:100]}


def kind_code(dt):
    if dt.kind == "b":
        return "b"
    if dt.kind in "iu":
        return "i"
    if dt.kind == "f":
        return "f"
    return None


def enc_payload(v, kc):
    if kc == "f":
        return f2b(v)
    if kc == "b":
        return int(bool(v))
    return str(int(v))


def enc_h(x):
    """value returned by dataset[()]"""
    if isinstance(x, bytes):
        return {"h": "str", "v": x.decode("utf-8", "replace")}
    if isinstance(x, str):
        return {"h": "str", "v": x}
    if isinstance(x, np.ndarray):
        if x.dtype.names:
            fields = [[n, kind_code(x.dtype[n])] for n in x.dtype.names]
            if any(k is None or k == "b" for _, k in fields) or x.ndim != 1:
                return {"h": "other", "repr": str(x.dtype)}
            return {"h": "struct", "fields": fields,
                    "rows": [[enc_payload(x[n][r], k) for n, k in fields] for r in range(x.shape[0])]}
        if x.dtype.kind == "O":
            flat = x.reshape(-1)
            if x.ndim == 1 and all(isinstance(e, (bytes, str)) for e in flat):
                return {"h": "strs", "v": [e.decode("utf-8", "replace") if isinstance(e, bytes) else e for e in flat]}
            return {"h": "other", "repr": "object array"}
        kc = kind_code(x.dtype)
        if kc is None:
            return {"h": "other", "repr": str(x.dtype)}
        return {"h": "arr", "shape": list(x.shape), "k": kc, "data": [enc_payload(v, kc) for v in x.reshape(-1)]}
    if isinstance(x, np.generic):
        kc = kind_code(x.dtype)
        if kc is None:
            return {"h": "other", "repr": str(x.dtype)}
        return {"h": "num", "k": kc, "z": enc_payload(x, kc)}
    return {"h": "other", "repr": type(x).__name__}


def read_h5(path):
    import h5py
    out = []

    def visit(name, obj):
        if isinstance(obj, h5py.Dataset):
            out.append([name.split("/"), enc_h(obj[()])])
    with h5py.File(path, "r") as f:
        f.visititems(visit)
        groups = []
        f.visititems(lambda n, o: groups.append(n) if isinstance(o, h5py.Group) else None)
    return out, groups


def read_h5_tree(path):
    """nested dict of dataset values as the standard reader gives them"""
    import h5py

    def walk(g):
        d = {}
        for k in g.keys():
            o = g[k]
            d[k] = walk(o) if isinstance(o, h5py.Group) else o[()]
        return d
    with h5py.File(path, "r") as f:
        return walk(f)


# ------------------------------------------------------------------------------------------------
# direct comparison of an in-memory object with what was read back
def same_float(a, b):
    a, b = np.asarray(a), np.asarray(b)
    if a != a and b != b:
        return True
    if a.dtype == b.dtype:
        return bool(a == b) and bool(np.signbit(a) == np.signbit(b))
    return f2b(float(a)) == f2b(float(b))


def is_opaque(o):
    return not isinstance(o, (type(None), bool, int, float, str, np.generic, np.ndarray, list, tuple, dict))


def cmp_json(o, r, path, bad, lossy_npbool=False):
    """read-back r equals o up to: tuple/array -> list, numpy scalar -> python scalar, structured array ->
    rows in field order, opaque -> str(o)"""
    def no(msg):
        bad.append(("/".join(path) or "<root>") + ": " + msg)
    if o is None:
        if r is not None:
            no(f"None read back as {r!r}")
    elif isinstance(o, (bool, np.bool_)):
        if not (isinstance(r, bool) and r == bool(o)):
            no(f"{type(o).__name__} {o!r} read back as {r!r}")
    elif isinstance(o, (int, np.integer)):
        if not (isinstance(r, int) and not isinstance(r, bool) and r == int(o)):
            no(f"integer {o!r} read back as {r!r}")
    elif isinstance(o, (float, np.floating)):
        if not (isinstance(r, float) and f2b(r) == f2b(float(o))):
            no(f"{type(o).__name__} {o!r} read back as {r!r}")
    elif isinstance(o, str):
        if not (isinstance(r, str) and r == o):
            no(f"str {o!r} read back as {r!r}")
    elif isinstance(o, np.ndarray):
        cmp_json(o.tolist(), r, path, bad)
    elif isinstance(o, (list, tuple)):
        if not isinstance(r, list) or len(r) != len(o):
            no(f"sequence of {len(o)} read back as {type(r).__name__}" + (f" of {len(r)}" if isinstance(r, list) else ""))
        else:
            for i, (a, b) in enumerate(zip(o, r)):
                cmp_json(a, b, path + [str(i)], bad)
    elif isinstance(o, dict):
        if not isinstance(r, dict) or list(r.keys()) != [str(k) for k in o.keys()]:
            no(f"dict keys {list(o.keys())} read back as {list(r.keys()) if isinstance(r, dict) else type(r).__name__}")
        else:
            for k in o:
                cmp_json(o[k], r[str(k)], path + [str(k)], bad)
    else:
        if not (isinstance(r, str) and r == str(o)):
            no(f"{type(o).__name__} object read back as {r!r}")


def leaf_nums(o, out):
    """flatten nested list/tuple/array of numbers; returns the shape or None"""
    if isinstance(o, np.ndarray):
        if o.dtype.names or o.dtype.kind not in "biuf":
            return None
        out.extend(o.reshape(-1).tolist() if o.dtype != np.longdouble else list(o.reshape(-1)))
        return list(o.shape)
    if isinstance(o, (list, tuple)):
        shapes = []
        for x in o:
            s = leaf_nums(x, out)
            if s is None:
                return None
            shapes.append(s)
        if any(s != shapes[0] for s in shapes):
            return None
        return [len(o)] + (shapes[0] if shapes else [])
    if isinstance(o, (bool, int, float, np.bool_, np.integer, np.floating)):
        out.append(o)
        return []
    return None


def cmp_h5(o, r, path, bad):
    """r: nested dict / dataset values from h5py"""
    def no(msg):
        bad.append(("/".join(path) or "<root>") + ": " + msg)
    if isinstance(o, dict):
        if not isinstance(r, dict):
            no(f"dict read back as {type(r).__name__}")
            return
        if set(r.keys()) != set(o.keys()):
            no(f"dict keys {sorted(o.keys())} read back as {sorted(r.keys())}")
            return
        for k in o:
            cmp_h5(o[k], r[k], path + [k], bad)
        return
    if isinstance(r, dict):
        no(f"{type(o).__name__} read back as a group")
        return
    rs = r.decode("utf-8", "replace") if isinstance(r, bytes) else r
    if o is None:
        if not (isinstance(rs, str) and rs == MARKER):
            no(f"None read back as {r!r} (expected the {MARKER!r} marker)")
    elif isinstance(o, str):
        if not (isinstance(rs, str) and rs == o):
            no(f"str {o!r} read back as {r!r}")
    elif isinstance(o, (bool, np.bool_)):
        if not (isinstance(r, np.bool_) and bool(r) == bool(o)):
            no(f"bool {o!r} read back as {r!r}")
    elif isinstance(o, (int, np.integer)):
        if not (isinstance(r, np.integer) and int(r) == int(o)):
            no(f"integer {o!r} read back as {r!r}")
    elif isinstance(o, (float, np.floating)):
        if not (isinstance(r, np.floating) and same_float(o, r)):
            no(f"float {o!r} read back as {r!r}")
    elif isinstance(o, np.ndarray) and o.dtype.names:
        ok = isinstance(r, np.ndarray) and r.dtype.names == o.dtype.names and r.shape == o.shape
        if ok:
            for n in o.dtype.names:
                for a, b in zip(o[n], r[n]):
                    if not (same_float(a, b) if o.dtype[n].kind == "f" else (a == b and r.dtype[n].kind == o.dtype[n].kind)):
                        ok = False
        if not ok:
            no(f"structured array {o.dtype.names} {o.shape} read back as {getattr(r, 'dtype', type(r))} {getattr(r, 'shape', '')}")
    elif isinstance(o, (np.ndarray, list, tuple)):
        if isinstance(o, (list, tuple)) and len(o) and all(isinstance(x, str) for x in o):
            got = [e.decode("utf-8", "replace") if isinstance(e, bytes) else e for e in np.asarray(r).reshape(-1)] \
                if isinstance(r, np.ndarray) else None
            if got != list(o):
                no(f"list of str {o!r} read back as {r!r}")
            return
        nums = []
        shape = leaf_nums(o, nums)
        if shape is None:
            no(f"{type(o).__name__} is not a rectangular numeric sequence; read back as {type(r).__name__}")
            return
        if isinstance(o, np.ndarray) and o.ndim == 0:
            ra = np.asarray(r)
        elif not isinstance(r, np.ndarray):
            no(f"sequence read back as {type(r).__name__} {r!r}")
            return
        else:
            ra = r
        if list(ra.shape) != shape:
            no(f"shape {shape} read back as {list(ra.shape)}")
            return
        if isinstance(o, np.ndarray) and ra.dtype.kind != o.dtype.kind and not (ra.dtype.kind in "iu" and o.dtype.kind in "iu"):
            no(f"array dtype {o.dtype} read back as {ra.dtype}")
            return
        for a, b in zip(nums, ra.reshape(-1)):
            fa, fb = float(a), float(b)
            exact = (not isinstance(a, (float, np.floating)) and ra.dtype.kind in "iub" and int(a) == int(b))
            if not (exact or f2b(fa) == f2b(fb)):
                no(f"element {a!r} read back as {b!r}")
                return
    else:
        no(f"{type(o).__name__} object read back as {r!r}")


# ------------------------------------------------------------------------------------------------
def err(e):
    return {"err": type(e).__name__, "msg": str(e)[:200]}


def run_gen(c, wd, io):
    obj = build(c["tree"])
    out = {"desc": describe(obj)}
    if "json" in c["fmt"]:
        p = os.path.join(wd, "g.json")
        try:
            if os.path.exists(p):
                os.remove(p)
            io.save_to_json(obj, p)
            with open(p) as fh:
                r = json.load(fh)
            bad = []
            cmp_json(obj, r, [], bad)
            out["json"] = {"obs": enc_j(r), "bad": bad[:5]}
        except Exception as e:  # noqa: BLE001
            out["json"] = err(e)
            try:                           # a failed dump leaves a torn file behind: does it parse?
                with open(p) as fh:
                    json.load(fh)
                out["json"]["torn_file_parses"] = True
            except Exception:  # noqa: BLE001
                out["json"]["torn_file_parses"] = False
    if "h5" in c["fmt"]:
        p = os.path.join(wd, "g.h5")
        try:
            io.save_dict_to_hdf5(obj, p)
            obs, groups = read_h5(p)
            bad = []
            cmp_h5(obj, read_h5_tree(p), [], bad)
            out["h5"] = {"obs": obs, "bad": bad[:5], "groups": groups}
        except Exception as e:  # noqa: BLE001
            out["h5"] = err(e)
    return out


class StubNS:
    def __init__(self, d):
        self._d = d

    def get_result_dictionary(self):
        return dict(self._d)


def run_ext(c, wd, FlowSampler):
    """save_results(<dir>/<stem>[.<ext>], extension=<arg>) with the working directory inside a scratch
    directory; <dir> may be empty, relative ("./x"), nested, hidden or contain dots"""
    import h5py
    import shutil
    sub = os.path.join(wd, "ext")
    shutil.rmtree(sub, ignore_errors=True)
    os.makedirs(sub)
    d = c.get("dir", "")
    if d:
        os.makedirs(os.path.join(sub, os.path.normpath(d)), exist_ok=True)
    post = np.array([(1.0, 2.0), (3.0, 4.0)], dtype=[("x", "f8"), ("logL", "f8")])
    stub = types.SimpleNamespace(ns=StubNS({"log_evidence": np.float64(-1.5), "seed": None}), posterior_samples=post)
    fname = (d + "/" if d else "") + c["stem"] + ("." + c["ext"] if c["ext"] else "")
    old = os.getcwd()
    os.chdir(sub)
    try:
        try:
            FlowSampler.save_results(stub, fname, c["arg"])
            res = {}
        except Exception as e:  # noqa: BLE001
            res = {"err": type(e).__name__}
    finally:
        os.chdir(old)
    files = []
    for root, _, fs in os.walk(sub):
        for f in fs:
            files.append(os.path.normpath(os.path.relpath(os.path.join(root, f), sub)))
    res["files"] = sorted(files)
    res["passed"] = fname
    if "err" not in res and len(files) == 1:
        p = os.path.join(sub, files[0])
        try:
            with open(p) as fh:
                r = json.load(fh)
            res["writer"] = "json"
            res["content_ok"] = f2b(r["log_evidence"]) == f2b(-1.5) and r["seed"] is None \
                and list(r["posterior_samples"].keys()) == ["x", "logL"]
        except Exception:  # noqa: BLE001
            try:
                with h5py.File(p, "r") as f:
                    res["writer"] = "hdf5"
                    res["content_ok"] = f2b(f["log_evidence"][()]) == f2b(-1.5) \
                        and f["posterior_samples"][()].dtype.names == ("x", "logL")
            except Exception:  # noqa: BLE001
                res["writer"] = "unreadable"
    return res


class LockedStore:
    """a callback object that guards its state with a lock and holds a file handle (cannot be copied / pickled)"""

    def __init__(self):
        import threading
        self.lock = threading.Lock()
        self.fh = open(os.devnull)
        self.states = []

    def callback(self, state):
        with self.lock:
            self.states.append(state)

    def __call__(self, state):
        self.callback(state)


def make_opaque(kind, pools):
    import threading
    if kind == "mp_pool":
        import multiprocessing
        p = multiprocessing.get_context("fork").Pool(1)
        pools.append(p)
        return p
    if kind == "bound_method_with_lock":
        return LockedStore().callback
    if kind == "callable_object_with_lock":
        return LockedStore()
    if kind == "lock":
        return threading.Lock()
    if kind == "file":
        return open(os.devnull)
    if kind == "generator":
        return (i for i in range(3))
    return OPAQUE[kind]()


def run_construct(c, wd):
    """FlowSampler(model, output=..., **kwargs) for real, with keyword arguments holding objects that can be
    neither serialised nor copied; config.json must exist, parse, and hold every keyword argument"""
    import inspect
    import shutil
    from nessai.flowsampler import FlowSampler
    from nessai.model import Model
    from nessai.utils.multiprocessing import initialise_pool_variables

    class G(Model):
        def __init__(self):
            self.names = ["x", "y"]
            self.bounds = {"x": [-5.0, 5.0], "y": [-5.0, 5.0]}

        def log_prior(self, x):
            return np.log(self.in_bounds(x), dtype="float") - np.log(100.0)

        def log_likelihood(self, x):
            return -0.5 * (x["x"] ** 2 + x["y"] ** 2)

    pools = []
    out = os.path.join(wd, "construct")
    shutil.rmtree(out, ignore_errors=True)
    model = G()
    initialise_pool_variables(model)
    aux = {k: make_opaque(kind, pools) for k, kind in c["aux"]}
    aux_list = [make_opaque(kind, pools) for kind in c["aux_list"]]
    nested = {"aux": aux, "aux_list": aux_list, "tup": (None, np.float32(0.5))}
    kw = {"nlive": 50}
    if c["sampler"] == "ins":
        kw.update(importance_nested_sampler=True, min_samples=10, training_config=dict(nested, max_epochs=5))
    else:
        kw.update(flow_config={"model_config": {"n_blocks": 2, "kwargs": nested}})
        if c.get("proposal_class"):
            kw["flow_proposal_class"] = OPAQUE["nessai_class"]()
    if c.get("pool"):
        kw["pool"] = make_opaque(c["pool"], pools)
    if c.get("callback"):
        kw["checkpoint_callback"] = make_opaque(c["callback"], pools)
    named = set(inspect.signature(FlowSampler.__init__).parameters)
    res = {"kwargs": sorted(kw)}
    try:
        try:
            fs = FlowSampler(model, output=out, resume=False, signal_handling=False, close_pool=False, plot=False, **kw)
        except Exception as e:  # noqa: BLE001
            import traceback
            res["raised"] = f"{type(e).__name__}: {e}"[:300]
            res["where"] = traceback.format_exc(limit=-2)[-400:]
            res["config_exists"] = os.path.exists(os.path.join(out, "config.json"))
            return res
        path = os.path.join(out, "config.json")
        res["config_exists"] = os.path.exists(path)
        if not res["config_exists"]:
            return res
        try:
            with open(path) as fh:
                cfg = json.load(fh)
        except Exception as e:  # noqa: BLE001
            res["load_error"] = f"{type(e).__name__}: {e}"[:200]
            return res
        passed = {k: v for k, v in dict(kw, plot=False).items() if k not in named}
        res["missing"] = sorted(k for k in passed if k not in cfg)
        expect = dict(passed)
        expect.update(eps=fs.eps, torch_dtype=fs.torch_dtype, importance_sampler=fs.importance_nested_sampler)
        bad = []
        cmp_json({k: expect[k] for k in cfg if k in expect}, {k: cfg[k] for k in cfg if k in expect}, [], bad)
        res["bad"] = bad[:5]
        res["extra_keys"] = sorted(k for k in cfg if k not in expect)
        res["desc"] = describe({k: expect[k] for k in cfg if k in expect})
        res["obs"] = enc_j({k: cfg[k] for k in cfg if k in expect})
    finally:
        for p in pools:
            p.terminate()
    return res


def run_sampler(which, wd):
    import torch
    torch.set_num_threads(1)
    from nessai.flowsampler import FlowSampler
    from nessai.livepoint import live_points_to_dict
    from nessai.model import Model
    from nessai.utils.logging import setup_logger
    setup_logger(output=None, log_level="CRITICAL")

    class G(Model):
        def __init__(self):
            self.names = ["x", "y"]
            self.bounds = {"x": [-5, 5], "y": [-5, 5]}
            self.truth = {"x": 0.0, "y": 0.0}

        def log_prior(self, x):
            return np.log(self.in_bounds(x), dtype="float") - np.log(100.0)

        def log_likelihood(self, x):
            return -0.5 * (x["x"] ** 2 + x["y"] ** 2)

        def to_unit_hypercube(self, x):
            y = x.copy()
            for n in self.names:
                y[n] = (x[n] + 5) / 10
            return y

        def from_unit_hypercube(self, x):
            y = x.copy()
            for n in self.names:
                y[n] = 10 * x[n] - 5
            return y

    # output directories that contain dots: a version-like name, and a relative "./..." path
    os.makedirs(wd, exist_ok=True)
    if which == "std":
        out = os.path.join(wd, "run_std_v1.2")
    else:
        os.chdir(wd)
        out = "./run_ins"
    pool = APool()
    if which == "std":
        kw = dict(nlive=50, max_iteration=250, training_frequency=100, maximum_uninformed=100,
                  flow_config={"model_config": {"n_blocks": 2, "n_neurons": 8}}, proposal_plots=False)
    else:
        kw = dict(nlive=100, importance_nested_sampler=True, max_iteration=3, min_samples=25)
    fs = FlowSampler(G(), output=out, plot=False, seed=1, resume=False, signal_handling=False,
                     checkpointing=False, **kw)
    fs.run(plot=False, save=True)       # run() itself writes result.<result_extension> (hdf5 by default)
    res = {"output": out}
    # the configuration written at start-up
    try:
        with open(os.path.join(out, "config.json")) as fh:
            cfg = json.load(fh)
        res["config_loads"] = True
        res["config_keys"] = sorted(cfg.keys())
    except Exception as e:  # noqa: BLE001
        res["config_loads"] = False
        res["config_error"] = str(e)[:200]
    # save_kwargs with non-serialisable values: classes, a pool-like object, callbacks, numpy values
    extra = dict(kw, flow_proposal_class=__import__("nessai.proposal.flowproposal", fromlist=["x"]).FlowProposal,
                 pool=pool, checkpoint_callback=a_callback, reparameterisations={"x": "default", "y": None},
                 prior_bounds=np.array([[-5.0, 5.0]]), n_pool=np.int64(2), tolerance=np.float32(0.1),
                 fuzz=float("inf"), flags=(True, None), dtype=np.dtype("f8"))
    try:
        fs.save_kwargs(extra)
        with open(os.path.join(out, "config.json")) as fh:
            cfg = json.load(fh)
        bad = []
        cmp_json({**extra, "eps": fs.eps, "torch_dtype": fs.torch_dtype,
                  "importance_sampler": fs.importance_nested_sampler}, cfg, [], bad)
        res["kwargs_loads"] = True
        res["kwargs_bad"] = bad[:5]
    except Exception as e:  # noqa: BLE001
        res["kwargs_loads"] = False
        res["kwargs_error"] = f"{type(e).__name__}: {e}"[:200]

    def memory():
        d = fs.ns.get_result_dictionary()
        d["posterior_samples"] = fs.posterior_samples
        if hasattr(fs, "initial_posterior_samples"):
            d["initial_posterior_samples"] = fs.initial_posterior_samples
        return d
    d = memory()
    res["tree"] = describe(d)
    res["saves"] = {}
    for label, fname, arg in (("run()", "result.hdf5", "written-by-run"), ("json", "result", "json"),
                              ("json-in-name", "result.json", None), ("hdf5", "result.hdf5", None),
                              ("h5", "result", "h5")):
        target = os.path.join(out, fname)
        try:
            if arg != "written-by-run":
                for stale in os.listdir(out):
                    if stale.startswith("result") and os.path.isfile(os.path.join(out, stale)):
                        os.remove(os.path.join(out, stale))
                fs.save_results(target, arg)
            written = target if arg in (None, "written-by-run") else target + "." + arg
            if not os.path.isfile(written):
                raise FileNotFoundError(
                    f"expected result file {written} does not exist; output directory holds "
                    f"{sorted(f for f in os.listdir(out) if os.path.isfile(os.path.join(out, f)))}")
            if label.startswith("json"):
                with open(written) as fh:
                    r = json.load(fh)
                dj = dict(d)
                dj["posterior_samples"] = live_points_to_dict(d["posterior_samples"])
                bad = []
                cmp_json(dj, r, [], bad)
                res["saves"][label] = {"obs": enc_j(r), "bad": bad[:8], "file": os.path.basename(written)}
            else:
                obs, groups = read_h5(written)
                bad = []
                cmp_h5(d, read_h5_tree(written), [], bad)
                res["saves"][label] = {"obs": obs, "bad": bad[:8], "file": os.path.basename(written)}
        except Exception as e:  # noqa: BLE001
            res["saves"][label] = err(e)
    d2 = memory()
    res["stable"] = json.dumps(describe(d2), sort_keys=True) == json.dumps(res["tree"], sort_keys=True)
    return res


def main():
    logging.disable(logging.CRITICAL)
    job = json.load(sys.stdin)
    wd = job["workdir"]
    os.makedirs(wd, exist_ok=True)
    out = {}
    if "sampler" in job:
        import faulthandler
        faulthandler.dump_traceback_later(job.get("cap", 240), exit=True)
        out["sampler"] = run_sampler(job["sampler"], wd)
    else:
        from nessai.flowsampler import FlowSampler
        from nessai.utils import io
        out["gen"] = [run_gen(c, wd, io) for c in job.get("gen", [])]
        out["ext"] = [run_ext(c, wd, FlowSampler) for c in job.get("ext", [])]
        out["construct"] = [run_construct(c, wd) for c in job.get("construct", [])]
    json.dump(out, sys.stdout)


if __name__ == "__main__":
    main()
