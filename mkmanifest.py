#!/usr/bin/env python3
"""Assemble MANIFEST.json from manifest.d/*.json (one fragment per claimed property) and not_applicable.json."""
import glob, json, os
here = os.path.dirname(os.path.abspath(__file__))
# only properties listed in manifest.d/ENABLED (verified green on the unchanged tree) are claimed
enabled = open(os.path.join(here, "manifest.d", "ENABLED")).read().split()
checks = [json.load(open(p)) for p in sorted(glob.glob(os.path.join(here, "manifest.d", "C*.json")))]
checks = [c for c in checks if c["property_id"] in enabled]
claimed = {c["property_id"] for c in checks}
na = json.load(open(os.path.join(here, "manifest.d", "not_applicable.json")))
na = [x for x in na if x["property_id"] not in claimed]
man = {
 "version": 1,
 "setup_cmd": "./setup.sh",
 "hooks": {
  "guard": "NESSAI_VERIF",
  "enable": "no source hooks exist: all instrumentation is harness-side (subclassing, wrapping after import, sys.settrace, wrapped os/shutil/open in crash-injection children); checks import /repo in place with PYTHONPATH=/repo",
  "baseline_off_cmd": "cd /repo && /venv/bin/python -m pytest -ra -q -p no:cacheprovider --timeout=900 --continue-on-collection-errors",
  "source_commits": [],
  "add_only": True
 },
 "engines": [{"name": "coq", "path": "coq/", "serves_properties": sorted(claimed),
              "kind_free_text": "Coq 8.16.1 development (Model/ Proofs/ Props/ Run/), translators in translator/, correspondence drivers in harness/"}],
 "checks": checks,
 "not_applicable": na,
 "notes": "Technique: machine-checked proof in Coq; see DESIGN.md. known_findings.json lists recorded defects."
}
json.dump(man, open(os.path.join(here, "MANIFEST.json"), "w"), indent=1)
print("claimed:", sorted(claimed), "not applicable:", [x["property_id"] for x in na])
