"""C12 translator: per class, the attribute universe, what __getstate__ drops / overwrites /
carries, what __setstate__ restores, what the resume* methods re-attach or re-derive, and the
counter effects of resume_from_pickled_sampler - from /repo's current source (Python ast)."""
import ast

from pyast import Declined, dotted, find_class, parse, unparse

CLASSES = {
    "BaseNestedSampler": "nessai/samplers/base.py",
    "NestedSampler": "nessai/samplers/nestedsampler.py",
    "ImportanceNestedSampler": "nessai/samplers/importancesampler.py",
    "OrderedSamples": "nessai/samplers/importancesampler.py",
    "Proposal": "nessai/proposal/base.py",
    "AnalyticProposal": "nessai/proposal/analytic.py",
    "RejectionProposal": "nessai/proposal/rejection.py",
    "FlowProposal": "nessai/proposal/flowproposal.py",
    "AugmentedFlowProposal": "nessai/proposal/augmented.py",
    "ImportanceFlowProposal": "nessai/proposal/importance.py",
    "FlowModel": "nessai/flowmodel/base.py",
    "ImportanceFlowModel": "nessai/flowmodel/importance.py",
    "Model": "nessai/model.py",
}
_cache = {}


def cls_node(name):
    if name not in _cache:
        mod, _ = parse(CLASSES[name])
        _cache[name] = find_class(mod, name)
    return _cache[name]


def mro(name):
    """Linearised nessai bases (single inheritance in practice)."""
    out, todo = [], [name]
    while todo:
        n = todo.pop(0)
        if n in out or n not in CLASSES:
            continue
        out.append(n)
        for b in cls_node(n).bases:
            d = dotted(b)
            if d:
                todo.append(d.split(".")[-1])
    return out


def method(name, meth):
    """(defining class, FunctionDef) of the first class in the MRO that defines meth, else None."""
    for c in mro(name):
        for n in cls_node(c).body:
            if isinstance(n, ast.FunctionDef) and n.name == meth:
                return c, n
    return None


def own_fields(cnode):
    out = set()
    for n in cnode.body:
        if isinstance(n, ast.Assign):
            for t in n.targets:
                if isinstance(t, ast.Name):
                    out.add(t.id)
        elif isinstance(n, ast.AnnAssign) and isinstance(n.target, ast.Name):
            out.add(n.target.id)
    for n in ast.walk(cnode):
        tgts = []
        if isinstance(n, ast.Assign):
            tgts = n.targets
        elif isinstance(n, (ast.AugAssign, ast.AnnAssign)):
            tgts = [n.target]
        for t in tgts:
            for e in (t.elts if isinstance(t, (ast.Tuple, ast.List)) else [t]):
                if isinstance(e, ast.Attribute) and isinstance(e.value, ast.Name) and e.value.id == "self":
                    out.add(e.attr)
    return out


def universe(name):
    out = set()
    for c in mro(name):
        out |= own_fields(cls_node(c))
    return out


def _key(node):
    if isinstance(node, ast.Constant) and isinstance(node.value, str):
        return node.value
    raise Declined(f"non-literal key {unparse(node)}")


def getstate(name):
    """-> dict(excl, over, carried, defined_in)"""
    m = method(name, "__getstate__")
    if m is None:
        return {"excl": [], "over": [], "carried": [], "defined_in": None}
    owner, fn = m
    excl, over, carried = [], [], []
    state_names = set()
    for n in ast.walk(fn):
        if isinstance(n, ast.Assign) and len(n.targets) == 1 and isinstance(n.targets[0], ast.Name):
            v = n.value
            tn = n.targets[0].id
            if isinstance(v, ast.Set):
                excl += [_key(e) for e in v.elts]
            elif isinstance(v, ast.DictComp) or (isinstance(v, ast.Call) and unparse(v) in
                                                 ("self.__dict__.copy()", "d.copy()", "dict(self.__dict__)")):
                state_names.add(tn)
        elif isinstance(n, ast.Assign) and len(n.targets) == 1 and isinstance(n.targets[0], ast.Subscript):
            t = n.targets[0]
            if isinstance(t.value, ast.Name) and t.value.id in ("state",):
                over.append(_key(t.slice))
        elif isinstance(n, ast.Delete):
            for t in n.targets:
                if isinstance(t, ast.Subscript) and isinstance(t.value, ast.Name) and t.value.id == "state":
                    excl.append(_key(t.slice))
                else:
                    raise Declined(f"{owner}.__getstate__: del of {unparse(t)}")
        elif isinstance(n, ast.Call) and isinstance(n.func, ast.Attribute) and isinstance(n.func.value, ast.Name) \
                and n.func.value.id == "state":
            if n.func.attr == "pop" and n.args:
                excl.append(_key(n.args[0]))
            elif n.func.attr in ("get", "keys", "items", "copy"):
                pass
            else:
                raise Declined(f"{owner}.__getstate__: state.{n.func.attr}(...) has no rule")
        elif isinstance(n, ast.Return):
            v = n.value
            if isinstance(v, ast.Name) and v.id == "state":
                pass
            elif isinstance(v, ast.Tuple) and isinstance(v.elts[0], ast.Name) and v.elts[0].id == "state":
                for e in v.elts[1:]:
                    if isinstance(e, ast.Attribute) and isinstance(e.value, ast.Name) and e.value.id == "self":
                        carried.append(e.attr)
                    else:
                        raise Declined(f"{owner}.__getstate__ returns {unparse(e)}")
            else:
                raise Declined(f"{owner}.__getstate__ returns {unparse(v) if v else None}")
    # the dict comprehension must be the `d.keys() - exclude` form
    for n in ast.walk(fn):
        if isinstance(n, ast.DictComp):
            if unparse(n) != "{k: d[k] for k in d.keys() - exclude}":
                raise Declined(f"{owner}.__getstate__: comprehension {unparse(n)}")
    dedup = lambda l: sorted(set(l))
    res = {"excl": dedup(excl), "over": dedup(over), "carried": carried, "defined_in": owner}
    # carried objects must be put back by __setstate__ in the same order
    if carried:
        sm = method(name, "__setstate__")
        if sm is None:
            raise Declined(f"{name}: __getstate__ returns a tuple but there is no __setstate__")
        back = {}
        for n in ast.walk(sm[1]):
            if isinstance(n, ast.Assign) and len(n.targets) == 1 and isinstance(n.targets[0], ast.Attribute) \
                    and isinstance(n.targets[0].value, ast.Name) and n.targets[0].value.id == "self" \
                    and isinstance(n.value, ast.Subscript) and isinstance(n.value.slice, ast.Constant):
                back[n.targets[0].attr] = n.value.slice.value
        res["carried"] = [c for i, c in enumerate(carried) if back.get(c) == i + 1]
        if "self.__dict__.update(state[0])" not in unparse(sm[1]):
            raise Declined(f"{name}.__setstate__ does not restore the dict")
    return res


def saved_log_q_variant():
    """OrderedSamples with save_log_q=True: is the density table itself what goes into the pickle?
    Returns the skeleton in which the `if self.save_log_q:` branch of __getstate__ is taken."""
    owner, fn = method("OrderedSamples", "__getstate__")
    kept_when_saved = False
    for n in ast.walk(fn):
        if isinstance(n, ast.If) and unparse(n.test) in ("self.save_log_q", "d['save_log_q']", "self.save_log_q is True"):
            body = [unparse(b) for b in n.body]
            if body == ["state['log_q'] = self.log_q"] or body == ["state['log_q'] = d['log_q']"]:
                kept_when_saved = True
    term, info = skeleton("OrderedSamples")
    if kept_when_saved:
        # the override writes the attribute's own value: as good as not dropping it
        excl = [x for x in info["excl"] if x != "log_q"]
        over = [x for x in info["over"] if x != "log_q"]
    else:
        excl, over = info["excl"], info["over"]
    def cl(xs):
        return "[" + "; ".join('"' + x + '"' for x in xs) + "]"
    return (f"{{| sk_fields := {cl(info['fields'])}; sk_excl := {cl(excl)}; sk_over := {cl(over)}; "
            f"sk_carried := []; sk_reattach := {cl(info['reattach'])}; sk_rederive := [] |}}")


def _assigned_attrs(fn, roots, skip_if_mentions=None):
    """attribute names assigned on one of the root names (self / sampler / obj), at any depth of
    control flow except under an `if` whose test mentions skip_if_mentions."""
    out = []

    def walk(stmts):
        for s in stmts:
            if isinstance(s, ast.If) and unparse(s.test) == "self.initialised" \
                    and any(isinstance(b, ast.Return) for b in s.body):
                return      # `if self.initialised: return`: nothing below runs on resume (the flag is pickled)
            if isinstance(s, ast.If):
                if skip_if_mentions and skip_if_mentions in unparse(s.test):
                    walk(s.orelse)
                    continue
                walk(s.body)
                walk(s.orelse)
                continue
            if isinstance(s, (ast.For, ast.While, ast.With, ast.Try)):
                for part in ("body", "orelse", "finalbody"):
                    walk(getattr(s, part, []) or [])
                for h in getattr(s, "handlers", []) or []:
                    walk(h.body)
                continue
            tgts = []
            if isinstance(s, ast.Assign):
                tgts = s.targets
            elif isinstance(s, (ast.AugAssign, ast.AnnAssign)):
                tgts = [s.target]
            for t in tgts:
                for e in (t.elts if isinstance(t, (ast.Tuple, ast.List)) else [t]):
                    if isinstance(e, ast.Attribute) and isinstance(e.value, ast.Name) and e.value.id in roots:
                        out.append(e.attr)
    walk(fn.body)
    return out


def reattached(name):
    """attributes the resume path of this class sets from the resuming process."""
    out = []
    if name in ("NestedSampler", "ImportanceNestedSampler", "BaseNestedSampler"):
        for c in mro(name):
            for n in cls_node(c).body:
                if isinstance(n, ast.FunctionDef) and n.name == "resume_from_pickled_sampler":
                    out += _assigned_attrs(n, {"sampler", "obj"})
    else:
        m = method(name, "resume")
        if m is not None:
            out += _assigned_attrs(m[1], {"self"})
            # resume of a parent class reached through super().resume(...)
            for c in mro(m[0])[1:]:
                for n in cls_node(c).body:
                    if isinstance(n, ast.FunctionDef) and n.name == "resume":
                        out += _assigned_attrs(n, {"self"})
            # self.initialise(...) re-creates the flow
            if any(isinstance(n, ast.Call) and dotted(n.func) == "self.initialise" for n in ast.walk(m[1])):
                im = method(name, "initialise")
                if im is not None:
                    out += _assigned_attrs(im[1], {"self"}, skip_if_mentions="resumed")
    return sorted(set(out))


def rederived(name):
    out = []
    if name == "OrderedSamples":
        m = method("ImportanceNestedSampler", "resume_from_pickled_sampler")
        if m:
            src = unparse(m[1])
            for attr in ("training_samples", "iid_samples"):
                if f"obj.{attr}.log_q) = obj.proposal.compute_meta_proposal_samples(obj.{attr}.samples)" in src \
                        or f"obj.{attr}.log_q = obj.proposal.compute_meta_proposal_samples(obj.{attr}.samples)" in src:
                    out.append("log_q")
            if out.count("log_q") != 2:
                out = []
    if name in ("FlowProposal", "AugmentedFlowProposal"):
        m = method("NestedSampler", "check_resume")
        if m and "self._flow_proposal.populated = True" in unparse(m[1]):
            out.append("populated")
    return sorted(set(out))


def skeleton(name):
    gs = getstate(name)
    fields = sorted(universe(name) | set(gs["over"]))
    def cl(xs):
        return "[" + "; ".join('"' + x + '"' for x in xs) + "]"
    term = (f"{{| sk_fields := {cl(fields)}; sk_excl := {cl(gs['excl'])}; sk_over := {cl(gs['over'])}; "
            f"sk_carried := {cl(gs['carried'])}; sk_reattach := {cl(reattached(name))}; "
            f"sk_rederive := {cl(rederived(name))} |}}")
    return term, {"fields": fields, **gs, "reattach": reattached(name), "rederive": rederived(name)}


def counter_effects():
    """What resume_from_pickled_sampler does to the model's evaluation count and time."""
    m = method("BaseNestedSampler", "resume_from_pickled_sampler")
    if m is None:
        raise Declined("BaseNestedSampler.resume_from_pickled_sampler not found")
    effs = {"likelihood_evaluations": [], "likelihood_evaluation_time": []}
    for n in ast.walk(m[1]):
        if isinstance(n, (ast.AugAssign, ast.Assign)):
            t = n.target if isinstance(n, ast.AugAssign) else n.targets[0]
            d = dotted(t)
            for key in effs:
                if d == f"model.{key}":
                    saved = f"sampler._previous_{key}"
                    if saved not in unparse(n.value):
                        raise Declined(f"model.{key} updated from {unparse(n.value)}")
                    if isinstance(n, ast.AugAssign) and isinstance(n.op, ast.Add):
                        effs[key].append("CAddSaved")
                    elif isinstance(n, ast.Assign):
                        effs[key].append("CSetSaved")
                    else:
                        raise Declined(f"model.{key}: operator {type(n.op).__name__}")
    # the value saved must be the model's own count at pickling time
    for cname in ("BaseNestedSampler", "ImportanceNestedSampler"):
        g = method(cname, "__getstate__")
        src = unparse(g[1])
        for key in effs:
            if f"state['_previous_{key}'] = d['model'].{key}" not in src:
                raise Declined(f"{cname}.__getstate__ does not save model.{key}")
    return {k: "[" + "; ".join(v) + "]" for k, v in effs.items()}


def loop_prologue():
    """What NestedSampler.nested_sampling_loop does between entry and the while loop, as far as the pool flag
    is concerned: the order of check_resume() and of calls that may write a checkpoint.  -> Coq list peff."""
    m = method("NestedSampler", "nested_sampling_loop")
    if m is None:
        raise Declined("NestedSampler.nested_sampling_loop not found")
    effs = []
    seen_while = False

    def calls_in(node):
        # source order
        out = []
        for n in ast.walk(node):
            if isinstance(n, ast.Call):
                out.append(n)
        return sorted(out, key=lambda c: (c.lineno, c.col_offset))

    def stmts(body):
        nonlocal seen_while
        for st in body:
            if seen_while:
                return
            if isinstance(st, ast.While):
                seen_while = True
                return
            if isinstance(st, ast.If):
                if any(isinstance(b, ast.Return) for b in st.body) and not st.orelse:
                    continue            # a path that leaves before the loop (finished run, prior sampling)
                stmts(st.body)
                stmts(st.orelse)
                continue
            if isinstance(st, (ast.For, ast.With, ast.Try)):
                raise Declined(f"loop prologue contains a {type(st).__name__} statement")
            for c in calls_in(st):
                d = dotted(c.func)
                if d == "self.check_resume":
                    effs.append("PCheckResume")
                elif d in ("self.update_state", "self.checkpoint"):
                    effs.append("PUpdateState")
                elif d and d.startswith("self.") and d not in ("self.initialise", "self.close_pool", "self.finalise"):
                    effs.append("PSkip")
    stmts(m[1].body)
    if not seen_while:
        raise Declined("nested_sampling_loop has no while loop")
    if "PCheckResume" not in effs:
        raise Declined("nested_sampling_loop does not call check_resume before the loop")
    return "[" + "; ".join(effs) + "]"


def log_prob_plan():
    """How ImportanceFlowModel.log_prob_all / log_prob_ith split the rows they evaluate.  -> Coq term of type bplan."""
    mod, _ = parse(CLASSES["ImportanceFlowModel"])
    consts = {n.targets[0].id: n.value.value for n in mod.body
              if isinstance(n, ast.Assign) and len(n.targets) == 1 and isinstance(n.targets[0], ast.Name)
              and isinstance(n.value, ast.Constant) and isinstance(n.value.value, int)}
    plans = []
    for meth in ("log_prob_all", "log_prob_ith"):
        m = method("ImportanceFlowModel", meth)
        if m is None:
            raise Declined(f"ImportanceFlowModel.{meth} not found")
        fn = m[1]
        src = unparse(fn)
        sliced = any(isinstance(n, ast.Call) and dotted(n.func) == "slice" for n in ast.walk(fn)) or \
            any(isinstance(n, ast.Subscript) and isinstance(n.slice, ast.Slice) and (n.slice.lower or n.slice.upper)
                and not unparse(n).startswith("self.models") for n in ast.walk(fn))
        splits = any(isinstance(n, ast.Call) and (dotted(n.func) or "").split(".")[-1] in
                     ("split", "array_split", "chunk", "tensor_split", "DataLoader") for n in ast.walk(fn))
        if splits:
            raise Declined(f"{meth} splits its input with a library call: no rule")
        if not sliced:
            plans.append("NoBatch")
            continue
        # n_batches = <expr>; for j in range(n_batches): slice(j * B, (j + 1) * B)
        nb = [n for n in ast.walk(fn) if isinstance(n, ast.Assign) and len(n.targets) == 1
              and isinstance(n.targets[0], ast.Name) and n.targets[0].id in ("n_batches", "n_batch", "nb")]
        if len(nb) != 1:
            raise Declined(f"{meth} slices its input but the number of batches has no rule")
        e = unparse(nb[0].value)
        import re as _re
        def size(tok):
            return consts.get(tok, int(tok) if tok.isdigit() else None)
        mm = _re.fullmatch(r"max\((\w+) // (\w+), 1\)", e) or _re.fullmatch(r"(\w+) // (\w+)", e)
        if mm and size(mm.group(2)):
            plans.append(f"(FloorBatches {size(mm.group(2))})")
            continue
        mm = _re.fullmatch(r"\((\w+) \+ (\w+) - 1\) // (\w+)", e) or _re.fullmatch(r"-\(-(\w+) // (\w+)\)", e) \
            or _re.fullmatch(r"(?:math|np)\.ceil\((\w+) / (\w+)\)", e) or _re.fullmatch(r"int\((?:math|np)\.ceil\((\w+) / (\w+)\)\)", e)
        if mm and size(mm.groups()[-1]):
            plans.append(f"(CeilBatches {size(mm.groups()[-1])})")
            continue
        raise Declined(f"{meth}: number of batches `{e}` has no rule")
    worst = [p for p in plans if p != "NoBatch"]
    return (worst[0] if worst else "NoBatch"), plans


SEEDERS = ("configure_random_seed", "seed", "manual_seed", "manual_seed_all", "default_rng", "set_state", "set_rng_state",
           "seed_everything")


def resume_seeding():
    """Does the resume path touch the random number generators?  Every function a resume goes through is searched for
    calls that seed / restore a generator.  -> (Coq term of type list seff, list of sites)."""
    sites = []
    todo = []
    for cname in ("BaseNestedSampler", "NestedSampler", "ImportanceNestedSampler"):
        for meth in ("resume", "resume_from_pickled_sampler", "check_resume", "__setstate__"):
            todo.append((cname, meth))
    for cname in ("Proposal", "AnalyticProposal", "RejectionProposal", "FlowProposal", "AugmentedFlowProposal",
                  "ImportanceFlowProposal", "FlowModel", "ImportanceFlowModel", "OrderedSamples", "Model"):
        for meth in ("resume", "__setstate__"):
            todo.append((cname, meth))
    seen = set()
    for cname, meth in todo:
        for n in cls_node(cname).body:
            if isinstance(n, ast.FunctionDef) and n.name == meth and (cname, meth) not in seen:
                seen.add((cname, meth))
                for c in ast.walk(n):
                    if isinstance(c, ast.Call):
                        d = dotted(c.func) or (c.func.attr if isinstance(c.func, ast.Attribute) else "")
                        if d.split(".")[-1] in SEEDERS and d.split(".")[-1] != "seed" or \
                                (d.split(".")[-1] == "seed" and ("random" in d or d == "seed")):
                            sites.append(f"{cname}.{meth}: {unparse(c)}")
    mod, _ = parse("nessai/flowsampler.py")
    fs = find_class(mod, "FlowSampler")
    for n in fs.body:
        if isinstance(n, ast.FunctionDef) and n.name in ("_resume_from_file", "_resume_from_data", "check_resume"):
            for c in ast.walk(n):
                if isinstance(c, ast.Call):
                    d = dotted(c.func) or ""
                    if d.split(".")[-1] in SEEDERS and (d.split(".")[-1] != "seed" or "random" in d):
                        sites.append(f"FlowSampler.{n.name}: {unparse(c)}")
    return "[" + "; ".join("SReseed" for _ in sites) + "]", sites


TARGETS = [("NestedSampler", "cls_sampler"), ("ImportanceNestedSampler", "cls_ins_sampler"),
           ("FlowProposal", "cls_proposal"), ("AugmentedFlowProposal", "cls_proposal"),
           ("RejectionProposal", "cls_proposal"), ("ImportanceFlowProposal", "cls_ins_proposal"),
           ("ImportanceFlowModel", "cls_flowmodel"), ("OrderedSamples", "cls_samples"), ("Model", "cls_model")]

if __name__ == "__main__":
    import json
    for c, _ in TARGETS:
        try:
            t, info = skeleton(c)
            print(c, json.dumps({k: v for k, v in info.items() if k != "fields"}), len(info["fields"]))
        except Declined as e:
            print(c, "declined:", e)
    print(counter_effects())
    print(loop_prologue())
    print(log_prob_plan())
    print(resume_seeding())
