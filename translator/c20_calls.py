"""C20 translator (tie A): the CALL TABLE and ATTRIBUTE TABLE of the whole nessai package.

Reads /repo/nessai/**/*.py with `ast` (never imports nessai) and emits

  * sigs    : for every callee that can be resolved *by name inside nessai* its signature
              (positional-or-keyword names without self/cls, keyword-only names, required names,
              *args?, **kwargs?)
  * calls   : for every call whose callee resolves: caller, candidate callee ids (one per possible
              dispatch target: the definition found in the MRO and every override in a subclass),
              number of explicit positional arguments, explicit keyword names, *x? **x?
  * classes : for every nessai class the names assigned anywhere in it (self.X = ..., class level
              names, methods, properties, nested classes) and the classes of its family
              (ancestors, descendants and their ancestors); closed = every base is a nessai class
              or a known attribute-free external base, and no __getattr__/setattr(self, <expr>)
  * reads   : every `self.attr` / `self.a.attr` / `v.attr` read whose receiver class is known

Resolution rules are conservative: whenever a name can be rebound (instance attribute shadowing a
method, several candidate types, unknown decorator, dataclass, external base class before the
definition is found ...) the call / read is *not* emitted (counted as unresolved).
Nothing here decides the property: the boolean checker `calls_well_formed` in
coq/Model/C20_Options.v does, on the emitted value.
"""
import ast
import os
import sys

from pyast import REPO, Declined, dotted

# external bases that contribute no attribute a nessai method reads through `self`
ATTR_FREE_BASES = {"object", "ABC", "abc.ABC", "Exception", "RuntimeError", "ValueError", "Protocol", "Generic"}
TRANSPARENT_DECORATORS = {"staticmethod", "classmethod", "abstractmethod", "abc.abstractmethod", "nessai_style",
                          "wraps", "functools.wraps"}
# builtins that wrap a call to the first argument with the remaining ones: not modelled
PKG = "nessai"


class Sig:
    def __init__(self, key, fn, drop_first):
        a = fn.args
        pos = [x.arg for x in a.posonlyargs + a.args]
        npo = len(a.posonlyargs)
        ndef = len(a.defaults)
        req = pos[: len(pos) - ndef] if ndef else list(pos)
        if drop_first and pos:
            first = pos[0]
            pos = pos[1:]
            req = [r for r in req if r != first]
            npo = max(0, npo - 1)
        self.key = key
        self.pos = pos
        self.nposonly = npo
        self.kwonly = [x.arg for x in a.kwonlyargs]
        req_kw = [x.arg for x, d in zip(a.kwonlyargs, a.kw_defaults) if d is None]
        self.required = req + req_kw
        self.vararg = a.vararg is not None
        self.varkw = a.kwarg is not None
        self.file = None
        self.line = fn.lineno

    def as_tuple(self):
        return (self.key, self.pos, self.kwonly, self.required, self.vararg, self.varkw, self.nposonly)


class ClassInfo:
    def __init__(self, mod, node):
        self.mod = mod
        self.node = node
        self.name = node.name
        self.qual = f"{mod.name}:{node.name}"
        self.base_exprs = [dotted(b) or ast.unparse(b) for b in node.bases]
        self.bases = []          # resolved nessai ClassInfo
        self.ext_bases = []      # names of bases outside nessai
        self.methods = {}        # name -> FunctionDef (direct)
        self.assigned = set()    # names bound on the class or on self in any method
        self.inst_assigned = set()   # names bound via self.X = ... (can shadow a method)
        self.dynamic = False
        self.decorated = bool(node.decorator_list)
        self.subclasses = []


class ModInfo:
    def __init__(self, name, path, tree, is_pkg):
        self.name = name
        self.path = path
        self.tree = tree
        self.is_pkg = is_pkg
        self.defs = {}       # top-level name -> ("func", FunctionDef) | ("class", ClassInfo)
        self.imports = {}    # top-level name -> ("mod", modname) | ("obj", modname, objname)


def rel_module(mod, level, module):
    """absolute module name of `from <level dots><module> import ...` inside mod"""
    if level == 0:
        return module
    parts = mod.name.split(".")
    if not mod.is_pkg:
        parts = parts[:-1]
    parts = parts[: len(parts) - (level - 1)] if level > 1 else parts
    return ".".join(parts + ([module] if module else []))


def import_bindings(mod, stmts):
    out = {}
    for s in stmts:
        if isinstance(s, ast.ImportFrom):
            base = rel_module(mod, s.level, s.module)
            if base is None or not base.startswith(PKG):
                for al in s.names:
                    out[al.asname or al.name] = ("ext", f"{base}.{al.name}")
                continue
            for al in s.names:
                out[al.asname or al.name] = ("obj", base, al.name)
        elif isinstance(s, ast.Import):
            for al in s.names:
                if al.name.startswith(PKG):
                    if al.asname:
                        out[al.asname] = ("mod", al.name)
                    else:
                        out[al.name.split(".")[0]] = ("mod", al.name.split(".")[0])
                else:
                    out[al.asname or al.name.split(".")[0]] = ("ext", al.name)
    return out


class Package:
    def __init__(self, root=None):
        self.root = root or os.path.join(REPO, PKG)
        self.mods = {}
        self.classes = []
        self._attr_type_cache = {}
        self._family_cache = {}
        self._mro_cache = {}
        self._closed_cache = {}
        self.load()
        self.link()

    # ---- loading -------------------------------------------------------------------------------
    def load(self):
        for dirpath, dirnames, files in os.walk(self.root):
            dirnames[:] = sorted(d for d in dirnames if d != "__pycache__")
            for f in sorted(files):
                if not f.endswith(".py"):
                    continue
                path = os.path.join(dirpath, f)
                rel = os.path.relpath(path, os.path.dirname(self.root))[:-3].split(os.sep)
                is_pkg = rel[-1] == "__init__"
                if is_pkg:
                    rel = rel[:-1]
                name = ".".join(rel)
                with open(path) as fh:
                    src = fh.read()
                try:
                    tree = ast.parse(src, filename=path)
                except SyntaxError as e:
                    raise Declined(f"cannot parse {path}: {e}")
                m = ModInfo(name, os.path.relpath(path, os.path.dirname(self.root)), tree, is_pkg)
                self.mods[name] = m
        for m in self.mods.values():
            body = list(m.tree.body)
            # names bound inside top-level try/if blocks are treated like top-level ones
            flat = []
            for s in body:
                if isinstance(s, (ast.Try, ast.If, ast.With)):
                    for sub in ast.walk(s):
                        if isinstance(sub, (ast.Import, ast.ImportFrom, ast.FunctionDef, ast.ClassDef)) and sub is not s:
                            flat.append(sub)
                else:
                    flat.append(s)
            m.imports = import_bindings(m, [s for s in flat if isinstance(s, (ast.Import, ast.ImportFrom))])
            for s in flat:
                if isinstance(s, ast.FunctionDef):
                    m.defs[s.name] = ("func", s)
                elif isinstance(s, ast.ClassDef):
                    ci = ClassInfo(m, s)
                    m.defs[s.name] = ("class", ci)
                    self.classes.append(ci)
            m.rebound = set()
            for s in flat:
                if isinstance(s, (ast.Assign, ast.AnnAssign, ast.AugAssign)):
                    tg = s.targets if isinstance(s, ast.Assign) else [s.target]
                    for t in tg:
                        for n in ast.walk(t):
                            if isinstance(n, ast.Name):
                                m.rebound.add(n.id)

    def lookup(self, modname, name, depth=0):
        """what does `name` mean at the top level of module modname: ("func", fn, mod) / ("class", ci) /
        ("mod", modname) / None"""
        if depth > 8:
            return None
        m = self.mods.get(modname)
        if m is None:
            return None
        if name in m.rebound:
            return None
        if name in m.defs:
            k, v = m.defs[name]
            return ("func", v, m) if k == "func" else ("class", v)
        if name in m.imports:
            return self.follow(m.imports[name], depth + 1)
        # a sub-module of a package
        if m.is_pkg and f"{modname}.{name}" in self.mods:
            return ("mod", f"{modname}.{name}")
        return None

    def follow(self, binding, depth=0):
        if binding[0] == "mod":
            return ("mod", binding[1]) if binding[1] in self.mods else None
        if binding[0] == "obj":
            _, base, obj = binding
            if f"{base}.{obj}" in self.mods and (base not in self.mods or obj not in self.mods[base].defs):
                r = self.lookup(base, obj, depth) if base in self.mods else None
                return r or ("mod", f"{base}.{obj}")
            return self.lookup(base, obj, depth)
        return None

    # ---- class tables --------------------------------------------------------------------------
    def link(self):
        for ci in self.classes:
            for b in ci.node.bases:
                r = self.resolve_expr_static(ci.mod, {}, b)
                if r and r[0] == "class":
                    ci.bases.append(r[1])
                    r[1].subclasses.append(ci)
                else:
                    ci.ext_bases.append(dotted(b) or ast.unparse(b))
            for kw in ci.node.keywords:
                if kw.arg == "metaclass" and (dotted(kw.value) or "") not in ("ABCMeta", "abc.ABCMeta"):
                    ci.dynamic = True
            self.scan_class(ci)

    def scan_class(self, ci):
        for s in ci.node.body:
            if isinstance(s, (ast.FunctionDef, ast.AsyncFunctionDef)):
                ci.methods.setdefault(s.name, s)
                ci.assigned.add(s.name)
                if s.name in ("__getattr__", "__getattribute__"):
                    ci.dynamic = True
            elif isinstance(s, ast.ClassDef):
                ci.assigned.add(s.name)
            elif isinstance(s, (ast.Assign, ast.AnnAssign, ast.AugAssign)):
                tg = s.targets if isinstance(s, ast.Assign) else [s.target]
                for t in tg:
                    for n in ast.walk(t):
                        if isinstance(n, ast.Name):
                            ci.assigned.add(n.id)
            elif isinstance(s, (ast.If, ast.Try, ast.With, ast.For)):
                for n in ast.walk(s):
                    if isinstance(n, ast.Name) and isinstance(n.ctx, ast.Store):
                        ci.assigned.add(n.id)
                    if isinstance(n, (ast.FunctionDef, ast.ClassDef)):
                        ci.assigned.add(n.name)
        ci.functions = [s for s in ast.walk(ci.node) if isinstance(s, (ast.FunctionDef, ast.AsyncFunctionDef))]
        ci.fn_self_stores = {}
        for fn in ci.functions:
            me = self_name(fn)
            stores = ci.fn_self_stores.setdefault(id(fn), set())
            for n in ast.walk(fn):
                if isinstance(n, ast.Attribute) and isinstance(n.ctx, (ast.Store, ast.Del)) and \
                        isinstance(n.value, ast.Name) and me and n.value.id == me:
                    ci.assigned.add(n.attr)
                    ci.inst_assigned.add(n.attr)
                    stores.add(n.attr)
                # the dictionary returned by __getstate__ becomes the instance __dict__ on resume:
                # state["name"] = ... binds an attribute
                if fn.name == "__getstate__" and isinstance(n, ast.Subscript) and isinstance(n.ctx, ast.Store) \
                        and isinstance(n.slice, ast.Constant) and isinstance(n.slice.value, str):
                    ci.assigned.add(n.slice.value)
                    ci.inst_assigned.add(n.slice.value)
                if isinstance(n, ast.Call) and dotted(n.func) == "setattr" and len(n.args) >= 2 and \
                        isinstance(n.args[0], ast.Name) and me and n.args[0].id == me:
                    if isinstance(n.args[1], ast.Constant) and isinstance(n.args[1].value, str):
                        ci.assigned.add(n.args[1].value)
                        ci.inst_assigned.add(n.args[1].value)
                    else:
                        ci.dynamic = True
                if isinstance(n, ast.Call) and dotted(n.func) in (f"{me}.__dict__.update", f"{me}.__setattr__"):
                    # __setstate__-style restoration re-creates attributes that were assigned before
                    # pickling; a non-literal __setattr__ makes the class dynamic
                    if dotted(n.func).endswith("__setattr__"):
                        ci.dynamic = True

    def mro(self, ci, seen=None):
        """nessai part of the MRO (DFS, left to right) and whether an external attribute-bearing base
        precedes / is contained"""
        out, seen = [], seen if seen is not None else set()
        if ci.qual in seen:
            return out
        seen.add(ci.qual)
        out.append(ci)
        for b in ci.bases:
            out += self.mro(b, seen)
        return out

    def descendants(self, ci, seen=None):
        seen = seen if seen is not None else set()
        out = []
        for s in ci.subclasses:
            if s.qual not in seen:
                seen.add(s.qual)
                out.append(s)
                out += self.descendants(s, seen)
        return out

    def family(self, ci):
        if ci.qual not in self._family_cache:
            self._family_cache[ci.qual] = self._family(ci)
        return self._family_cache[ci.qual]

    def _family(self, ci):
        fam, seen = [], set()
        for c in [ci] + self.descendants(ci):
            for a in self.mro(c):
                if a.qual not in seen:
                    seen.add(a.qual)
                    fam.append(a)
        return fam

    def closed(self, ci):
        if ci.qual not in self._closed_cache:
            self._closed_cache[ci.qual] = self._closed(ci)
        return self._closed_cache[ci.qual]

    def _closed(self, ci):
        """every attribute readable through self is bound inside nessai"""
        for c in self.family(ci):
            if c.dynamic:
                return False
            if any(b not in ATTR_FREE_BASES for b in c.ext_bases):
                return False
            if any((dotted(d) or dotted(getattr(d, "func", None)) or "") in ("dataclass", "dataclasses.dataclass")
                   for d in c.node.decorator_list):
                # dataclass fields are class-level annotated names: already in `assigned`
                pass
        return True

    # ---- expression resolution -----------------------------------------------------------------
    def resolve_expr_static(self, mod, local_imports, e):
        """Name / dotted module path -> ("func", fn, mod) | ("class", ci) | ("mod", name) | None"""
        if isinstance(e, ast.Name):
            if e.id in local_imports:
                return self.follow(local_imports[e.id])
            return self.lookup(mod.name, e.id)
        if isinstance(e, ast.Attribute):
            base = self.resolve_expr_static(mod, local_imports, e.value)
            if base and base[0] == "mod":
                return self.lookup(base[1], e.attr)
            return None
        return None

    def find_method(self, ci, name):
        """(defining class, FunctionDef) of ci.name through the nessai MRO; None when an external base
        could define it first or the name is rebound on instances"""
        for c in self.family(ci):
            if name in c.inst_assigned:
                return None
        for c in self.mro(ci):
            if name in c.methods:
                return c, c.methods[name]
            if name in c.assigned:
                return None          # a class-level non-function binding
            if any(b not in ATTR_FREE_BASES for b in c.ext_bases):
                return None
        return None

    def method_targets(self, ci, name):
        """all definitions `obj.name(...)` can dispatch to when obj is an instance of ci or a subclass"""
        first = self.find_method(ci, name)
        if first is None:
            return None
        out = [first]
        for d in self.descendants(ci):
            if name in d.methods:
                out.append((d, d.methods[name]))
        return out

    def attr_type(self, ci, attr, depth=0):
        """set of classes an instance attribute can hold, from every `self.attr = RHS` in the family;
        None = unknown"""
        if depth > 3:
            return None
        ck = (ci.qual, attr)
        if ck not in self._attr_type_cache:
            self._attr_type_cache[ck] = None          # recursion guard
            self._attr_type_cache[ck] = self._attr_type(ci, attr, depth)
        return self._attr_type_cache[ck]

    def _attr_type(self, ci, attr, depth):
        types, found = [], False
        for c in self.family(ci):
            for fn in c.functions:
                me = self_name(fn)
                if not me or fn.name == "__setstate__":
                    # __setstate__ puts back values that were held (and typed) before pickling
                    continue
                if attr not in c.fn_self_stores.get(id(fn), ()):
                    continue
                li = import_bindings(c.mod, [s for s in ast.walk(fn) if isinstance(s, (ast.Import, ast.ImportFrom))])
                for n in ast.walk(fn):
                    tgts = []
                    if isinstance(n, ast.Assign):
                        tgts, val = n.targets, n.value
                    elif isinstance(n, ast.AnnAssign) and n.value is not None:
                        tgts, val = [n.target], n.value
                    elif isinstance(n, ast.AugAssign):
                        tgts, val = [n.target], None
                    for t in tgts:
                        if isinstance(t, ast.Attribute) and isinstance(t.value, ast.Name) and t.value.id == me \
                                and t.attr == attr:
                            found = True
                            if val is None:
                                return None
                            if isinstance(val, ast.Constant) and val.value is None:
                                continue
                            ty = self.value_type(c, fn, li, val, depth)
                            if ty is None:
                                return None
                            types += ty
                        elif isinstance(t, (ast.Tuple, ast.List)) and any(
                                isinstance(x, ast.Attribute) and isinstance(x.value, ast.Name) and x.value.id == me
                                and x.attr == attr for x in ast.walk(t)):
                            return None
            if attr in c.assigned and attr not in c.inst_assigned:
                return None      # class-level binding / property
        if not found or not types:
            return None
        uniq = []
        for t in types:
            if t not in uniq:
                uniq.append(t)
        return uniq

    def value_type(self, ci, fn, li, val, depth=0):
        """classes of the value of an expression inside method fn of class ci (or None)"""
        if isinstance(val, ast.Call):
            r = self.resolve_expr_static(ci.mod, li, val.func) if ci is not None else None
            if r and r[0] == "class" and not self.is_shadowed(fn, val.func):
                return [r[1]]
            me = self_name(fn) if fn is not None else None
            if ci is not None and isinstance(val.func, ast.Attribute) and isinstance(val.func.value, ast.Name) \
                    and me and val.func.value.id == me:
                tg = self.method_targets(ci, val.func.attr)
                if not tg:
                    return None
                out = []
                for c, m in tg:
                    rt = self.return_type(c, m, depth + 1)
                    if rt is None:
                        return None
                    out += rt
                return out
        return None

    def return_type(self, ci, fn, depth):
        if depth > 3:
            return None
        li = import_bindings(ci.mod, [s for s in ast.walk(fn) if isinstance(s, (ast.Import, ast.ImportFrom))])
        rets = [n for n in ast.walk(fn) if isinstance(n, ast.Return)]
        if not rets:
            return None
        out = []
        for r in rets:
            v = r.value
            if isinstance(v, ast.Name):
                asg = [n for n in ast.walk(fn) if isinstance(n, ast.Assign) and len(n.targets) == 1
                       and isinstance(n.targets[0], ast.Name) and n.targets[0].id == v.id]
                if len(asg) != 1:
                    return None
                v = asg[0].value
            ty = self.value_type(ci, fn, li, v, depth) if v is not None else None
            if ty is None:
                return None
            out += ty
        return out

    @staticmethod
    def is_shadowed(fn, func_expr):
        """the head name of func_expr is a parameter or assigned local of fn"""
        if fn is None:
            return False
        head = func_expr
        while isinstance(head, ast.Attribute):
            head = head.value
        if not isinstance(head, ast.Name):
            return True
        a = fn.args
        params = {x.arg for x in a.posonlyargs + a.args + a.kwonlyargs}
        if a.vararg:
            params.add(a.vararg.arg)
        if a.kwarg:
            params.add(a.kwarg.arg)
        if head.id in params:
            return True
        for n in ast.walk(fn):
            if isinstance(n, ast.Name) and isinstance(n.ctx, ast.Store) and n.id == head.id:
                return True
            if isinstance(n, (ast.FunctionDef, ast.ClassDef)) and n is not fn and n.name == head.id:
                return True
        return False


def self_name(fn):
    """name of the instance parameter of a method (None for static/class methods and plain functions)"""
    decs = {dotted(d) or dotted(getattr(d, "func", None)) or "?" for d in fn.decorator_list}
    if "staticmethod" in decs or "classmethod" in decs:
        return None
    a = fn.args.posonlyargs + fn.args.args
    if a and a[0].arg == "self":
        return "self"
    return None


def decorators_ok(fn):
    for d in fn.decorator_list:
        name = dotted(d) or dotted(getattr(d, "func", None)) or "?"
        if name in TRANSPARENT_DECORATORS or name == "property" or name.endswith(".setter") or name.endswith(".getter"):
            continue
        return False
    return True


def is_property(fn):
    return any((dotted(d) or "") == "property" or (dotted(d) or "").endswith((".setter", ".getter", ".deleter"))
               for d in fn.decorator_list)


def guarded_names(fn, me):
    """attribute names of `me` that are read under a hasattr / getattr-default / try-except-AttributeError
    guard somewhere in fn: reads of these are not checked"""
    out = set()
    for n in ast.walk(fn):
        if isinstance(n, ast.Call) and dotted(n.func) == "hasattr" and len(n.args) == 2 and \
                isinstance(n.args[1], ast.Constant):
            out.add((ast.unparse(n.args[0]), n.args[1].value))
        if isinstance(n, ast.Try):
            handles = [dotted(h.type) or ast.unparse(h.type) if h.type is not None else "BaseException" for h in n.handlers]
            if any(("AttributeError" in h) or h in ("Exception", "BaseException") for h in handles):
                for b in n.body:
                    for a in ast.walk(b):
                        if isinstance(a, ast.Attribute):
                            out.add((ast.unparse(a.value), a.attr))
    return out


class Table:
    """the emitted value (plain Python data; harness/c20.py prints it as Coq)"""

    def __init__(self):
        self.sigs = []          # Sig
        self.sig_index = {}
        self.calls = []         # dict(caller, file, line, callee_ids, npos, star, kws, dstar, text)
        self.classes = []       # dict(name, assigned[list], family[list of names], closed)
        self.reads = []         # dict(cls, attr, file, line, func, via)
        self.stats = {"calls_seen": 0, "calls_resolved": 0, "reads_seen": 0, "reads_emitted": 0,
                      "reads_open_class": 0, "reads_guarded": 0}
        self.graph = {}         # caller key -> set of callee keys (resolved calls)
        self.mentions = {}      # function key -> identifiers it mentions (name-based over-approximation)
        self.ext_assigned = set()


def build(root=None):
    pkg = Package(root)
    tb = Table()
    names = {}
    for ci in pkg.classes:
        names.setdefault(ci.name, []).append(ci)

    def cname(ci):
        return ci.name if len(names[ci.name]) == 1 else ci.qual

    # attribute names assigned on something that is not `self` anywhere in the package
    # (obj.attr = ... in classmethods, helpers, other classes): counted as bound for every class
    for m in pkg.mods.values():
        for n in ast.walk(m.tree):
            if isinstance(n, ast.Attribute) and isinstance(n.ctx, ast.Store):
                if not (isinstance(n.value, ast.Name) and n.value.id == "self"):
                    tb.ext_assigned.add(n.attr)
            if isinstance(n, ast.Call) and dotted(n.func) == "setattr" and len(n.args) >= 2 and \
                    isinstance(n.args[1], ast.Constant) and isinstance(n.args[1].value, str):
                tb.ext_assigned.add(n.args[1].value)

    def sig_id(key, fn, drop_first, path, module=None, qual=None):
        if key not in tb.sig_index:
            s = Sig(key, fn, drop_first)
            s.file = path
            s.module, s.qual, s.drop_first = module, qual, drop_first
            tb.sig_index[key] = len(tb.sigs)
            tb.sigs.append(s)
        return tb.sig_index[key]

    def class_ctor(ci):
        """[(key, fn, drop_first, path)] for ClassName(...); None = unresolved"""
        if ci.decorated or ci.dynamic:
            return None
        for c in pkg.mro(ci):
            if "__new__" in c.methods:
                return None
            if "__init__" in c.methods:
                fn = c.methods["__init__"]
                if not decorators_ok(fn):
                    return None
                return [(f"{cname(c)}.__init__", fn, True, c.mod.path, c.mod.name, f"{c.name}.__init__")]
            if c.decorated:
                return None
            if any(b not in ("object", "ABC", "abc.ABC") for b in c.ext_bases):
                return None
        return None     # object.__init__: calls with arguments would fail, but nothing to extract

    def method_sigs(tg):
        out = []
        for c, fn in tg:
            if not decorators_ok(fn) or is_property(fn):
                return None
            decs = {dotted(d) or "?" for d in fn.decorator_list}
            drop = "staticmethod" not in decs
            out.append((f"{cname(c)}.{fn.name}", fn, drop, c.mod.path, c.mod.name, f"{c.name}.{fn.name}"))
        return out

    def func_sig(fn, mod):
        if not decorators_ok(fn):
            return None
        return [(f"{mod.name}.{fn.name}", fn, False, mod.path, mod.name, fn.name)]

    def local_types(ci, fn, li):
        """local variable -> [ClassInfo] for `v = self.attr` / `v = ClassName(...)`, single assignment"""
        me = self_name(fn)
        cnt, val = {}, {}
        a = fn.args
        params = {x.arg for x in a.posonlyargs + a.args + a.kwonlyargs}
        for n in ast.walk(fn):
            if isinstance(n, ast.Name) and isinstance(n.ctx, ast.Store):
                cnt[n.id] = cnt.get(n.id, 0) + 1
            if isinstance(n, ast.Assign) and len(n.targets) == 1 and isinstance(n.targets[0], ast.Name):
                val[n.targets[0].id] = n.value
        out = {}
        for v, e in val.items():
            if cnt.get(v) != 1 or v in params:
                continue
            if ci is not None and isinstance(e, ast.Attribute) and isinstance(e.value, ast.Name) and me \
                    and e.value.id == me:
                ty = pkg.attr_type(ci, e.attr)
            else:
                ty = pkg.value_type(ci, fn, li, e) if ci is not None else None
                if ty is None and isinstance(e, ast.Call):
                    r = pkg.resolve_expr_static(mod_of[fn], li, e.func)
                    if r and r[0] == "class" and not pkg.is_shadowed(fn, e.func):
                        ty = [r[1]]
            if ty:
                out[v] = ty
        return out

    mod_of = {}

    def receiver_types(ci, fn, lt, e):
        """classes of the object expression e (self / self.attr / local)"""
        me = self_name(fn)
        if isinstance(e, ast.Name):
            if me and e.id == me and ci is not None:
                return [ci], "self"
            if e.id in lt:
                return lt[e.id], "local"
            return None, None
        if isinstance(e, ast.Attribute) and isinstance(e.value, ast.Name) and me and e.value.id == me and ci is not None:
            ty = pkg.attr_type(ci, e.attr)
            if ty:
                return ty, "self." + e.attr
        return None, None

    def dispatch_targets(ci, caller_fn, name):
        """targets of self.name(...) inside caller_fn (a method of ci): only the classes whose instances
        really execute caller_fn (ci and the descendants that do not override it) are considered"""
        own = pkg.find_method(ci, caller_fn.name)
        if own is None or own[1] is not caller_fn:
            return pkg.method_targets(ci, name)
        out = []
        for d in [ci] + pkg.descendants(ci):
            fm = pkg.find_method(d, caller_fn.name)
            if fm is None or fm[1] is not caller_fn:
                continue
            t = pkg.find_method(d, name)
            if t is None:
                return None
            if t not in out:
                out.append(t)
        return out or None

    def visit_function(mod, ci, fn, outer_key):
        mod_of[fn] = mod
        key = (f"{cname(ci)}.{fn.name}" if ci is not None else f"{mod.name}.{fn.name}")
        tb.graph.setdefault(key, set())
        tb.mentions.setdefault(key, set()).update(
            {n.attr for n in ast.walk(fn) if isinstance(n, ast.Attribute)} |
            {n.id for n in ast.walk(fn) if isinstance(n, ast.Name)})
        li = import_bindings(mod, [s for s in ast.walk(fn) if isinstance(s, (ast.Import, ast.ImportFrom))])
        lt = local_types(ci, fn, li)
        me = self_name(fn)
        guards = guarded_names(fn, me)
        call_funcs = set()
        for n in ast.walk(fn):
            if not isinstance(n, ast.Call):
                continue
            tb.stats["calls_seen"] += 1
            call_funcs.add(id(n.func))
            cands = None
            f = n.func
            if isinstance(f, ast.Attribute):
                # super().m(...)
                if isinstance(f.value, ast.Call) and dotted(f.value.func) == "super" and ci is not None:
                    for b in pkg.mro(ci)[1:]:
                        if f.attr in b.methods:
                            cands = method_sigs([(b, b.methods[f.attr])])
                            break
                        if any(x not in ATTR_FREE_BASES for x in b.ext_bases):
                            break
                    if cands is None and f.attr == "__init__" and ci is not None:
                        cands = None
                else:
                    rts, via = receiver_types(ci, fn, lt, f.value)
                    if rts:
                        cands = []
                        for rc in rts:
                            tg = dispatch_targets(rc, fn, f.attr) if via == "self" else pkg.method_targets(rc, f.attr)
                            ms = method_sigs(tg) if tg else None
                            if ms is None:
                                cands = None
                                break
                            cands += ms
                    else:
                        r = pkg.resolve_expr_static(mod, li, f)
                        if r and not pkg.is_shadowed(fn, f):
                            if r[0] == "func":
                                cands = func_sig(r[1], r[2])
                            elif r[0] == "class":
                                cands = class_ctor(r[1])
            elif isinstance(f, ast.Name):
                if not pkg.is_shadowed(fn, f):
                    r = pkg.resolve_expr_static(mod, li, f)
                    if r and r[0] == "func":
                        cands = func_sig(r[1], r[2])
                    elif r and r[0] == "class":
                        cands = class_ctor(r[1])
            if not cands:
                continue
            tb.stats["calls_resolved"] += 1
            ids = []
            for (k, cfn, drop, path, mname, qual) in cands:
                i = sig_id(k, cfn, drop, path, mname, qual)
                if i not in ids:
                    ids.append(i)
                tb.graph[key].add(k)
            npos = sum(1 for a in n.args if not isinstance(a, ast.Starred))
            star = any(isinstance(a, ast.Starred) for a in n.args)
            kws = [k.arg for k in n.keywords if k.arg is not None]
            dstar = any(k.arg is None for k in n.keywords)
            tb.calls.append({"caller": key, "file": mod.path, "line": n.lineno, "callee_ids": ids,
                             "callees": [c[0] for c in cands], "npos": npos, "star": star, "kws": kws,
                             "dstar": dstar, "text": ast.unparse(n)[:160]})
        # attribute reads
        for n in ast.walk(fn):
            if not (isinstance(n, ast.Attribute) and isinstance(n.ctx, ast.Load)):
                continue
            rts, via = receiver_types(ci, fn, lt, n.value)
            if not rts:
                continue
            tb.stats["reads_seen"] += 1
            if n.attr.startswith("__") and n.attr.endswith("__"):
                continue
            if (ast.unparse(n.value), n.attr) in guards:
                tb.stats["reads_guarded"] += 1
                continue
            for rc in rts:
                if not pkg.closed(rc):
                    tb.stats["reads_open_class"] += 1
                    continue
                tb.stats["reads_emitted"] += 1
                tb.reads.append({"cls": cname(rc), "attr": n.attr, "file": mod.path, "line": n.lineno,
                                 "func": key, "via": via})
        # nested functions are walked as part of fn (ast.walk); nothing else to do

    for m in pkg.mods.values():
        for nm, (k, v) in m.defs.items():
            if k == "func":
                visit_function(m, None, v, None)
        for ci in [c for c in pkg.classes if c.mod is m]:
            for s in ci.node.body:
                if isinstance(s, (ast.FunctionDef, ast.AsyncFunctionDef)):
                    visit_function(m, ci, s, None)
    for ci in pkg.classes:
        tb.classes.append({"name": cname(ci), "assigned": sorted(ci.assigned),
                           "family": [cname(c) for c in pkg.family(ci)], "closed": pkg.closed(ci),
                           "file": ci.mod.path})
    tb.pkg = pkg
    return tb


def reachable(tb, root_class="FlowSampler"):
    """function keys reachable from the methods of FlowSampler, over-approximated BY NAME: a function
    that mentions identifier x may reach every function / method / property named x and the
    constructor chain of every class named x.  Used only to label a failing entry `on an option path`
    or `not reachable from FlowSampler`; unreachable code is still checked."""
    byname = {}
    for k in tb.mentions:
        byname.setdefault(k.rsplit(".", 1)[-1], []).append(k)
    ctor = {}
    for c in tb.classes:
        ctor[c["name"]] = [f"{f}.__init__" for f in c["family"]] + [f"{c['name']}.__init__"]
    seen, todo = set(), [k for k in tb.mentions if k.startswith(root_class + ".")]
    while todo:
        k = todo.pop()
        if k in seen:
            continue
        seen.add(k)
        for x in tb.mentions.get(k, ()):
            todo += byname.get(x, [])
            todo += [i for i in ctor.get(x, []) if i in tb.mentions]
        todo += list(tb.graph.get(k, ()))
    return seen


if __name__ == "__main__":
    tb = build()
    print(tb.stats, len(tb.sigs), "sigs", len(tb.calls), "calls", len(tb.reads), "reads", len(tb.classes), "classes")
    # plain-Python evaluation of the rule (debug aid only; the decision is taken by the Coq checker)
    cls = {c["name"]: c for c in tb.classes}
    rs = reachable(tb)
    print(len(rs), "of", len(tb.mentions), "functions reachable by name from FlowSampler")
    for r in tb.reads:
        r["file"] = ("ON " if r["func"] in rs else "OFF ") + r["file"]
    for c in tb.calls:
        c["file"] = ("ON " if c["caller"] in rs else "OFF ") + c["file"]
    for r in tb.reads:
        fam = cls[r["cls"]]["family"]
        if not any(r["attr"] in cls[f]["assigned"] for f in fam) and r["attr"] not in tb.ext_assigned:
            print("READ  ", r["cls"], r["attr"], r["file"], r["line"], r["func"], r["via"])
    for c in tb.calls:
        for i in c["callee_ids"]:
            s = tb.sigs[i]
            bad = [k for k in c["kws"] if k not in s.pos[s.nposonly:] + s.kwonly and not s.varkw]
            if bad or (c["npos"] > len(s.pos) and not s.vararg):
                print("CALL  ", s.key, bad, c["npos"], len(s.pos), c["file"], c["line"], c["text"][:100])
            filled = set(s.pos[: c["npos"]])
            miss = [r for r in s.required if r not in filled and r not in c["kws"]]
            if miss and not c["star"] and not c["dstar"]:
                print("MISS  ", s.key, miss, c["file"], c["line"], c["text"][:100])
            dup = [k for k in c["kws"] if k in filled]
            if dup:
                print("DUP   ", s.key, dup, c["file"], c["line"], c["text"][:100])
