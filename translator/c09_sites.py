"""C09 translator: every call site of batch_evaluate_log_likelihood / evaluate_log_likelihood in the nessai package
(and the functions whose return value other sites rely on) -> a Coq `list site`:
where the evaluated array comes from (backward slice over assignments inside the same function) and which masks were
applied to it on the way.  Python `ast` only; nothing is executed."""
import ast
import os

from pyast import REPO, Declined, dotted, find_class, find_function, parse, unparse

LIK_CALLS = ("batch_evaluate_log_likelihood", "evaluate_log_likelihood")

# sites on paths that cannot complete today (listed, not ignored): (file, class, function) -> reason
DEAD_PATHS = {
    ("nessai/samplers/importancesampler.py", "ImportanceNestedSampler", "adjust_final_samples"):
        "only reachable through bootstrap=True, which raises AttributeError (n_requested) before any draw (D5); "
        "proposal.draw is called with an unknown keyword `update_counts`",
    ("nessai/samplers/importancesampler.py", "ImportanceNestedSampler", "draw_more_nested_samples"):
        "draw_from_flows returns a tuple; indexing it with 'logL' raises TypeError before the likelihood is called",
    ("nessai/samplers/importancesampler.py", "ImportanceNestedSampler", "train_final_flow"):
        "FlowModel(config=...) raises TypeError before sampling (D5)",
}

# functions whose RETURN value is used as a guaranteed source by other sites: they are analysed like sites
RETURN_SITES = [
    ("nessai/model.py", "Model", "_multiple_new_points", "SrcNewPoint"),
    ("nessai/proposal/importance.py", "ImportanceFlowProposal", "draw", "SrcProposalDraw"),
    ("nessai/proposal/importance.py", "ImportanceFlowProposal", "draw_from_flows", "SrcDrawFromFlows"),
    ("nessai/proposal/flowproposal.py", "FlowProposal", "backward_pass", "SrcBackward"),
    ("nessai/proposal/augmented.py", "AugmentedFlowProposal", "backward_pass", "SrcBackward"),
]


def base_name(t):
    """variable a target/expr is rooted in: x, self.samples, live_points (through subscripts)."""
    while isinstance(t, ast.Subscript):
        t = t.value
    return dotted(t)


def names_of(node):
    out = set()
    for n in ast.walk(node):
        d = dotted(n) if isinstance(n, (ast.Name, ast.Attribute)) else None
        if d:
            out.add(d)
    return out


def data_names(node):
    """names whose VALUES flow into the result of `node`: index / mask positions are not data."""
    out = set()

    def go(n):
        if isinstance(n, ast.Subscript):
            go(n.value)
            return
        if isinstance(n, ast.Call) and (dotted(n.func) or "").split(".")[-1] == "get_subset_arrays":
            for a in n.args[1:]:
                go(a)
            return
        if isinstance(n, (ast.Name, ast.Attribute)):
            d = dotted(n)
            if d:
                out.add(d)
                return
        for c in ast.iter_child_nodes(n):
            go(c)

    go(node)
    return out


class Fn:
    def __init__(self, fn):
        self.fn = fn
        self.assigns = []          # (target base name, value node, tuple target?, full target node)
        self.meta = []             # parallel: (line of the statement, does it REPLACE the variable (plain `name = ...`)?)
        for node in ast.walk(fn):
            if isinstance(node, ast.Assign):
                for t in node.targets:
                    if isinstance(t, ast.Tuple):
                        for e in t.elts:
                            b = base_name(e)
                            if b:
                                self.assigns.append((b, node.value, True, e))
                                self.meta.append((node.lineno, not isinstance(e, ast.Subscript)))
                    else:
                        b = base_name(t)
                        if b:
                            self.assigns.append((b, node.value, False, t))
                            self.meta.append((node.lineno, not isinstance(t, ast.Subscript)))
            elif isinstance(node, ast.AugAssign):
                b = base_name(node.target)
                if b:
                    self.assigns.append((b, node.value, False, node.target))
                    self.meta.append((node.lineno, False))
        self.params = {a.arg for a in fn.args.args}

    def slice(self, start, data_only=False):
        """names flowing into `start` and the assignment values on the way."""
        S, vals = set(start), []
        changed = True
        seen = set()
        while changed:
            changed = False
            for i, (b, v, tup, tgt) in enumerate(self.assigns):
                if b in S and i not in seen:
                    seen.add(i)
                    vals.append((b, v, tup, tgt))
                    new = (data_names(v) if data_only else names_of(v)) - S
                    if new:
                        S |= new
                    changed = True
        return S, vals


def classify_source(fnx, vals, arg, verified_backward):
    found = []
    for b, v, tup, tgt in vals:
        for call in [n for n in ast.walk(v) if isinstance(n, ast.Call)]:
            d = dotted(call.func) or ""
            last = d.split(".")[-1]
            if last == "new_point" or d == "self.draw_proposal":
                found.append("SrcNewPoint")
            elif d.endswith("proposal.draw"):
                found.append("SrcProposalDraw")
            elif last == "draw_from_flows":
                found.append("SrcDrawFromFlows" if tup else "SrcUnchecked")
            elif last == "sample_unit_hypercube":
                found.append("SrcUnitCube")
            elif d in ("np.random.uniform", "numpy.random.uniform") and \
                    [unparse(a) for a in call.args[:2]] == ["self.lower_bounds", "self.upper_bounds"]:
                found.append("SrcUnitCube")
            elif last == "backward_pass":
                found.append("SrcBackward" if verified_backward else "SrcUnchecked")
            elif last in ("sample_ith", "sample_and_log_prob", "draw_from_prior", "sample", "sample_latent_distribution") \
                    or d in ("np.random.rand", "np.random.randn"):
                found.append("SrcUnchecked")
    if not found:
        if arg.startswith("self.") and not any(b == arg and not isinstance(t, ast.Subscript) for b, _, _, t in fnx.assigns):
            return "SrcPool"
        return "SrcUnchecked"
    order = ["SrcUnchecked", "SrcUnitCube", "SrcBackward", "SrcDrawFromFlows", "SrcProposalDraw", "SrcNewPoint", "SrcPool"]
    return min(found, key=order.index)          # the weakest guarantee wins


def reaching(fnx, name, line):
    """assignments to `name` that can reach a use on `line`: the last plain re-assignment before the use and the updates
    (augmented / element assignments) after it; a variable that is re-assigned loses what it held before."""
    defs = [i for i, a in enumerate(fnx.assigns) if a[0] == name and fnx.meta[i][0] < line]
    if not defs:       # only defined further down (a loop): every definition may reach
        return [i for i, a in enumerate(fnx.assigns) if a[0] == name]
    kills = [i for i in defs if fnx.meta[i][1]]
    if kills:
        last = max(fnx.meta[i][0] for i in kills)
        return [i for i in defs if fnx.meta[i][0] >= last]
    return defs


def index_slice(fnx, expr):
    work = [(n, getattr(expr, "lineno", 10 ** 9)) for n in names_of(expr)]
    S, vals, seen = set(), [], set()
    while work:
        name, line = work.pop()
        S.add(name)
        for i in reaching(fnx, name, line):
            if i in seen:
                continue
            seen.add(i)
            vals.append(fnx.assigns[i])
            for n in names_of(fnx.assigns[i][1]):
                work.append((n, fnx.meta[i][0] + (1 if not fnx.meta[i][1] else 0)))
    return S, vals


def classify_index(fnx, expr):
    """mask kinds an index expression stands for (the expression and everything that reaches it)."""
    S, vals = index_slice(fnx, expr)
    exprs = [expr] + [v for _, v, _, _ in vals]
    kinds = set()
    prior_names = set()            # names / subscripts that hold a freshly computed log-prior
    weight_names = set()
    for b, v, tup, tgt in fnx.assigns:
        for call in [n for n in ast.walk(v) if isinstance(n, ast.Call)]:
            last = (dotted(call.func) or "").split(".")[-1]
            if last in ("batch_evaluate_log_prior", "log_prior"):
                prior_names.add(unparse(tgt))
            if last == "compute_weights":
                weight_names.add(b)
                if tup and any(k.arg == "return_log_prior" for k in call.keywords):
                    prior_names.add(unparse(tgt))
    for e in exprs:
        for call in [n for n in ast.walk(e) if isinstance(n, ast.Call)]:
            d = dotted(call.func) or ""
            last = d.split(".")[-1]
            if d in ("np.isfinite", "numpy.isfinite") and call.args:
                a = call.args[0]
                inner = [(dotted(c.func) or "").split(".")[-1] for c in ast.walk(a) if isinstance(c, ast.Call)]
                if "log_prior" in inner or "batch_evaluate_log_prior" in inner or unparse(a) in prior_names:
                    kinds.add("MFinitePrior")
            if last in ("in_bounds", "in_unit_hypercube"):
                kinds.add("MInBounds")
    if S & weight_names:
        kinds.add("MWeights")
    return kinds


def analyse(fnx, arg_node, call_node, parents, verified_backward):
    arg = base_name(arg_node)
    if arg is None:
        raise Declined(f"likelihood argument without a variable: {unparse(arg_node)}")
    S, vals = fnx.slice({arg}, data_only=True)
    src = classify_source(fnx, vals, arg, verified_backward)
    masks = set()
    for b, v, tup, tgt in vals:
        for sub in [n for n in ast.walk(v) if isinstance(n, ast.Subscript)]:
            if base_name(sub) in S and not isinstance(sub.slice, (ast.Constant, ast.Slice)):
                idx = sub.slice
                if isinstance(idx, ast.List) or (isinstance(idx, ast.BinOp)):
                    masks.add("MSlice")           # field selection x[names + ...]
                    continue
                ks = classify_index(fnx, idx)
                masks |= ks if ks else {"MSlice"}
            elif isinstance(sub.slice, ast.Slice):
                masks.add("MSlice")
        for call in [n for n in ast.walk(v) if isinstance(n, ast.Call)]:
            if (dotted(call.func) or "").split(".")[-1] == "get_subset_arrays" and call.args:
                ks = classify_index(fnx, call.args[0])
                masks |= ks if ks else {"MSlice"}
            if (dotted(call.func) or "").split(".")[-1] == "check_prior_bounds":
                masks.add("MInBounds")
    # scalar guards dominating the call
    node = call_node
    while node in parents:
        p = parents[node]
        if isinstance(p, ast.If) and node in p.body:
            t = unparse(p.test)
            if t.endswith("['logP'] != -np.inf"):
                masks.add("MPriorNotNInf")
        node = p
    return arg, src, sorted(masks)


def check_prior_bounds_ok(mod):
    """FlowProposal.check_prior_bounds must select with self.model.in_bounds(x)."""
    fn = find_function(mod, "check_prior_bounds", cls="FlowProposal")
    src = unparse(fn)
    return "self.model.in_bounds(x)" in src and "[flags]" in src


def compute_weights_ok():
    ok = True
    for path, cls in (("nessai/proposal/flowproposal.py", "FlowProposal"), ("nessai/proposal/rejection.py", "RejectionProposal")):
        mod, _ = parse(path)
        fn = find_function(mod, "compute_weights", cls=cls)
        src = unparse(fn)
        ok = ok and "log_w = log_p - log_q" in src and ("log_prior(x)" in src)
    return ok


def sites():
    table, sk = [], []
    if not compute_weights_ok():
        raise Declined("compute_weights is not `log_w = log_p - log_q` with log_p the model's prior")
    fmod, _ = parse("nessai/proposal/flowproposal.py")
    cpb = check_prior_bounds_ok(fmod)
    # ---- functions whose return value is a source elsewhere ----
    verified = {}
    for path, cls, name, kind in RETURN_SITES:
        mod, _ = parse(path)
        fn = find_function(mod, name, cls=cls)
        fnx = Fn(fn)
        parents = {c: p for p in ast.walk(fn) for c in ast.iter_child_nodes(p)}
        rets = [n for n in ast.walk(fn) if isinstance(n, ast.Return) and n.value is not None]
        ok_all, rows = True, []
        for r in rets:
            v = r.value.elts[0] if isinstance(r.value, ast.Tuple) else r.value
            if isinstance(v, ast.Call) and unparse(v) == "np.array([])":
                continue                                    # the empty early return of backward_pass
            arg, src, masks = analyse(fnx, v, r, parents, True)
            if kind == "SrcBackward":
                # only the in-bounds half is claimed; and only when check_prior_bounds really filters
                good = ("MInBounds" in masks) and cpb
            elif kind == "SrcNewPoint":
                good = src == "SrcUnitCube" and "MFinitePrior" in masks
                sk.append((src, masks, False))
            else:
                good = "MInBounds" in masks and "MFinitePrior" in masks
                # as a site of its own: raw source + masks must establish what the callers rely on
                sk.append((src, masks, False))
            ok_all = ok_all and good
            rows.append(f"{src} {masks}")
        verified[(cls, name)] = ok_all and bool(rows)
        table.append({"site": f"{path}:{cls}.{name} (return value, relied on as {kind})", "analysis": rows,
                      "guarantee_verified": verified[(cls, name)]})
    vb = verified[("FlowProposal", "backward_pass")] and verified[("AugmentedFlowProposal", "backward_pass")]
    downgrade = {"SrcNewPoint": verified[("Model", "_multiple_new_points")],
                 "SrcProposalDraw": verified[("ImportanceFlowProposal", "draw")],
                 "SrcDrawFromFlows": verified[("ImportanceFlowProposal", "draw_from_flows")]}
    # ---- the call sites ----
    root = os.path.join(REPO, "nessai")
    n_sites = 0
    for dirpath, _, files in sorted(os.walk(root)):
        for f in sorted(files):
            if not f.endswith(".py"):
                continue
            rel = os.path.relpath(os.path.join(dirpath, f), REPO)
            mod, _ = parse(rel)
            for cls in [n for n in mod.body if isinstance(n, ast.ClassDef)] + [None]:
                body = cls.body if cls is not None else mod.body
                for fn in [n for n in body if isinstance(n, ast.FunctionDef)]:
                    calls = [n for n in ast.walk(fn) if isinstance(n, ast.Call) and isinstance(n.func, ast.Attribute)
                             and n.func.attr in LIK_CALLS]
                    if not calls:
                        continue
                    fnx = Fn(fn)
                    parents = {c: p for p in ast.walk(fn) for c in ast.iter_child_nodes(p)}
                    for call in calls:
                        if cls is not None and cls.name == "Model":
                            continue                     # the definitions themselves (evaluate_* wrappers)
                        if not call.args:
                            raise Declined(f"{rel}:{fn.name}: likelihood call without a positional argument")
                        n_sites += 1
                        arg, src, masks = analyse(fnx, call.args[0], call, parents, vb)
                        if src in downgrade and not downgrade[src]:
                            src = "SrcUnchecked"
                        key = (rel, cls.name if cls else None, fn.name)
                        flagged = key in DEAD_PATHS
                        sk.append((src, masks, flagged))
                        table.append({"site": f"{rel}:{call.lineno} {cls.name + '.' if cls else ''}{fn.name}({arg})",
                                      "source": src, "masks": masks,
                                      "flagged": DEAD_PATHS.get(key, False)})
    if n_sites == 0:
        raise Declined("no likelihood call site found")
    lit = "[" + "; ".join("{| s_src := %s; s_masks := [%s]; s_flagged := %s |}" % (s, "; ".join(m), "true" if f else "false")
                          for s, m, f in sk) + "]"
    return lit, table


if __name__ == "__main__":
    import json
    lit, table = sites()
    print(lit)
    print(json.dumps(table, indent=1))
