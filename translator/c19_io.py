"""C19 translator: nessai/utils/io.py -> Coq values
  * the isinstance ladder of NessaiJSONEncoder.default  ->  `ladder`  (order matters)
  * encode_for_hdf5 / add_dict_to_hdf5_file / save_dict_to_hdf5  ->  `h5_sk`
Reads the source with `ast`; never imports nessai.  Raises Declined on a shape it has no rule for."""
import ast

from pyast import Declined, dotted, find_function, is_logging, parse, strip_doc, unparse

TESTS = {
    "isinstance(obj, np.integer)": "QNpInteger", "isinstance(obj, numpy.integer)": "QNpInteger",
    "isinstance(obj, np.floating)": "QNpFloating", "isinstance(obj, numpy.floating)": "QNpFloating",
    "isinstance(obj, np.ndarray)": "QNdarray", "isinstance(obj, numpy.ndarray)": "QNdarray",
    "not is_jsonable(obj)": "QNotJsonable",
}
ACTIONS = {
    "int(obj)": "AInt", "float(obj)": "AFloat", "obj.tolist()": "ATolist", "str(obj)": "AStr",
    "super().default(obj)": "ARaise", "json.JSONEncoder.default(self, obj)": "ARaise",
    "super(NessaiJSONEncoder, self).default(obj)": "ARaise", "None": "ANull",
}


def _action(stmts, where):
    stmts = [s for s in stmts if not is_logging(s)]
    if len(stmts) == 1 and isinstance(stmts[0], ast.Return):
        u = "None" if stmts[0].value is None else unparse(stmts[0].value)
        if u in ACTIONS:
            return ACTIONS[u]
        raise Declined(f"{where}: returns {u}")
    if len(stmts) == 1 and isinstance(stmts[0], ast.Raise):
        return "ARaise"
    raise Declined(f"{where}: branch body has a shape the translator has no rule for")


def _test(node):
    u = unparse(node)
    if u in TESTS:
        return TESTS[u]
    raise Declined(f"NessaiJSONEncoder.default: unknown test `{u}`")


def ladder():
    mod, _ = parse("nessai/utils/io.py")
    fn = find_function(mod, "default", cls="NessaiJSONEncoder")
    if [a.arg for a in fn.args.args] != ["self", "obj"]:
        raise Declined("NessaiJSONEncoder.default: unexpected signature")
    body = [s for s in strip_doc(fn.body) if not is_logging(s)]
    rungs = []

    def walk(stmts):
        """if/elif/else chain, or a sequence of `if ...: return` followed by a final return"""
        for k, st in enumerate(stmts):
            if isinstance(st, ast.If):
                rungs.append((_test(st.test), _action(st.body, "NessaiJSONEncoder.default")))
                if st.orelse:
                    if k != len(stmts) - 1:
                        raise Declined("NessaiJSONEncoder.default: statements after an if/else")
                    if len(st.orelse) == 1 and isinstance(st.orelse[0], ast.If):
                        walk(st.orelse)
                    else:
                        rungs.append(("QElse", _action(st.orelse, "NessaiJSONEncoder.default")))
                    return
            else:
                if k != len(stmts) - 1:
                    raise Declined("NessaiJSONEncoder.default: unreachable statements")
                rungs.append(("QElse", _action([st], "NessaiJSONEncoder.default")))
                return
    walk(body)
    return "[" + "; ".join(f"({q}, {a})" for q, a in rungs) + "]"


def _is_none_test(node, var):
    return unparse(node) == f"{var} is None"


def h5_skeleton():
    mod, _ = parse("nessai/utils/io.py")
    enc = find_function(mod, "encode_for_hdf5")
    var = enc.args.args[0].arg
    body = [s for s in strip_doc(enc.body) if not is_logging(s)]
    marker = None
    # if value is None: output = CONST / else: output = value ; return output
    if len(body) == 2 and isinstance(body[0], ast.If) and _is_none_test(body[0].test, var) \
            and isinstance(body[1], ast.Return):
        out = unparse(body[1].value)
        tb = [s for s in body[0].body if not is_logging(s)]
        eb = [s for s in body[0].orelse if not is_logging(s)]
        if len(tb) == 1 and isinstance(tb[0], ast.Assign) and unparse(tb[0].targets[0]) == out \
                and len(eb) == 1 and unparse(eb[0]) == f"{out} = {var}":
            marker = tb[0].value
    # if value is None: return CONST ; return value
    if marker is None and len(body) == 2 and isinstance(body[0], ast.If) and _is_none_test(body[0].test, var) \
            and not body[0].orelse and len(body[0].body) == 1 and isinstance(body[0].body[0], ast.Return) \
            and isinstance(body[1], ast.Return) and unparse(body[1].value) == var:
        marker = body[0].body[0].value
    # return CONST if value is None else value
    if marker is None and len(body) == 1 and isinstance(body[0], ast.Return) and isinstance(body[0].value, ast.IfExp) \
            and _is_none_test(body[0].value.test, var) and unparse(body[0].value.orelse) == var:
        marker = body[0].value.body
    if marker is None:
        raise Declined("encode_for_hdf5 has a shape the translator has no rule for")
    if not (isinstance(marker, ast.Constant) and isinstance(marker.value, str)):
        raise Declined(f"encode_for_hdf5 substitutes {unparse(marker)} for None (not a string constant)")
    # add_dict_to_hdf5_file
    add = find_function(mod, "add_dict_to_hdf5_file")
    a = [x.arg for x in add.args.args]
    if len(a) != 3:
        raise Declined("add_dict_to_hdf5_file: unexpected signature")
    f, path, d = a
    body = [s for s in strip_doc(add.body) if not is_logging(s)]
    if not (len(body) == 1 and isinstance(body[0], ast.For) and unparse(body[0].iter) == f"{d}.items()"
            and isinstance(body[0].target, ast.Tuple) and len(body[0].target.elts) == 2):
        raise Declined("add_dict_to_hdf5_file: not a single loop over d.items()")
    key, value = [unparse(t) for t in body[0].target.elts]
    lb = [s for s in body[0].body if not is_logging(s)]
    if not (len(lb) == 1 and isinstance(lb[0], ast.If)):
        raise Declined("add_dict_to_hdf5_file: loop body is not a single if")
    st = lb[0]
    if unparse(st.test) != f"isinstance({value}, dict)":
        raise Declined(f"add_dict_to_hdf5_file: test is {unparse(st.test)}")
    tb = [unparse(s) for s in st.body if not is_logging(s)]
    eb = [unparse(s) for s in st.orelse if not is_logging(s)]
    rec = [f"add_dict_to_hdf5_file({f}, {path} + {key} + '/', {value})"]
    leaf = [f"{f}[{path} + {key}] = encode_for_hdf5({value})"]
    if tb != rec:
        raise Declined(f"add_dict_to_hdf5_file: dict branch is {tb}")
    if eb != leaf:
        raise Declined(f"add_dict_to_hdf5_file: leaf branch is {eb}")
    # save_dict_to_hdf5 starts the recursion at "/"
    sv = find_function(mod, "save_dict_to_hdf5")
    calls = [n for n in ast.walk(sv) if isinstance(n, ast.Call) and dotted(n.func) == "add_dict_to_hdf5_file"]
    if len(calls) != 1 or len(calls[0].args) != 3 or unparse(calls[0].args[1]) != "'/'" \
            or unparse(calls[0].args[2]) != sv.args.args[0].arg:
        raise Declined("save_dict_to_hdf5: unexpected call of add_dict_to_hdf5_file")
    m = marker.value.replace('"', '""')
    return '{| h_none := Some "' + m + '"%string; h_recurse := true |}'


def save_results_info():
    """informational: the extension handling of FlowSampler.save_results as source text"""
    mod, _ = parse("nessai/flowsampler.py")
    fn = find_function(mod, "save_results", cls="FlowSampler")
    exts = sorted({n.value for n in ast.walk(fn) if isinstance(n, ast.Constant) and n.value in ("json", "hdf5", "h5")})
    how = "not recognised (the correspondence on dotted / relative directories decides)"
    for n in ast.walk(fn):
        if isinstance(n, ast.Assign) and unparse(n.targets[0]) == "ext":
            if unparse(n.value) in ("os.path.splitext(filename)[1].lstrip('.')", "os.path.splitext(filename)[1][1:]"):
                how = "os.path.splitext of the path: last component only (= path_ext)"
    copy_how = "not recognised"
    try:
        sk = find_function(mod, "save_kwargs", cls="FlowSampler")
        for n in ast.walk(sk):
            if isinstance(n, ast.Assign) and unparse(n.targets[0]) == "d":
                copy_how = unparse(n.value)
    except Declined as e:
        copy_how = f"declined: {e}"
    return {"extensions_mentioned": exts, "extension_taken_from": how, "save_kwargs_copies_with": copy_how}


if __name__ == "__main__":
    print(ladder())
    print(h5_skeleton())
    print(save_results_info())
