"""C10 translator: decision skeleton of batch_evaluate_function -> Coq `dtree`,
shape of array_split_chunksize, and the counter effects of the Model methods."""
import ast

from pyast import Declined, dotted, find_function, is_logging, parse, strip_doc, unparse

FUNC_ALIASES = {"func", "func_wrapper"}


def _split(node):
    if isinstance(node, ast.Call):
        d = dotted(node.func)
        a = [unparse(x) for x in node.args]
        if d == "array_split_chunksize" and a == ["x", "chunksize"] and not node.keywords:
            return "SChunks"
        if d in ("np.array_split", "numpy.array_split") and a == ["x", "n_pool"] and not node.keywords:
            return "SSplitN"
    raise Declined(f"unknown splitter: {unparse(node)}")


def _is_func(node):
    return isinstance(node, ast.Name) and node.id in FUNC_ALIASES


def _mapped(node):
    """Returns (iterable node, pooled) when node is  map(func, IT) / list(map(func, IT)) /
    [func(c) for c in IT] / pool.map(F, IT)."""
    if isinstance(node, ast.Call) and dotted(node.func) == "list" and len(node.args) == 1:
        return _mapped(node.args[0])
    if isinstance(node, ast.Call) and dotted(node.func) == "map" and len(node.args) == 2 and _is_func(node.args[0]):
        return node.args[1], False
    if isinstance(node, ast.Call) and dotted(node.func) == "pool.map" and len(node.args) == 2 \
            and _is_func(node.args[0]) and not node.keywords:
        return node.args[1], True
    if isinstance(node, ast.ListComp) and len(node.generators) == 1:
        g = node.generators[0]
        if not g.ifs and isinstance(g.target, ast.Name) and isinstance(node.elt, ast.Call) \
                and _is_func(node.elt.func) and len(node.elt.args) == 1 and not node.elt.keywords \
                and isinstance(node.elt.args[0], ast.Name) and node.elt.args[0].id == g.target.id:
            return g.iter, False
    raise Declined(f"unknown map form: {unparse(node)}")


def _leaf(expr):
    # func(x)
    if isinstance(expr, ast.Call) and _is_func(expr.func) and [unparse(a) for a in expr.args] == ["x"] \
            and not expr.keywords:
        return "LDirect"
    # np.concatenate(MAPPED over SPLIT)
    if isinstance(expr, ast.Call) and dotted(expr.func) in ("np.concatenate", "numpy.concatenate") \
            and len(expr.args) == 1 and not expr.keywords:
        it, pooled = _mapped(expr.args[0])
        return f"(LConcatMap {_split(it)} {'true' if pooled else 'false'})"
    # np.array(MAPPED over x).flatten()
    if isinstance(expr, ast.Call) and isinstance(expr.func, ast.Attribute) and expr.func.attr in ("flatten", "ravel") \
            and not expr.args:
        inner = expr.func.value
        if isinstance(inner, ast.Call) and dotted(inner.func) in ("np.array", "numpy.array", "np.asarray") \
                and len(inner.args) == 1 and not inner.keywords:
            it, pooled = _mapped(inner.args[0])
            if isinstance(it, ast.Name) and it.id == "x":
                return f"(LPointwise {'true' if pooled else 'false'})"
    raise Declined(f"unknown leaf expression: {unparse(expr)}")


def _cond(test):
    """-> (constructor, swapped)"""
    neg = False
    if isinstance(test, ast.UnaryOp) and isinstance(test.op, ast.Not):
        neg, test = True, test.operand
    if isinstance(test, ast.Compare) and len(test.ops) == 1 and isinstance(test.left, ast.Name) \
            and test.left.id == "pool" and isinstance(test.comparators[0], ast.Constant) \
            and test.comparators[0].value is None:
        if isinstance(test.ops[0], ast.Is):
            return "IfPoolNone", neg
        if isinstance(test.ops[0], ast.IsNot):
            return "IfPoolNone", not neg
    if isinstance(test, ast.Name) and test.id == "vectorised":
        return "IfVect", neg
    if isinstance(test, ast.Name) and test.id == "chunksize":
        return "IfChunk", neg
    raise Declined(f"unknown condition: {unparse(test)}")


def _block(stmts, tail):
    """Translate a statement list that ends by assigning `out` (or returning);
    `tail` is the continuation (statements after the enclosing if)."""
    stmts = [s for s in stmts if not is_logging(s)]
    # `if func_wrapper is None: func_wrapper = func` only renames the function
    keep = []
    for s in stmts:
        if isinstance(s, ast.If) and unparse(s.test) == "func_wrapper is None" and not s.orelse \
                and [unparse(b) for b in s.body] == ["func_wrapper = func"]:
            continue
        keep.append(s)
    stmts = keep + list(tail)
    if not stmts:
        raise Declined("path without a result")
    s = stmts[0]
    rest = stmts[1:]
    if isinstance(s, ast.If):
        ctor, swapped = _cond(s.test)
        a = _block(s.body, rest)
        b = _block(s.orelse, rest)
        if swapped:
            a, b = b, a
        return f"({ctor} {a} {b})"
    if isinstance(s, ast.Assign) and len(s.targets) == 1 and unparse(s.targets[0]) == "out":
        if len(rest) == 1 and isinstance(rest[0], ast.Return) and unparse(rest[0].value) == "out":
            return f"(Leaf {_leaf(s.value)})"
        raise Declined("statements between `out = ...` and `return out`")
    if isinstance(s, ast.Return) and s.value is not None:
        return f"(Leaf {_leaf(s.value)})"
    raise Declined(f"unknown statement: {unparse(s)}")


def tree():
    mod, _ = parse("nessai/utils/multiprocessing.py")
    fn = find_function(mod, "batch_evaluate_function")
    args = [a.arg for a in fn.args.args]
    for need in ("func", "x", "vectorised", "chunksize", "pool", "n_pool"):
        if need not in args:
            raise Declined(f"parameter {need} missing")
    return _block(strip_doc(fn.body), [])


def chunks_shape():
    """array_split_chunksize must be: guard chunksize < 1 -> raise; return np.array_split(x, range(k, len(x), k))."""
    mod, _ = parse("nessai/utils/structures.py")
    fn = find_function(mod, "array_split_chunksize")
    body = [s for s in strip_doc(fn.body) if not is_logging(s)]
    if len(body) == 2 and isinstance(body[0], ast.If) and unparse(body[0].test) in ("chunksize < 1", "chunksize <= 0") \
            and isinstance(body[0].body[0], ast.Raise) and isinstance(body[1], ast.Return):
        if unparse(body[1].value) == "np.array_split(x, range(chunksize, len(x), chunksize))":
            return True
    raise Declined("array_split_chunksize has a shape the translator has no rule for")


def counter(cls_method=("Model", "batch_evaluate_log_likelihood")):
    mod, _ = parse("nessai/model.py")
    fn = find_function(mod, cls_method[1], cls=cls_method[0])
    effs = []
    for node in ast.walk(fn):
        if isinstance(node, (ast.AugAssign, ast.Assign)):
            tgt = node.target if isinstance(node, ast.AugAssign) else node.targets[0]
            if dotted(tgt) == "self.likelihood_evaluations":
                if isinstance(node, ast.AugAssign) and isinstance(node.op, ast.Add):
                    v = unparse(node.value)
                    if v in ("x.size", "len(x)"):
                        effs.append("CAddSize")
                    elif v == "1":
                        effs.append("CAddOne")
                    else:
                        raise Declined(f"counter incremented by {v}")
                else:
                    raise Declined("counter assigned, not incremented")
        if isinstance(node, (ast.For, ast.While)):
            for sub in ast.walk(node):
                if isinstance(sub, ast.AugAssign) and dotted(sub.target) == "self.likelihood_evaluations":
                    raise Declined("counter updated inside a loop")
    return "[" + "; ".join(effs) + "]"


FUNC_IDS = {"self.log_likelihood": "FLik", "self.log_prior": "FPrior", "self.log_prior_unit_hypercube": "FPriorUH"}
FLAG_IDS = {
    "self.allow_vectorised and self.vectorised_likelihood": "FLik", "self.vectorised_likelihood": "FLik",
    "self.allow_vectorised_prior and self.vectorised_prior": "FPrior", "self.vectorised_prior": "FPrior",
    "self.allow_vectorised_prior and self.vectorised_prior_unit_hypercube": "FPriorUH",
    "self.vectorised_prior_unit_hypercube": "FPriorUH",
}
WRAP_IDS = {"log_likelihood_wrapper": "FLik", "log_prior_wrapper": "FPrior",
            "log_prior_unit_hypercube_wrapper": "FPriorUH"}
WRAP_BODY = {"log_likelihood_wrapper": "_model.log_likelihood(x)", "log_prior_wrapper": "_model.log_prior(x)",
             "log_prior_unit_hypercube_wrapper": "_model.log_prior_unit_hypercube(x)"}


def model_calls():
    """The three Model.batch_evaluate_* methods as (function, flag, wrapper, unit map, counts) -> Coq value."""
    mod, _ = parse("nessai/model.py")
    mp, _ = parse("nessai/utils/multiprocessing.py")
    for w, body in WRAP_BODY.items():
        fn = find_function(mp, w)
        rets = [s for s in strip_doc(fn.body) if isinstance(s, ast.Return)]
        if len(rets) != 1 or unparse(rets[0].value) != body:
            raise Declined(f"{w} does not simply return {body}")
    methods = {"batch_evaluate_log_likelihood": "FLik", "batch_evaluate_log_prior": "FPrior",
               "batch_evaluate_log_prior_unit_hypercube": "FPriorUH"}
    items, text = [], {}
    for name, want in methods.items():
        fn = find_function(mod, name, cls="Model")
        calls = [n for n in ast.walk(fn) if isinstance(n, ast.Call) and dotted(n.func) == "batch_evaluate_function"]
        if len(calls) != 1:
            raise Declined(f"{name}: expected one call of batch_evaluate_function")
        c = calls[0]
        args = {i: unparse(a) for i, a in enumerate(c.args)}
        kws = {k.arg: unparse(k.value) for k in c.keywords}
        func = args.get(0, kws.get("func"))
        xarg = args.get(1, kws.get("x"))
        flag = args.get(2, kws.get("vectorised"))
        wrap = kws.get("func_wrapper")
        if func not in FUNC_IDS or flag not in FLAG_IDS or wrap not in WRAP_IDS or xarg != "x":
            raise Declined(f"{name}: argument without a rule in {unparse(c)}")
        unit = any(isinstance(n, ast.If) and unparse(n.test) == "unit_hypercube"
                   and [unparse(b) for b in n.body] == ["x = self.from_unit_hypercube(x)"] for n in ast.walk(fn))
        counts = any(isinstance(n, ast.AugAssign) and dotted(n.target) == "self.likelihood_evaluations"
                     for n in ast.walk(fn))
        items.append(f"({want}, {{| m_func := {FUNC_IDS[func]}; m_flag := {FLAG_IDS[flag]}; m_wrapper := {WRAP_IDS[wrap]}; "
                     f"m_unit_map := {'true' if unit else 'false'}; m_counts := {'true' if counts else 'false'} |}})")
        text[name] = unparse(c)
    return "[" + "; ".join(items) + "]", text


if __name__ == "__main__":
    print(tree())
    print(chunks_shape())
    print(counter())
    print(counter(("Model", "evaluate_log_likelihood")))
    print(model_calls())
