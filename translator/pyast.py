"""Shared helpers for the Python-ast -> Coq translators.

Translators never execute nessai; they read /repo's current source text.
A translator either returns Coq text or raises Declined(reason): declining is
not a violation (the correspondence check then decides alone).
"""
import ast
import os

REPO = os.environ.get("NESSAI_REPO", "/repo")


class Declined(Exception):
    pass


def parse(relpath):
    path = os.path.join(REPO, relpath)
    with open(path) as fh:
        src = fh.read()
    return ast.parse(src, filename=path), src


def find_function(tree, name, cls=None):
    body = tree.body
    if cls is not None:
        for node in body:
            if isinstance(node, ast.ClassDef) and node.name == cls:
                body = node.body
                break
        else:
            raise Declined(f"class {cls} not found")
    for node in body:
        if isinstance(node, (ast.FunctionDef, ast.AsyncFunctionDef)) and node.name == name:
            return node
    raise Declined(f"function {name} not found" + (f" in {cls}" if cls else ""))


def find_class(tree, cls):
    for node in tree.body:
        if isinstance(node, ast.ClassDef) and node.name == cls:
            return node
    raise Declined(f"class {cls} not found")


def strip_doc(body):
    if body and isinstance(body[0], ast.Expr) and isinstance(getattr(body[0], "value", None), ast.Constant) \
            and isinstance(body[0].value.value, str):
        return body[1:]
    return body


def dotted(node):
    """'a.b.c' for Name/Attribute chains, else None."""
    if isinstance(node, ast.Name):
        return node.id
    if isinstance(node, ast.Attribute):
        d = dotted(node.value)
        return None if d is None else d + "." + node.attr
    return None


def is_logging(stmt):
    """logger.xxx(...) / warnings.warn(...) / print(...) / pass / bare docstrings."""
    if isinstance(stmt, ast.Pass):
        return True
    if isinstance(stmt, ast.Expr):
        v = stmt.value
        if isinstance(v, ast.Constant):
            return True
        if isinstance(v, ast.Call):
            d = dotted(v.func) or ""
            return d.startswith("logger.") or d.startswith("logging.") or d in ("warnings.warn", "warn", "print")
    return False


def names_in(node):
    return {n.id for n in ast.walk(node) if isinstance(n, ast.Name)} | \
           {dotted(n) for n in ast.walk(node) if isinstance(n, ast.Attribute) and dotted(n)}


def unparse(node):
    return ast.unparse(node)
