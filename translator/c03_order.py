"""C03 translator: order of the density-bookkeeping effects in one INS iteration
(add_new_proposal_weight + add_and_update_points) -> Coq `list eff`."""
import ast

from pyast import Declined, dotted, find_function, is_logging, parse, strip_doc, unparse

STORE = {"self.training_samples": "Train", "self.iid_samples": "Iid"}


def _store_of(text):
    for k, v in STORE.items():
        if text.startswith(k + ".") or text.startswith(k + "["):
            return k, v
    return None, None


def _writes_store(stmt):
    """Does the statement assign to / call a mutator of one of the two stores?"""
    for node in ast.walk(stmt):
        if isinstance(node, (ast.Assign, ast.AugAssign)):
            tgts = node.targets if isinstance(node, ast.Assign) else [node.target]
            for t in tgts:
                if _store_of(unparse(t))[0]:
                    return True
        if isinstance(node, ast.Call):
            d = dotted(node.func) or ""
            k, _ = _store_of(d)
            if k and d.split(".")[-1] in ("add_samples", "add_initial_samples", "remove_samples", "finalise",
                                          "add_to_nested_samples"):
                return True
    return False


def _stmt(stmt, pending):
    """-> list of effects for one statement of add_and_update_points; `pending` maps local names of drawn
    batches to the store they are later inserted into (filled when seen)."""
    u = unparse(stmt)
    # new_samples, log_q = self.draw_n_samples(n)
    if isinstance(stmt, ast.Assign) and isinstance(stmt.value, ast.Call) and dotted(stmt.value.func) == "self.draw_n_samples":
        names = [unparse(e) for e in stmt.targets[0].elts] if isinstance(stmt.targets[0], ast.Tuple) else []
        if len(names) != 2:
            raise Declined(f"draw_n_samples result bound to {unparse(stmt.targets[0])}")
        pending[names[0]] = names[1]
        return [("DRAW", names[0])]
    if not _writes_store(stmt):
        for node in ast.walk(stmt):
            if isinstance(node, ast.Call) and any(unparse(a) in STORE for a in list(node.args) + [k.value for k in node.keywords]):
                raise Declined(f"a store is handed to {dotted(node.func)}: {u[:100]}")
        return []
    if isinstance(stmt, ast.Assign) and len(stmt.targets) == 1:
        t = unparse(stmt.targets[0])
        k, sid = _store_of(t)
        v = unparse(stmt.value)
        if t == f"{k}.log_q" and v == f"self.proposal.update_log_q({k}.samples, {k}.log_q)":
            return [f"EAppendCol {sid}"]
        if t == f"{k}.samples['logQ']" and v == f"self.proposal.compute_meta_proposal_from_log_q({k}.log_q)":
            return [f"ERecomputeQ {sid}"]
        if t == f"{k}.samples['logW']" and v == f"{k}.samples['logU'] - {k}.samples['logQ']":
            return [f"ERecomputeW {sid}"]
        raise Declined(f"assignment to a store without a rule: {u[:100]}")
    if isinstance(stmt, ast.Expr) and isinstance(stmt.value, ast.Call):
        d = dotted(stmt.value.func) or ""
        k, sid = _store_of(d)
        if k and d == f"{k}.add_samples":
            args = [unparse(a) for a in stmt.value.args]
            if len(args) == 2 and args[0] in pending and pending[args[0]] == args[1]:
                return [("INSERT", args[0], sid)]
            raise Declined(f"add_samples called with {args}")
    raise Declined(f"statement touching a store without a rule: {u[:100]}")


class _Subst(ast.NodeTransformer):
    def __init__(self, mapping):
        self.mapping = mapping

    def visit_Name(self, node):
        if node.id in self.mapping:
            return ast.copy_location(ast.parse(self.mapping[node.id], mode="eval").body, node)
        return node


def _helper_call(s):
    """`self.<helper>(<args>)` as a bare statement where some argument is one of the two stores -> (name, args)."""
    if isinstance(s, ast.Expr) and isinstance(s.value, ast.Call):
        d = dotted(s.value.func) or ""
        args = [unparse(a) for a in s.value.args]
        if d.startswith("self.") and d.count(".") == 1 and any(a in STORE for a in args):
            return d.split(".")[1], args, s.value.keywords
    return None


def _inline(mod, name, args, keywords):
    """Body of the helper method with its parameters replaced by the argument texts (one level, straight-line)."""
    if keywords:
        raise Declined(f"helper {name} called with keyword arguments")
    try:
        fn = find_function(mod, name, cls="ImportanceNestedSampler")
    except Exception as e:  # noqa: BLE001
        raise Declined(f"store passed to {name}, which is not a method of ImportanceNestedSampler") from e
    a = fn.args
    if a.vararg or a.kwarg or a.kwonlyargs or a.defaults or fn.decorator_list:
        raise Declined(f"helper {name}: signature not plain positional")
    params = [x.arg for x in a.args]
    if not params or params[0] != "self" or len(params) - 1 != len(args):
        raise Declined(f"helper {name}: arity mismatch")
    mapping = dict(zip(params[1:], args))
    body = strip_doc(fn.body)
    for st in body:
        for node in ast.walk(st):
            if isinstance(node, (ast.Return, ast.Yield, ast.YieldFrom, ast.Global, ast.Nonlocal)):
                if isinstance(node, ast.Return) and node.value is None:
                    continue
                raise Declined(f"helper {name}: returns a value / generator")
            if isinstance(node, (ast.Assign, ast.AugAssign, ast.AnnAssign)):
                tg = node.targets if isinstance(node, ast.Assign) else [node.target]
                for t in tg:
                    if isinstance(t, ast.Name) and t.id in mapping:
                        raise Declined(f"helper {name}: rebinds its parameter {t.id}")
    return [ast.fix_missing_locations(_Subst(mapping).visit(st)) for st in body]


def _block(stmts, pending, out, guard_iid, mod=None, depth=0):
    for s in stmts:
        if is_logging(s):
            continue
        hc = _helper_call(s)
        if hc is not None:
            if mod is None or depth >= 2:
                raise Declined(f"store passed to helper {hc[0]} (not inlined)")
            _block(_inline(mod, *hc), pending, out, guard_iid, mod, depth + 1)
            continue
        if isinstance(s, ast.If):
            if unparse(s.test) == "self.draw_iid_live" and not s.orelse:
                _block(s.body, pending, out, True, mod, depth)
                continue
            if any(_writes_store(x) for x in s.body + s.orelse) or "draw_n_samples" in unparse(s):
                raise Declined(f"store updated under an unknown condition: {unparse(s.test)}")
            continue
        if isinstance(s, (ast.For, ast.While, ast.With, ast.Try)):
            if _writes_store(s) or "draw_n_samples" in unparse(s) or any(
                    _helper_call(x) for x in ast.walk(s) if isinstance(x, ast.Expr)):
                raise Declined("store updated inside a compound statement")
            continue
        for e in _stmt(s, pending):
            out.append((e, guard_iid))


def order():
    mod, _ = parse("nessai/samplers/importancesampler.py")
    # 1. the weight update precedes add_and_update_points in the loop body
    loop = find_function(mod, "nested_sampling_loop", cls="ImportanceNestedSampler")
    calls = [dotted(n.func) for n in ast.walk(loop) if isinstance(n, ast.Call) and dotted(n.func) in
             ("self.add_new_proposal_weight", "self.add_and_update_points")]
    # ast.walk is breadth-first; recover source order by line numbers
    ordered = sorted(((n.lineno, dotted(n.func)) for n in ast.walk(loop) if isinstance(n, ast.Call) and dotted(n.func) in
                      ("self.add_new_proposal_weight", "self.add_and_update_points")))
    names = [d for _, d in ordered]
    if names.count("self.add_and_update_points") != 1:
        raise Declined("add_and_update_points is not called exactly once in the loop")
    # 2. the weight formula
    fw = find_function(mod, "add_new_proposal_weight", cls="ImportanceNestedSampler")
    body = [unparse(s) for s in strip_doc(fw.body) if not is_logging(s)]
    need = ["n_total = len(self.samples_unit) + n_new", "self.sample_counts[iteration] = n_new",
            "new_weights = {k: v / n_total for k, v in self.sample_counts.items()}",
            "self.proposal.update_proposal_weights(new_weights)"]
    pos = []
    for n in need:
        if n not in body:
            raise Declined(f"add_new_proposal_weight: `{n}` not found")
        pos.append(body.index(n))
    if pos != sorted(pos):
        raise Declined("add_new_proposal_weight: statements in an unexpected order")
    effs = []
    for d in names:
        if d == "self.add_new_proposal_weight":
            effs.append(("EUpdateWeights", False))
        else:
            fn = find_function(mod, "add_and_update_points", cls="ImportanceNestedSampler")
            pending, out = {}, []
            _block(strip_doc(fn.body), pending, out, False, mod)
            # resolve DRAW/INSERT pairs: the store a drawn batch is inserted into
            dest = {e[1]: e[2] for e, _ in out if isinstance(e, tuple) and e[0] == "INSERT"}
            for e, g in out:
                if isinstance(e, tuple) and e[0] == "DRAW":
                    if e[1] not in dest:
                        raise Declined(f"batch {e[1]} is drawn but never inserted")
                    effs.append((f"EDraw {dest[e[1]]}", g))
                elif isinstance(e, tuple) and e[0] == "INSERT":
                    effs.append((f"EInsert {e[2]}", g))
                else:
                    effs.append((e, g))
    # effects on the independent store must all sit under `if self.draw_iid_live`
    for e, g in effs:
        if e.endswith(" Iid") and not g:
            raise Declined("independent-store effect outside `if self.draw_iid_live`")
        if e.endswith(" Train") and g:
            raise Declined("training-store effect under `if self.draw_iid_live`")
    with_iid = "[" + "; ".join(e for e, _ in effs) + "]"
    without = "[" + "; ".join(e for e, g in effs if not g) + "]"
    return with_iid, without


if __name__ == "__main__":
    a, b = order()
    print(a)
    print(b)
