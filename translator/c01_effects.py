"""C01 / C13 translator: the effect list of one iteration of the standard nested sampler.

Reads (never executes) nessai/samplers/nestedsampler.py and turns
`NestedSampler.consume_sample` (with `insert_live_point` inlined) into a list over the effect
alphabet of coq/Lib/Effects.v, one effect per Python statement, together with the comparison
operators of the two likelihood filters and the `side` of the searchsorted call, as data.

Statements that touch no tracked field become Skip.  Known-bad shapes are kept as data so that the
checker rejects them (`>=` -> Ge, side="right" -> SRight, `worst = self.live_points[0]` without the
copy -> Unknown).  Any other statement that touches a tracked field in a shape there is no rule for
raises Declined: declining is not a violation, the correspondence then decides alone.
"""
import ast

from pyast import Declined, dotted, find_function, is_logging, parse, strip_doc, unparse

SRC = "nessai/samplers/nestedsampler.py"
TRACKED = ("self.live_points", "self.nested_samples", "self.insertion_indices", "self.iteration",
           "self.state", "self.logLmin")
OPS = {ast.Gt: "Gt", ast.GtE: "Ge", ast.Lt: "Lt", ast.LtE: "Le"}


def _norm(node):
    return unparse(node).replace(" ", "").replace("'", '"')


def _touches_tracked(stmt):
    """Does the statement write to / call a mutating method on a tracked field?"""
    for n in ast.walk(stmt):
        tgts = []
        if isinstance(n, ast.Assign):
            tgts = n.targets
        elif isinstance(n, (ast.AugAssign, ast.AnnAssign)):
            tgts = [n.target]
        elif isinstance(n, ast.Delete):
            tgts = n.targets
        for t in tgts:
            for sub in ast.walk(t):
                d = dotted(sub)
                if d and any(d == tr or d.startswith(tr + ".") for tr in TRACKED):
                    return True
        if isinstance(n, ast.Call) and isinstance(n.func, ast.Attribute):
            d = dotted(n.func.value)
            if d and any(d == tr or d.startswith(tr + ".") for tr in TRACKED) \
                    and n.func.attr in ("append", "extend", "insert", "pop", "remove", "clear", "increment",
                                        "finalise", "sort", "fill", "put", "resize", "__setitem__"):
                return True
            if dotted(n.func) in ("self.insert_live_point", "self.populate_live_points", "self.finalise",
                                  "self.consume_sample"):
                return True
    return False


def _cmp(test, left, right):
    """comparison `left <op> right` -> operator name, or None"""
    if isinstance(test, ast.Compare) and len(test.ops) == 1:
        if _norm(test.left) == left and _norm(test.comparators[0]) == right:
            return OPS.get(type(test.ops[0]), "CmpOther")
        if _norm(test.left) == right and _norm(test.comparators[0]) == left:
            flip = {"Gt": "Lt", "Ge": "Le", "Lt": "Gt", "Le": "Ge"}
            return flip.get(OPS.get(type(test.ops[0]), "CmpOther"), "CmpOther")
    if isinstance(test, ast.UnaryOp) and isinstance(test.op, ast.Not):
        inner = _cmp(test.operand, left, right)
        neg = {"Gt": "Le", "Ge": "Lt", "Lt": "Ge", "Le": "Gt"}
        return neg.get(inner) if inner else None
    return None


def yield_filter(mod):
    """operator of `newparam["logL"] > self.logLmin` and presence of the logP != -inf guard"""
    fn = find_function(mod, "yield_sample", cls="NestedSampler")
    ops, guards = [], []
    for n in ast.walk(fn):
        if isinstance(n, ast.If):
            op = _cmp(n.test, 'newparam["logL"]', "self.logLmin")
            if op:
                ops.append(op)
            t = _norm(n.test)
            if t in ('newparam["logP"]!=-np.inf', 'newparam["logP"]!=-numpy.inf', '-np.inf!=newparam["logP"]',
                     'newparam["logP"]>-np.inf', 'not newparam["logP"]==-np.inf'):
                guards.append(t)
    if len(ops) != 1:
        raise Declined(f"yield_sample: expected one logL filter, found {len(ops)}")
    if len(guards) != 1:
        raise Declined("yield_sample: logP != -inf guard not recognised")
    draws = [n for n in ast.walk(fn) if isinstance(n, ast.Call) and dotted(n.func) == "self.proposal.draw"]
    if len(draws) != 1:
        raise Declined("yield_sample: expected one proposal.draw call")
    return ops[0]


def insert_effects(mod):
    """[(effect, lineno, end_lineno, text)] of insert_live_point + searchsorted side"""
    fn = find_function(mod, "insert_live_point", cls="NestedSampler")
    if [a.arg for a in fn.args.args] != ["self", "live_point"]:
        raise Declined("insert_live_point: unexpected signature")
    body = [s for s in strip_doc(fn.body) if not is_logging(s)]
    effs, side, ret_ok = [], None, False
    for s in body:
        txt = _norm(s)
        pos = (s.lineno, s.end_lineno, unparse(s))
        if isinstance(s, ast.Assign) and len(s.targets) == 1 and _norm(s.targets[0]) == "index" \
                and isinstance(s.value, ast.Call) and dotted(s.value.func) in ("np.searchsorted", "numpy.searchsorted"):
            c = s.value
            args = [_norm(a) for a in c.args]
            kws = {k.arg: k.value for k in c.keywords}
            if args[:2] != ['self.live_points["logL"]', 'live_point["logL"]'] or len(args) > 3 or \
                    set(kws) - {"side"}:
                raise Declined(f"insert_live_point: no rule for `{pos[2]}`")
            sd = kws.get("side") if "side" in kws else (c.args[2] if len(c.args) == 3 else None)
            if sd is None:
                side = "SLeft"
            elif isinstance(sd, ast.Constant) and sd.value in ("left", "right"):
                side = "SLeft" if sd.value == "left" else "SRight"
            else:
                raise Declined(f"insert_live_point: no rule for `{pos[2]}`")
            effs.append(("ComputeIdx",) + pos)
        elif txt == "self.live_points[:index-1]=self.live_points[1:index]":
            effs.append(("ShiftLive",) + pos)
        elif txt == "self.live_points[index-1]=live_point":
            effs.append(("WriteLive",) + pos)
        elif isinstance(s, ast.Return):
            ret_ok = s.value is not None and _norm(s.value) == "index-1"
            if not ret_ok:
                raise Declined(f"insert_live_point: no rule for `{pos[2]}`")
        elif _touches_tracked(s):
            raise Declined(f"insert_live_point: no rule for `{pos[2]}` (different algorithm)")
        else:
            effs.append(("Skip",) + pos)
    names = [e[0] for e in effs]
    if "ComputeIdx" not in names:
        raise Declined("insert_live_point: no searchsorted on the live points (different algorithm)")
    return effs, side or "SLeft", ret_ok


def consume_effects(mod):
    fn = find_function(mod, "consume_sample", cls="NestedSampler")
    body = strip_doc(fn.body)
    ins, side, ret_ok = insert_effects(mod)
    effs, op_c = [], None
    for s in body:
        if is_logging(s):
            continue
        txt = _norm(s)
        pos = (s.lineno, s.end_lineno, unparse(s).split("\n")[0])
        if isinstance(s, ast.Assign) and len(s.targets) == 1 and _norm(s.targets[0]) == "worst":
            if txt in ("worst=self.live_points[0].copy()", "worst=copy(self.live_points[0])",
                       "worst=copy.copy(self.live_points[0])", "worst=np.copy(self.live_points[0])"):
                effs.append(("ReadWorst",) + pos)
            elif txt == "worst=self.live_points[0]":
                effs.append(("Unknown",) + pos)   # a view instead of a copy: known-bad shape
            else:
                raise Declined(f"consume_sample: no rule for `{pos[2]}`")
        elif txt == 'self.logLmin=worst["logL"]':
            effs.append(("SetLogLmin",) + pos)
        elif txt in ('self.state.increment(worst["logL"])', "self.state.increment(self.logLmin)"):
            effs.append(("IncrState",) + pos)
        elif txt == "self.nested_samples.append(worst)":
            effs.append(("AppendDead",) + pos)
        elif isinstance(s, ast.Assign) and _norm(s.targets[0]) == "self.condition":
            effs.append(("SetCond",) + pos)
        elif txt in ("self.iteration+=1", "self.iteration=self.iteration+1"):
            effs.append(("IncrIter",) + pos)
        elif txt == "self.insertion_indices.append(index)":
            effs.append(("AppendIdx",) + pos)          # recorded after the loop instead of inside it
        elif isinstance(s, ast.While):
            sub, op = _while(s, ins, ret_ok)
            if op_c is not None:
                raise Declined("consume_sample: two replacement loops")
            op_c = op
            effs.extend(sub)
        elif _touches_tracked(s):
            raise Declined(f"consume_sample: no rule for `{pos[2]}`")
        else:
            effs.append(("Skip",) + pos)
    if op_c is None:
        raise Declined("consume_sample: replacement loop not found")
    return effs, op_c, side


def _while(w, ins, ret_ok):
    if _norm(w.test) != "True" or w.orelse:
        raise Declined("consume_sample: loop is not `while True`")
    body = [s for s in w.body if not is_logging(s)]
    effs, op_c = [], None
    seen_draw = False
    accepted = False
    for s in body:
        txt = _norm(s)
        pos = (s.lineno, s.end_lineno, unparse(s).split("\n")[0])
        if accepted:
            # the accepting branch left the loop: what follows in the loop body is the rejecting path
            # (a flattened else); it is part of Draw and must leave the tracked fields alone
            if _touches_tracked(s):
                raise Declined(f"consume_sample: rejecting path touches a tracked field: `{pos[2]}`")
            continue
        if isinstance(s, ast.Assign) and txt.endswith("=next(self.yield_sample(worst))") \
                and _norm(s.targets[0]).replace("(", "").replace(")", "") in ("c,proposed", "_,proposed"):
            effs.append(("Draw", w.lineno, s.end_lineno, unparse(s)))
            seen_draw = True
        elif isinstance(s, ast.If) and _cmp(s.test, 'proposed["logL"]', "self.logLmin"):
            if not seen_draw:
                raise Declined("consume_sample: acceptance test before the draw")
            op_c = _cmp(s.test, 'proposed["logL"]', "self.logLmin")
            # the rejecting branch must leave the tracked fields alone: it is part of Draw
            for t in s.orelse:
                if _touches_tracked(t):
                    raise Declined(f"consume_sample: rejecting branch touches a tracked field: `{unparse(t)}`")
            ends_break = False
            for t in s.body:
                if is_logging(t):
                    continue
                tt = _norm(t)
                tpos = (t.lineno, t.end_lineno, unparse(t).split("\n")[0])
                if tt == 'proposed["it"]=self.iteration':
                    effs.append(("SetIt",) + tpos)
                elif tt == "index=self.insert_live_point(proposed)":
                    effs.extend(ins)
                elif tt == "self.insertion_indices.append(index)":
                    effs.append(("AppendIdx",) + tpos)
                elif isinstance(t, ast.Break):
                    ends_break = True
                elif _touches_tracked(t):
                    raise Declined(f"consume_sample: no rule for `{tpos[2]}`")
                else:
                    effs.append(("Skip",) + tpos)
            if not ends_break:
                raise Declined("consume_sample: accepting branch does not leave the loop")
            accepted = True
        elif _touches_tracked(s):
            raise Declined(f"consume_sample: no rule for `{pos[2]}`")
        else:
            effs.append(("Skip",) + pos)
    if not seen_draw or op_c is None:
        raise Declined("consume_sample: draw / acceptance test not recognised")
    return effs, op_c


def skeleton():
    """-> dict(params=(op_y, op_c, side), effs=[(name, lineno, end_lineno, text)], coq=<Coq term>)"""
    mod, _ = parse(SRC)
    op_y = yield_filter(mod)
    effs, op_c, side = consume_effects(mod)
    coq = f"(mksk (mkparams {op_y} {op_c} {side}) [" + "; ".join(e[0] for e in effs) + "])"
    return {"params": (op_y, op_c, side), "effs": effs, "coq": coq}


def populate_shape():
    """populate_live_points must sort the drawn points by logL before they become the live set."""
    mod, _ = parse(SRC)
    fn = find_function(mod, "populate_live_points", cls="NestedSampler")
    sorts = []
    for n in ast.walk(fn):
        if isinstance(n, ast.Assign) and any(_norm(t) == "self.live_points" for t in n.targets):
            sorts.append(_norm(n.value))
    ok = [s for s in sorts if s in ('np.sort(live_points,order="logL")', 'numpy.sort(live_points,order="logL")')]
    if len(sorts) == 1 and ok:
        return "sorted-by-logL"
    raise Declined(f"populate_live_points: live_points assigned as {sorts}")


def finalise_shape():
    """finalise: for i, p in enumerate(live_points): increment(p.logL, nlive - i); append(p)"""
    mod, _ = parse(SRC)
    fn = find_function(mod, "finalise", cls="NestedSampler")
    loops = [n for n in fn.body if isinstance(n, ast.For)]
    if len(loops) != 1:
        raise Declined("finalise: expected one loop over the live points")
    lp = loops[0]
    if _norm(lp.iter) != "enumerate(self.live_points)":
        raise Declined("finalise: loop is not over enumerate(self.live_points)")
    body = [_norm(s) for s in lp.body if not is_logging(s)]
    if body != ['self.state.increment(p["logL"],nlive=self.nlive-i)', "self.nested_samples.append(p)"]:
        raise Declined(f"finalise: loop body {body}")
    return "increment+append per live point, nlive - i"


if __name__ == "__main__":
    sk = skeleton()
    print(sk["coq"])
    for e in sk["effs"]:
        print(e)
    print(populate_shape(), "|", finalise_shape())
