"""C20 translator (tie A, part ii): option validation.

  check_configuration()   ImportanceNestedSampler.check_configuration -> Gallina decision function
  aliases()               ImportanceNestedSampler.stopping_criterion_aliases -> [(criterion, [aliases])]
  base_proposals()        the dictionary inside get_flow_proposal_class -> [(key, class name)]
  cpk_shape()             textual shape check of check_proposal_kwargs / update_training_config
  pipeline(sampler)       ordered events (validators, constructions, first sampling step) met when the
                          statements of FlowSampler.__init__ and FlowSampler.run_* are followed, calls
                          being inlined by name along the classes of that sampler

Never imports nessai.  Raises Declined(reason) on a shape without a rule.
"""
import ast

from pyast import Declined, dotted, find_class, find_function, is_logging, parse, strip_doc, unparse

CC_NAMES = {"self.min_samples": "min_s", "self.min_remove": "min_r", "self.max_samples": "max_s",
            "self.nlive": "nlive"}


def _cc_int(e):
    u = unparse(e)
    if u in CC_NAMES:
        return CC_NAMES[u]
    if isinstance(e, ast.Constant) and isinstance(e.value, int) and not isinstance(e.value, bool):
        return f"({e.value})" if e.value < 0 else str(e.value)
    if isinstance(e, ast.BinOp) and isinstance(e.op, (ast.Add, ast.Sub, ast.Mult)):
        op = {ast.Add: "+", ast.Sub: "-", ast.Mult: "*"}[type(e.op)]
        return f"({_cc_int(e.left)} {op} {_cc_int(e.right)})"
    raise Declined(f"check_configuration: integer expression without a rule: {u}")


def _cc_bool(e):
    u = unparse(e)
    if u in ("self.max_samples", "self.max_samples is not None"):
        return "(negb (max_s =? 0))"
    if isinstance(e, ast.BoolOp):
        op = "&&" if isinstance(e.op, ast.And) else "||"
        return "(" + f" {op} ".join(_cc_bool(v) for v in e.values) + ")"
    if isinstance(e, ast.UnaryOp) and isinstance(e.op, ast.Not):
        return f"(negb {_cc_bool(e.operand)})"
    if isinstance(e, ast.Compare) and len(e.ops) == 1:
        a, b = _cc_int(e.left), _cc_int(e.comparators[0])
        op = {ast.Eq: "=?", ast.Lt: "<?", ast.LtE: "<=?", ast.Gt: ">?", ast.GtE: ">=?"}.get(type(e.ops[0]))
        if op:
            return f"({a} {op} {b})"
        if isinstance(e.ops[0], ast.NotEq):
            return f"(negb ({a} =? {b}))"
    raise Declined(f"check_configuration: test without a rule: {u}")


def check_configuration():
    mod, _ = parse("nessai/samplers/importancesampler.py")
    fn = find_function(mod, "check_configuration", cls="ImportanceNestedSampler")
    body = [s for s in strip_doc(fn.body) if not is_logging(s)]
    tests = []
    for s in body:
        if isinstance(s, ast.If) and not s.orelse and len([x for x in s.body if not is_logging(x)]) == 1 \
                and isinstance([x for x in s.body if not is_logging(x)][0], ast.Raise):
            tests.append(_cc_bool(s.test))
        elif isinstance(s, ast.Return):
            if unparse(s.value) != "True":
                raise Declined(f"check_configuration returns {unparse(s.value)}")
            break
        else:
            raise Declined(f"check_configuration: statement without a rule: {unparse(s)[:80]}")
    term = "Accept"
    for i in reversed(range(len(tests))):
        term = f"if {tests[i]} then Reject {i} else {term}"
    return ("Definition gen_check_configuration (min_s min_r max_s nlive : Z) : vres :=\n  " + term + ".\n", len(tests))


def _str_list(e, what):
    if isinstance(e, (ast.List, ast.Tuple, ast.Set)) and all(
            isinstance(x, ast.Constant) and isinstance(x.value, str) for x in e.elts):
        return [x.value for x in e.elts]
    raise Declined(f"{what}: not a list of string literals: {unparse(e)[:60]}")


def aliases():
    mod, _ = parse("nessai/samplers/importancesampler.py")
    cls = find_class(mod, "ImportanceNestedSampler")
    for s in cls.body:
        if isinstance(s, ast.Assign) and any(unparse(t) == "stopping_criterion_aliases" for t in s.targets):
            v = s.value
            if isinstance(v, ast.Call) and dotted(v.func) == "dict" and not v.args:
                return [(k.arg, _str_list(k.value, "alias")) for k in v.keywords]
            if isinstance(v, ast.Dict):
                return [(k.value, _str_list(x, "alias")) for k, x in zip(v.keys, v.values)]
            raise Declined("stopping_criterion_aliases is not a dict(...) / {...} literal")
    raise Declined("stopping_criterion_aliases not found")


def base_proposals():
    mod, _ = parse("nessai/proposal/utils.py")
    fn = find_function(mod, "get_flow_proposal_class")
    for s in ast.walk(fn):
        if isinstance(s, ast.Assign) and unparse(s.targets[0]) == "base_proposals" and isinstance(s.value, ast.Dict):
            out = []
            for k, v in zip(s.value.keys, s.value.values):
                if not (isinstance(k, ast.Constant) and isinstance(k.value, str) and isinstance(v, ast.Name)):
                    raise Declined("base_proposals: entry is not 'key': ClassName")
                out.append((k.value, v.id))
            return out
    raise Declined("base_proposals dictionary not found")


def shapes():
    """the parts of the hand models that are compared textually (notes, not obligations)"""
    out = {}
    mod, _ = parse("nessai/proposal/utils.py")
    fn = find_function(mod, "check_proposal_kwargs")
    txt = unparse(fn)
    out["check_proposal_kwargs"] = {
        "extra = keys - class_keys": "extra_keys = keys - class_keys" in txt,
        "strict raises": "elif strict:\n        raise RuntimeError" in txt,
        "invalid = extra - allowed": "invalid_keys = extra_keys - allowed_extra_keys" in txt,
        "extras popped": "kwargs_out.pop(key)" in txt,
    }
    mod, _ = parse("nessai/flowmodel/utils.py")
    fn = find_function(mod, "update_training_config")
    txt = unparse(fn)
    out["update_training_config"] = {
        "type without scale raises": "default['noise_type'] is not None and default['noise_scale'] is None" in txt,
        "float scale defaults type": "isinstance(default['noise_scale'], float)" in txt,
        "non-float scale raises": "elif default['noise_scale'] is not None:\n        raise TypeError" in txt,
    }
    return out


# ---------------------------------------------------------------------------------------------------
VALIDATOR_FUNCS = {"get_flow_proposal_class", "check_proposal_kwargs", "update_config", "update_flow_config",
                   "update_training_config"}
VALIDATOR_METHODS = {"check_configuration", "configure_stopping_criterion"}
SAMPLE_METHODS = {"populate_live_points"}

FILES = {
    "FlowSampler": "nessai/flowsampler.py",
    "NestedSampler": "nessai/samplers/nestedsampler.py",
    "ImportanceNestedSampler": "nessai/samplers/importancesampler.py",
    "BaseNestedSampler": "nessai/samplers/base.py",
    "FlowProposal": "nessai/proposal/flowproposal.py",
    "RejectionProposal": "nessai/proposal/rejection.py",
    "Proposal": "nessai/proposal/base.py",
    "ImportanceFlowProposal": "nessai/proposal/importance.py",
    "FlowModel": "nessai/flowmodel/base.py",
    "ImportanceFlowModel": "nessai/flowmodel/importance.py",
}
MRO = {
    "FlowSampler": ["FlowSampler"],
    "NestedSampler": ["NestedSampler", "BaseNestedSampler"],
    "ImportanceNestedSampler": ["ImportanceNestedSampler", "BaseNestedSampler"],
    "FlowProposal": ["FlowProposal", "RejectionProposal", "Proposal"],
    "ImportanceFlowProposal": ["ImportanceFlowProposal", "Proposal"],
    "FlowModel": ["FlowModel"],
    "ImportanceFlowModel": ["ImportanceFlowModel", "FlowModel"],
}


class Pipeline:
    def __init__(self, sampler):
        self.sampler = sampler
        self.cls = {}
        for c, f in FILES.items():
            mod, _ = parse(f)
            self.cls[c] = find_class(mod, c)
        if sampler == "std":
            self.hints = {"ns": "NestedSampler", "SamplerClass": "NestedSampler", "ProposalClass": "FlowProposal",
                          "_flow_proposal": "FlowProposal", "proposal": "FlowProposal", "flow": "FlowModel",
                          "_FlowModelClass": "FlowModel", "FlowModel": "FlowModel"}
        else:
            self.hints = {"ns": "ImportanceNestedSampler", "SamplerClass": "ImportanceNestedSampler",
                          "ImportanceFlowProposal": "ImportanceFlowProposal", "proposal": "ImportanceFlowProposal",
                          "flow": "ImportanceFlowModel", "ImportanceFlowModel": "ImportanceFlowModel",
                          "FlowModel": "FlowModel"}
        self.events = []
        self.inlined = 0

    def method(self, cls, name, start=0):
        for c in MRO[cls][start:]:
            fns = [s for s in self.cls[c].body if isinstance(s, ast.FunctionDef) and s.name == name]
            getter = [f for f in fns if not any((dotted(d) or "").endswith(".setter") for d in f.decorator_list)]
            if getter:
                return c, getter[0]
        return None

    def setter(self, cls, name):
        for c in MRO[cls]:
            for s in self.cls[c].body:
                if isinstance(s, ast.FunctionDef) and s.name == name and \
                        any((dotted(d) or "") == f"{name}.setter" for d in s.decorator_list):
                    return c, s
        return None

    def inline(self, cls, owner, fn, stack):
        key = (owner, fn.name)
        if key in stack or len(stack) > 12 or self.inlined > 4000:
            return
        self.inlined += 1
        if any((dotted(d) or "") == "property" for d in fn.decorator_list):
            return
        for s in fn.body:
            self.stmt(cls, owner, s, stack + [key])

    def stmt(self, cls, owner, node, stack):
        """visit in evaluation order: children first for expressions, bodies in order for statements"""
        if isinstance(node, (ast.FunctionDef, ast.ClassDef, ast.Lambda)):
            return
        if isinstance(node, ast.Call):
            for a in list(node.args) + [k.value for k in node.keywords]:
                self.stmt(cls, owner, a, stack)
            if isinstance(node.func, ast.Attribute):
                self.stmt(cls, owner, node.func.value, stack)
            self.call(cls, owner, node, stack)
            return
        if isinstance(node, ast.Assign):
            self.stmt(cls, owner, node.value, stack)
            for t in node.targets:
                if isinstance(t, ast.Attribute) and isinstance(t.value, ast.Name) and t.value.id == "self":
                    st = self.setter(cls, t.attr)
                    if st:
                        self.inline(cls, st[0], st[1], stack)
            return
        for ch in ast.iter_child_nodes(node):
            self.stmt(cls, owner, ch, stack)

    def call(self, cls, owner, node, stack):
        f = node.func
        if isinstance(f, ast.Name):
            if f.id in VALIDATOR_FUNCS:
                self.events.append(("V", f.id))
                return
            if f.id in self.hints:
                target = self.hints[f.id]
                self.events.append(("C", f.id))
                m = self.method(target, "__init__")
                if m:
                    self.inline(target, m[0], m[1], stack)
            return
        if not isinstance(f, ast.Attribute):
            return
        name = f.attr
        recv = f.value
        # super().m(...)
        if isinstance(recv, ast.Call) and dotted(recv.func) == "super":
            idx = MRO[cls].index(owner) + 1 if owner in MRO[cls] else len(MRO[cls])
            m = self.method(cls, name, idx)
            if m:
                self.inline(cls, m[0], m[1], stack)
            return
        target = None
        if isinstance(recv, ast.Name) and recv.id == "self":
            target = cls
            if name in self.hints and self.method(cls, name) is None:      # self._FlowModelClass(...)
                t2 = self.hints[name]
                self.events.append(("C", name))
                m = self.method(t2, "__init__")
                if m:
                    self.inline(t2, m[0], m[1], stack)
                return
        elif isinstance(recv, ast.Attribute) and isinstance(recv.value, ast.Name) and recv.value.id == "self" \
                and recv.attr in self.hints:
            target = self.hints[recv.attr]
        elif isinstance(recv, ast.Name) and recv.id in self.hints:
            target = self.hints[recv.id]
        if target is None:
            return
        if name in VALIDATOR_METHODS:
            self.events.append(("V", name))
        if name in SAMPLE_METHODS:
            self.events.append(("S", name))
        m = self.method(target, name)
        if m:
            self.inline(target, m[0], m[1], stack)

    def run(self):
        init = self.method("FlowSampler", "__init__")
        run = self.method("FlowSampler", "run_standard_sampler" if self.sampler == "std" else "run_importance_nested_sampler")
        if not init or not run:
            raise Declined("FlowSampler.__init__ / run_* not found")
        self.inline("FlowSampler", init[0], init[1], [])
        self.events.append(("C", "<FlowSampler.__init__ returns>"))
        self.inline("FlowSampler", run[0], run[1], [])
        if not any(k == "S" for k, _ in self.events):
            raise Declined("no sampling step found on the pipeline")
        return self.events


def pipeline(sampler):
    return Pipeline(sampler).run()


# ---------------------------------------------------------------------------------------------------
# FlowModel.prep_data: the batch size handed to the validation DataLoader
def _vb_int(e):
    u = unparse(e)
    if u in ("len(x_val)", "x_val.shape[0]", "x_val.size"):
        return "n_val"
    if u == "batch_size":
        return "bs"
    if isinstance(e, ast.Constant) and isinstance(e.value, int) and not isinstance(e.value, bool):
        return f"({e.value})" if e.value < 0 else str(e.value)
    if isinstance(e, ast.Call) and dotted(e.func) in ("min", "max", "np.minimum", "np.maximum") and len(e.args) == 2 \
            and not e.keywords:
        f = "Z.min" if dotted(e.func) in ("min", "np.minimum") else "Z.max"
        return f"({f} {_vb_int(e.args[0])} {_vb_int(e.args[1])})"
    if isinstance(e, ast.BinOp) and isinstance(e.op, (ast.Add, ast.Sub)):
        return f"({_vb_int(e.left)} {'+' if isinstance(e.op, ast.Add) else '-'} {_vb_int(e.right)})"
    raise Declined(f"val_batch_size: integer expression without a rule: {u}")


def _vb_test(e):
    u = unparse(e)
    if u in ("len(x_val)", "x_val.shape[0]", "x_val.size", "len(x_val) > 0", "len(x_val) != 0"):
        return "(negb (n_val =? 0))"
    if u in ("not len(x_val)", "len(x_val) == 0"):
        return "(n_val =? 0)"
    if isinstance(e, ast.Compare) and len(e.ops) == 1:
        op = {ast.Eq: "=?", ast.Lt: "<?", ast.LtE: "<=?", ast.Gt: ">?", ast.GtE: ">=?"}.get(type(e.ops[0]))
        if op:
            return f"({_vb_int(e.left)} {op} {_vb_int(e.comparators[0])})"
    raise Declined(f"val_batch_size: test without a rule: {u}")


def _vb_opt(e):
    if isinstance(e, ast.Constant) and e.value is None:
        return "None"
    if isinstance(e, ast.IfExp):
        return f"(if {_vb_test(e.test)} then {_vb_opt(e.body)} else {_vb_opt(e.orelse)})"
    return f"(Some {_vb_int(e)})"


def val_batch_size():
    """the expression assigned to val_batch_size in FlowModel.prep_data -> Gallina `gen_val_batch_size n_val bs`;
    also checks that the two DataLoader calls take batch_size / val_batch_size"""
    mod, _ = parse("nessai/flowmodel/base.py")
    fn = find_function(mod, "prep_data", cls="FlowModel")
    asg = [n for n in ast.walk(fn) if isinstance(n, ast.Assign) and len(n.targets) == 1
           and unparse(n.targets[0]) == "val_batch_size"]
    if len(asg) != 1:
        raise Declined(f"prep_data: {len(asg)} assignments to val_batch_size")
    term = _vb_opt(asg[0].value)
    loaders = [n for n in ast.walk(fn) if isinstance(n, ast.Call) and (dotted(n.func) or "").endswith("DataLoader")]
    sizes = sorted(unparse(k.value) for n in loaders for k in n.keywords if k.arg == "batch_size")
    if sizes != ["batch_size", "val_batch_size"]:
        raise Declined(f"prep_data: DataLoader batch sizes are {sizes}")
    chk = [n for n in ast.walk(fn) if isinstance(n, ast.Assign) and unparse(n.targets[0]) == "batch_size"
           and "check_batch_size" in unparse(n.value)]
    if len(chk) != 1 or chk[0].lineno > asg[0].lineno:
        raise Declined("prep_data: batch_size is not passed through check_batch_size before val_batch_size")
    return f"Definition gen_val_batch_size (n_val bs : Z) : option Z :=\n  {term}.\n", unparse(asg[0].value)


# ---------------------------------------------------------------------------------------------------
# FlowProposal.populate: emptiness guards of one pass of the loop
REDUCE_ATTRS = {"max", "min", "argmax", "argmin", "ptp"}
REDUCE_FUNCS = {"np.max", "np.min", "np.nanmax", "np.nanmin", "np.amax", "np.amin", "np.argmax", "np.argmin",
                "np.nanargmax", "np.nanargmin", "max", "min"}


class GuardPaths:
    """event lists (Shrink / Guard / Reduce) of every path through one pass of `while <var> < N` in
    FlowProposal.populate.  Batch-length names: the targets of the backward pass, of every later assignment whose
    value mentions one of them (get_subset_arrays, compute_weights, comparisons); a reduction counts when its
    operand mentions a batch-length name that is not an accumulated array."""

    def __init__(self, fn):
        loops = [n for n in ast.walk(fn) if isinstance(n, ast.While)]
        loops = [w for w in loops if any(isinstance(c, ast.Compare) and isinstance(c.ops[0], ast.Lt)
                                         and isinstance(c.comparators[0], ast.Name) and c.comparators[0].id == "N"
                                         for c in ast.walk(w.test))]
        if len(loops) != 1:
            raise Declined(f"populate: {len(loops)} loops `while <var> < N`")
        self.loop = loops[0]
        self.batch = set()
        self.paths = []

    def names(self, e):
        return {n.id for n in ast.walk(e) if isinstance(n, ast.Name)}

    def expr_events(self, e, batch):
        ev = []
        for n in ast.walk(e):
            if isinstance(n, ast.Call):
                d = dotted(n.func) or ""
                if isinstance(n.func, ast.Attribute) and n.func.attr in REDUCE_ATTRS and not n.args \
                        and self.names(n.func.value) & batch:
                    ev.append("R")
                elif d in REDUCE_FUNCS and len(n.args) == 1 and self.names(n.args[0]) & batch:
                    ev.append("R")
        return ev

    def is_guard(self, s, batch):
        if not (isinstance(s, ast.If) and not s.orelse and len(s.body) == 1 and isinstance(s.body[0], ast.Continue)):
            return False
        t = s.test
        u = unparse(t)
        for b in batch:
            if u in (f"not len({b})", f"len({b}) == 0", f"not {b}.size", f"{b}.size == 0", f"not {b}.shape[0]"):
                return True
        return False

    def walk(self, stmts, events, batch):
        if len(self.paths) > 200:
            raise Declined("populate: too many paths")
        if not stmts:
            self.paths.append(events)
            return
        s, rest = stmts[0], list(stmts[1:])
        if is_logging(s):
            return self.walk(rest, events, batch)
        if isinstance(s, (ast.Continue, ast.Break)):
            self.paths.append(events)
            return
        if self.is_guard(s, batch):
            return self.walk(rest, events + ["G"], batch)
        if isinstance(s, ast.If):
            ev = events + self.expr_events(s.test, batch)
            self.walk(list(s.body) + rest, ev, set(batch))
            self.walk(list(s.orelse) + rest, ev, set(batch))
            return
        if isinstance(s, (ast.For, ast.While, ast.With, ast.Try)):
            raise Declined(f"populate: compound statement without a rule inside the loop: {unparse(s)[:60]}")
        ev = events + self.expr_events(s, batch)
        batch = set(batch)
        if isinstance(s, (ast.Assign, ast.AugAssign, ast.AnnAssign)):
            tg = s.targets if isinstance(s, ast.Assign) else [s.target]
            tnames = {n.id for t in tg for n in ast.walk(t) if isinstance(n, ast.Name) and not
                      isinstance(getattr(n, "ctx", None), ast.Load)}
            val = s.value
            if val is not None:
                u = unparse(val)
                if "backward_pass" in u:
                    batch |= tnames
                    ev = ev + ["S"]
                elif isinstance(val, ast.Call) and (dotted(val.func) or "").endswith("get_subset_arrays"):
                    batch |= tnames
                    ev = ev + ["S"]
                elif self.names(val) & batch and not ("concatenate" in u):
                    # same length as the batch (weights, masks); a mask-indexed copy shrinks
                    batch |= {t for t in tnames if t not in ("samples",)}
                    if isinstance(val, ast.Subscript) and tnames & batch:
                        ev = ev + ["S"]
        self.walk(rest, ev, batch)

    def run(self):
        self.walk(list(self.loop.body), [], set())
        if not any("S" in p for p in self.paths):
            raise Declined("populate: no backward pass found in the loop")
        uniq = []
        for p in self.paths:
            if p not in uniq:
                uniq.append(p)
        return uniq


def populate_guard_paths():
    mod, _ = parse("nessai/proposal/flowproposal.py")
    fn = find_function(mod, "populate", cls="FlowProposal")
    return GuardPaths(fn).run()


# ---------------------------------------------------------------------------------------------------
def reparam_registry():
    """registered reparameterisation names -> (class name, default keyword names), read from the dictionary
    literal nessai.reparameterisations.default_reparameterisations"""
    mod, _ = parse("nessai/reparameterisations/__init__.py")
    for s in mod.body:
        if isinstance(s, ast.Assign) and any(unparse(t) == "default_reparameterisations" for t in s.targets) \
                and isinstance(s.value, ast.Dict):
            out = []
            for k, v in zip(s.value.keys, s.value.values):
                if not (isinstance(k, ast.Constant) and isinstance(k.value, str)):
                    continue                      # the None key
                if not (isinstance(v, ast.Tuple) and len(v.elts) == 2 and isinstance(v.elts[0], ast.Name)):
                    raise Declined(f"registry entry {k.value}: not (Class, kwargs)")
                kw = v.elts[1]
                keys = [x.value for x in kw.keys] if isinstance(kw, ast.Dict) else []
                out.append((k.value, v.elts[0].id, keys))
            return out
    raise Declined("default_reparameterisations dictionary not found")


if __name__ == "__main__":
    print(check_configuration()[0])
    print(aliases())
    print(base_proposals())
    print(shapes())
    print(reparam_registry())
    print(val_batch_size())
    for p_ in populate_guard_paths():
        print("path", "".join(p_))
    for s in ("std", "ins"):
        ev = pipeline(s)
        print(s, len(ev), ev[:40])
        first = next(i for i, e in enumerate(ev) if e[0] == "S")
        print("  first sample at", first, "validators after:", [e for e in ev[first:] if e[0] == "V"])
