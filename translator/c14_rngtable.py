"""C14 translator: the randomness / set-iteration / pool-usage table of the WHOLE nessai package.

Walks every .py file under <repo>/nessai (Python ast, nothing is executed) and emits Coq `entry`
values (Model/C14_Repro.v):

  ERand site src       every consumer or (re)seeder of randomness:
                         np.random.<fn> (call or reference), torch rand*/normal/multinomial/..., tensor
                         .normal_()/.uniform_()/..., <x>.rvs(...), <x>.sample/rsample/sample_and_log_prob(...),
                         np.random.default_rng / Generator / SeedSequence / RandomState, torch.Generator /
                         generator=, torch.seed, stdlib random, os.urandom / secrets / uuid, seeds built from time
  ESetIter site sink   every iteration over a set-typed expression, classified by what the order can reach
  EPoolRead site attr  every READ of .pool / .n_pool / .likelihood_chunksize
  ESeedCall site       every call of <x>.configure_random_seed(...)

site = "<path under nessai/>::<Class.function | function | <module>>".
"""
import ast
import os

from pyast import REPO, Declined, dotted

TORCH_FUNCS = {"rand", "randn", "randint", "randperm", "normal", "multinomial", "bernoulli", "poisson",
               "rand_like", "randn_like", "randint_like"}
TENSOR_INPLACE = {"normal_", "uniform_", "random_", "bernoulli_", "exponential_", "cauchy_", "geometric_", "log_normal_"}
SAMPLE_METHODS = {"sample", "rsample", "sample_and_log_prob", "sample_n"}
POOL_ATTRS = {"pool", "n_pool", "likelihood_chunksize"}
SET_CONVERTERS = {"list", "tuple", "np.array", "numpy.array", "np.asarray", "np.fromiter", "enumerate", "iter", "next"}


def cstr(s):
    return '"' + s.replace('"', '""') + '"%string'


class FileScan(ast.NodeVisitor):
    def __init__(self, rel, tree):
        self.rel = rel
        self.stack = []
        self.entries = []          # (kind, site, detail, lineno)
        self.alias = {}            # local name -> dotted module path
        self.from_random = set()
        for node in ast.walk(tree):
            if isinstance(node, ast.Import):
                for a in node.names:
                    self.alias[(a.asname or a.name).split(".")[0]] = a.name if a.asname else a.name.split(".")[0]
            elif isinstance(node, ast.ImportFrom) and node.module:
                for a in node.names:
                    self.alias[a.asname or a.name] = node.module + "." + a.name
                    if node.module == "random":
                        self.from_random.add(a.asname or a.name)
        self.set_names = [set()]

    # ---- helpers -------------------------------------------------------------------------------
    def site(self):
        return self.rel + "::" + (".".join(self.stack) if self.stack else "<module>")

    def resolve(self, node):
        d = dotted(node)
        if d is None:
            return None
        head, _, rest = d.partition(".")
        if head in self.alias:
            return self.alias[head] + ("." + rest if rest else "")
        return d

    def add(self, kind, detail, node):
        self.entries.append((kind, self.site(), detail, getattr(node, "lineno", 0)))

    # ---- scopes ----------------------------------------------------------------------------------
    def visit_ClassDef(self, node):
        self.stack.append(node.name)
        self.generic_visit(node)
        self.stack.pop()

    def seed_guards(self, fn):
        """the test guarding every `seed = <drawn from np.random>` in configure_random_seed"""
        def classify(test, in_else):
            u = ast.unparse(test)
            var = "seed"
            if u in (f"{var} is None", f"{var} == None", f"None is {var}", f"None == {var}"):
                return "GOtherGuard" if in_else else "GIsNone"
            if u in (f"{var} is not None", f"{var} != None"):
                return "GIsNone" if in_else else "GOtherGuard"
            if u == f"not {var}":
                return "GOtherGuard" if in_else else "GTruthiness"
            if u == var:
                return "GTruthiness" if in_else else "GOtherGuard"
            return "GOtherGuard"

        def draws(stmt):
            return isinstance(stmt, ast.Assign) and any(ast.unparse(t) in ("seed", "self.seed") for t in stmt.targets) \
                and any((self.resolve(n) or "").startswith("numpy.random.") for n in ast.walk(stmt.value)
                        if isinstance(n, ast.Attribute))

        def walk(stmts, guard):
            for s_ in stmts:
                if draws(s_):
                    self.add("seedguard", guard or "GUnconditional", s_)
                elif isinstance(s_, ast.If):
                    inner = guard and "GOtherGuard"        # nested tests: no rule
                    walk(s_.body, inner or classify(s_.test, False))
                    walk(s_.orelse, inner or classify(s_.test, True))
                elif isinstance(s_, (ast.For, ast.While, ast.With, ast.Try)):
                    for blk in ("body", "orelse", "finalbody"):
                        walk(getattr(s_, blk, []) or [], "GOtherGuard")
        walk(fn.body, None)

    # ---- draws under a condition that reads the file system ---------------------------------------
    FS_CALLS = {"os.path.exists", "os.path.isfile", "os.path.isdir", "os.path.lexists", "os.path.getsize",
                "os.path.getmtime", "os.listdir", "os.scandir", "os.stat", "os.access", "os.walk",
                "glob.glob", "glob.iglob", "pathlib.Path.exists"}
    FS_METHODS = {"exists", "is_file", "is_dir", "glob", "rglob", "iterdir", "stat"}

    def fs_read(self, test):
        for n in ast.walk(test):
            if isinstance(n, ast.Call):
                r = self.resolve(n.func) or ""
                if r in self.FS_CALLS or r.endswith(".path.exists") or r.endswith(".path.isfile") or r.endswith(".path.isdir"):
                    return r
                if isinstance(n.func, ast.Attribute) and n.func.attr in self.FS_METHODS and not r.startswith(("numpy", "np.", "torch")):
                    recv = ast.unparse(n.func.value)
                    if "path" in recv.lower() or "dir" in recv.lower() or "file" in recv.lower() or "output" in recv.lower():
                        return recv + "." + n.func.attr
        return None

    def is_draw(self, node):
        for n in ast.walk(node):
            if isinstance(n, ast.Attribute):
                r = self.resolve(n) or ""
                if r.startswith("numpy.random.") and r.count(".") == 2:
                    return ast.unparse(n)
            if isinstance(n, ast.Call):
                r = self.resolve(n.func) or ""
                if r.startswith("torch.") and r.split(".")[-1] in TORCH_FUNCS and r.count(".") <= 2:
                    return r
                if isinstance(n.func, ast.Attribute) and (n.func.attr == "rvs" or n.func.attr in TENSOR_INPLACE
                                                          or n.func.attr in SAMPLE_METHODS):
                    return ast.unparse(n.func)
        return None

    def env_guards(self, fn):
        def exits(stmts):
            return any(isinstance(n, (ast.Return, ast.Raise, ast.Continue, ast.Break)) for s_ in stmts for n in ast.walk(s_))

        def block(stmts):
            for i, s_ in enumerate(stmts):
                if isinstance(s_, (ast.If, ast.While)):
                    what = self.fs_read(s_.test)
                    if what:
                        inner = [self.is_draw(x) for x in list(s_.body) + list(s_.orelse)]
                        after = [self.is_draw(x) for x in stmts[i + 1:]] if (exits(s_.body) or exits(s_.orelse)) else []
                        for d in [x for x in inner + after if x][:1]:
                            self.add("envguard", f"{what} guards {d}", s_)
                for name in ("body", "orelse", "finalbody"):
                    sub = getattr(s_, name, None)
                    if isinstance(sub, list) and sub and isinstance(sub[0], ast.stmt) and not isinstance(s_, (ast.FunctionDef, ast.ClassDef)):
                        block(sub)
                for h_ in getattr(s_, "handlers", []) or []:
                    block(h_.body)
        block(fn.body)

    def visit_FunctionDef(self, node):
        self.stack.append(node.name)
        self.env_guards(node)
        if node.name == "configure_random_seed":
            self.seed_guards(node)
        self.set_names.append(self.infer_set_names(node))
        self.generic_visit(node)
        self.set_names.pop()
        self.stack.pop()

    visit_AsyncFunctionDef = visit_FunctionDef

    # ---- set-typed expressions ---------------------------------------------------------------------
    def is_set(self, e, names=None):
        names = self.set_names[-1] if names is None else names
        if isinstance(e, (ast.Set, ast.SetComp)):
            return True
        if isinstance(e, ast.Name):
            return e.id in names
        if isinstance(e, ast.Call):
            d = dotted(e.func)
            if d in ("set", "frozenset"):
                return True
            if isinstance(e.func, ast.Attribute) and e.func.attr in ("union", "intersection", "difference",
                                                                     "symmetric_difference", "copy"):
                return self.is_set(e.func.value, names)
            return False
        if isinstance(e, ast.BinOp) and isinstance(e.op, (ast.Sub, ast.BitOr, ast.BitAnd, ast.BitXor)):
            def keyview(x):
                return isinstance(x, ast.Call) and isinstance(x.func, ast.Attribute) and x.func.attr in ("keys", "items")
            return self.is_set(e.left, names) or self.is_set(e.right, names) or keyview(e.left) or keyview(e.right)
        return False

    @classmethod
    def int_set(cls, e):
        if isinstance(e, ast.Set):
            return all(isinstance(x, ast.Constant) and isinstance(x.value, int) and not isinstance(x.value, bool) for x in e.elts)
        if isinstance(e, ast.BinOp) and isinstance(e.op, (ast.Sub, ast.BitAnd)):
            return cls.int_set(e.left)
        return False

    def infer_set_names(self, fn):
        names = set()
        changed = True
        while changed:
            changed = False
            for n in ast.walk(fn):
                if isinstance(n, ast.Assign) and len(n.targets) == 1 and isinstance(n.targets[0], ast.Name):
                    if n.targets[0].id not in names and self.is_set(n.value, names):
                        names.add(n.targets[0].id)
                        changed = True
        return names

    def in_plot(self):
        return any("plot" in s.lower() for s in self.stack)

    def body_sink(self, body, var):
        kinds = set()
        for s in body:
            if isinstance(s, ast.Expr) and isinstance(s.value, ast.Call) and isinstance(s.value.func, ast.Attribute):
                a = s.value.func.attr
                if a in ("update", "add", "discard", "remove"):
                    kinds.add("SSetUpdate")
                    continue
                if a == "pop":
                    kinds.add("SDictPop")
                    continue
                d = dotted(s.value.func) or ""
                if d.startswith("logger.") or d.startswith("warnings."):
                    kinds.add("SMessage")
                    continue
            if isinstance(s, ast.If) and not any(isinstance(x, (ast.Return, ast.Break)) for x in ast.walk(s)):
                k = self.body_sink(s.body + s.orelse, var)
                kinds.add(k)
                continue
            if isinstance(s, ast.Raise):
                kinds.add("SMessage")
                continue
            return "SOtherSink"
        if len(kinds) == 1:
            return kinds.pop()
        if kinds <= {"SSetUpdate", "SDictPop", "SMessage"} and kinds:
            return sorted(kinds)[0]
        return "SOtherSink"

    def visit_For(self, node):
        if self.is_set(node.iter):
            sink = "SPlot" if self.in_plot() else ("SIntSet" if self.int_set(node.iter) else self.body_sink(node.body, node.target))
            self.add("set", sink, node)
        self.generic_visit(node)

    def comp(self, node, kind):
        for g in node.generators:
            if self.is_set(g.iter):
                if self.in_plot():
                    sink = "SPlot"
                elif kind == "dict" and isinstance(g.target, ast.Name) and isinstance(node.key, ast.Name) \
                        and node.key.id == g.target.id and len(node.generators) == 1:
                    sink = "SDictBuild"
                elif kind == "set":
                    sink = "SSetUpdate"
                else:
                    sink = "SOtherSink"
                self.add("set", sink, node)
        self.generic_visit(node)

    def visit_DictComp(self, node):
        self.comp(node, "dict")

    def visit_ListComp(self, node):
        self.comp(node, "list")

    def visit_GeneratorExp(self, node):
        self.comp(node, "gen")

    def visit_SetComp(self, node):
        self.comp(node, "set")

    # ---- attribute references ----------------------------------------------------------------------
    def visit_Attribute(self, node):
        r = self.resolve(node)
        if r and (r.startswith("numpy.random.") or r == "numpy.random") and r.count(".") == 2:
            fn = r.split(".")[2]
            self.np_random(fn, node, None)
        if node.attr in POOL_ATTRS and isinstance(node.ctx, ast.Load):
            self.add("pool", node.attr, node)
        if isinstance(node.ctx, ast.Store) and self.rel == "model.py" and self.stack[-1:] and \
                self.stack[-1] in ("configure_pool", "close_pool") and dotted(node.value) == "self":
            self.add("poolwrite", node.attr, node)
        self.generic_visit(node)

    def np_random(self, fn, node, call):
        if fn == "seed":
            src = "SeedNumpy"
            if call is not None and self.time_in(call):
                src = "TimeSeed"
        elif fn in ("default_rng", "Generator", "SeedSequence", "PCG64", "MT19937", "Philox", "SFC64", "BitGenerator"):
            src = f"(DefaultRng {self.seeded(call)})"
            if call is not None and self.time_in(call):
                src = "TimeSeed"
        elif fn == "RandomState":
            src = f"(RandomStateCtor {self.seeded(call)})"
            if call is not None and self.time_in(call):
                src = "TimeSeed"
        elif fn in ("get_state", "set_state"):
            src = "NumpyGlobal"
        elif fn == "randint" and self.stack and self.stack[-1] == "configure_random_seed":
            src = "SeedFromNumpy"
        else:
            src = "NumpyGlobal"
        if call is None and fn in ("seed", "default_rng", "Generator", "SeedSequence", "RandomState"):
            return                      # recorded at the call (with its arguments)
        if call is not None and fn not in ("seed", "default_rng", "Generator", "SeedSequence", "RandomState",
                                           "PCG64", "MT19937", "Philox", "SFC64", "BitGenerator"):
            return                      # recorded at the attribute reference
        self.add("rand", src, node)

    @staticmethod
    def seeded(call):
        if call is None:
            return "false"
        args = list(call.args) + [k.value for k in call.keywords if k.arg in ("seed", "entropy", None)]
        if not args:
            return "false"
        a = args[0]
        if isinstance(a, ast.Constant) and a.value is None:
            return "false"
        return "true"

    @staticmethod
    def time_in(call):
        txt = ast.unparse(call)
        return any(t in txt for t in ("time.time", "time.perf_counter", "time.monotonic", "time_ns", "datetime.now",
                                      "datetime.datetime.now", "os.getpid"))

    def visit_Call(self, node):
        r = self.resolve(node.func)
        if r:
            if r.startswith("numpy.random.") and r.count(".") == 2:
                self.np_random(r.split(".")[2], node, node)
            elif r in ("torch.manual_seed", "torch.random.manual_seed", "torch.cuda.manual_seed", "torch.cuda.manual_seed_all"):
                self.add("rand", "TimeSeed" if self.time_in(node) else "SeedTorch", node)
            elif r in ("torch.seed", "torch.Generator", "torch.random.seed", "torch.cuda.seed", "torch.cuda.seed_all"):
                self.add("rand", "TorchGenerator", node)
            elif r.startswith("torch.") and r.split(".")[-1] in TORCH_FUNCS and r.count(".") <= 2:
                self.add("rand", "TorchGenerator" if any(k.arg == "generator" for k in node.keywords) else "TorchGlobal", node)
            elif r in ("os.urandom", "uuid.uuid1", "uuid.uuid4") or r.startswith("secrets."):
                self.add("rand", "OsEntropy", node)
            elif r.startswith("random.") and self.alias.get("random") == "random":
                self.add("rand", "StdlibRandom", node)
            elif isinstance(node.func, ast.Name) and node.func.id in self.from_random:
                self.add("rand", "StdlibRandom", node)
            elif r in SET_CONVERTERS and node.args and self.is_set(node.args[0]):
                self.add("set", "SPlot" if self.in_plot() else ("SIntSet" if self.int_set(node.args[0]) else "SOtherSink"), node)
        if isinstance(node.func, ast.Attribute):
            a = node.func.attr
            if a == "rvs":
                rs = [k for k in node.keywords if k.arg == "random_state"
                      and not (isinstance(k.value, ast.Constant) and k.value.value is None)]
                self.add("rand", "(RandomStateCtor true)" if rs else "ScipyGlobal", node)
            elif a in TENSOR_INPLACE:
                self.add("rand", "TorchGenerator" if any(k.arg == "generator" for k in node.keywords) else "TorchGlobal", node)
            elif a in SAMPLE_METHODS and not (isinstance(node.func.value, ast.Call) and dotted(node.func.value.func) == "super"):
                self.add("rand", "TorchDistSample", node)
            elif a == "configure_random_seed":
                self.add("seedcall", "", node)
            elif a == "join" and node.args and self.is_set(node.args[0]):
                self.add("set", "SMessage", node)
        self.generic_visit(node)


def scan_package():
    root = os.path.join(REPO, "nessai")
    if not os.path.isdir(root):
        raise Declined(f"{root} not found")
    entries, nfiles = [], 0
    for dirpath, dirs, files in os.walk(root):
        dirs[:] = sorted(d for d in dirs if d != "__pycache__")
        for f in sorted(files):
            if not f.endswith(".py"):
                continue
            path = os.path.join(dirpath, f)
            rel = os.path.relpath(path, root)
            try:
                tree = ast.parse(open(path).read(), filename=path)
            except SyntaxError as e:
                raise Declined(f"{rel}: {e}")
            nfiles += 1
            sc = FileScan(rel, tree)
            sc.visit(tree)
            entries += sc.entries
    return entries, nfiles


def terms_of(entries):
    terms = []
    for kind, site, detail, line in entries:
        if kind == "rand":
            terms.append(f"ERand {cstr(site)} {detail}")
        elif kind == "set":
            terms.append(f"ESetIter {cstr(site)} {detail}")
        elif kind == "pool":
            terms.append(f"EPoolRead {cstr(site)} {cstr(detail)}")
        elif kind == "poolwrite":
            terms.append(f"EPoolWrite {cstr(site)} {cstr(detail)}")
        elif kind == "seedguard":
            terms.append(f"ESeedGuard {cstr(site)} {detail}")
        elif kind == "envguard":
            terms.append(f"EEnvGuardedDraw {cstr(site)} {cstr(detail)}")
        elif kind == "seedcall":
            terms.append(f"ESeedCall {cstr(site)}")
    return terms


def table_text(entries, name="gen_table"):
    return f"Definition {name} : list entry := [\n  " + ";\n  ".join(terms_of(entries)) + "].\n"


def table():
    entries, nfiles = scan_package()
    return table_text(entries), entries, nfiles


if __name__ == "__main__":
    txt, entries, nfiles = table()
    from collections import Counter
    print(nfiles, "files,", len(entries), "entries")
    print(Counter((k, d) for k, s, d, l in entries if k != "pool"))
    for k, s, d, l in entries:
        if k in ("set", "pool", "seedcall") or "Seed" in d:
            print(k, s, d, l)
