"""C18 translator: nessai/config.py LivepointsConfig + the registry functions of
nessai/livepoint.py  ->  Coq value of type `cfg_sk` (Model/C18_Livepoint.v).

Reads the source with `ast`; never imports nessai.  Raises Declined on a shape it has no rule for."""
import ast
import struct

from pyast import Declined, dotted, find_class, find_function, is_logging, parse, strip_doc, unparse

KINDS = {"f8": "F8", "float64": "F8", "<f8": "F8", "i4": "I4", "int32": "I4", "<i4": "I4"}
NAN_BITS = 0x7FF8000000000000
CACHE_OF = {"non_sampling_parameters": "CP", "non_sampling_defaults": "CD", "non_sampling_dtype": "CT"}
LIST_OF = {"extra_parameters": "XP", "extra_parameters_defaults": "XD", "extra_parameters_dtype": "XT"}
CFG = "config.livepoints"


def _bits(x):
    x = float(x)
    if x != x:
        return NAN_BITS
    return struct.unpack("<Q", struct.pack("<d", x))[0]


def _const(node):
    """python value of a literal default: numbers, strings, np.nan / np.inf / float('nan')"""
    if isinstance(node, ast.Constant):
        return node.value
    if isinstance(node, ast.UnaryOp) and isinstance(node.op, ast.USub):
        v = _const(node.operand)
        return -v
    d = dotted(node)
    if d in ("np.nan", "numpy.nan", "np.NaN", "math.nan"):
        return float("nan")
    if d in ("np.inf", "numpy.inf", "math.inf"):
        return float("inf")
    if isinstance(node, ast.Call) and dotted(node.func) == "float" and len(node.args) == 1 \
            and isinstance(node.args[0], ast.Constant):
        return float(node.args[0].value)
    raise Declined(f"default value {unparse(node)} is not a literal")


def _fields(cls):
    """dataclass fields: name -> default (python value, or list for default_factory lambdas)"""
    out = {}
    for st in cls.body:
        if isinstance(st, ast.AnnAssign) and isinstance(st.target, ast.Name) and st.value is not None:
            v = st.value
            if isinstance(v, ast.Call) and dotted(v.func) in ("field", "dataclasses.field"):
                fac = [k.value for k in v.keywords if k.arg == "default_factory"]
                dfl = [k.value for k in v.keywords if k.arg == "default"]
                if fac and isinstance(fac[0], ast.Lambda):
                    body = fac[0].body
                    if isinstance(body, (ast.List, ast.Tuple)):
                        out[st.target.id] = [_const(e) for e in body.elts]
                        continue
                    raise Declined(f"default_factory of {st.target.id}: {unparse(body)}")
                if fac and dotted(fac[0]) in ("list", "tuple"):
                    out[st.target.id] = []
                    continue
                if dfl:
                    out[st.target.id] = _const(dfl[0])
                    continue
                raise Declined(f"field() of {st.target.id} has a shape the translator has no rule for")
            try:
                out[st.target.id] = _const(v)
            except Declined:
                out[st.target.id] = None
    return out


def _property(cls, name):
    for st in cls.body:
        if isinstance(st, ast.FunctionDef) and st.name == name \
                and any(dotted(d) == "property" for d in st.decorator_list):
            return st
    raise Declined(f"property {name} not found")


def _cached_expr(fn):
    """-> (cache attribute or None, expression) for
         if self._c is None: self._c = EXPR
         return self._c                              |   return EXPR"""
    body = [s for s in strip_doc(fn.body) if not is_logging(s)]
    if len(body) == 1 and isinstance(body[0], ast.Return) and body[0].value is not None:
        return None, body[0].value
    if len(body) == 2 and isinstance(body[0], ast.If) and isinstance(body[1], ast.Return) and not body[0].orelse:
        t = body[0].test
        if isinstance(t, ast.Compare) and len(t.ops) == 1 and isinstance(t.ops[0], ast.Is) \
                and isinstance(t.comparators[0], ast.Constant) and t.comparators[0].value is None:
            cache = dotted(t.left)
            inner = [s for s in body[0].body if not is_logging(s)]
            if cache and cache.startswith("self.") and len(inner) == 1 and isinstance(inner[0], ast.Assign) \
                    and dotted(inner[0].targets[0]) == cache and dotted(body[1].value) == cache:
                return cache[len("self."):], inner[0].value
    raise Declined(f"property {fn.name} has a shape the translator has no rule for")


def _attr_list(expr, what):
    if isinstance(expr, (ast.List, ast.Tuple)):
        out = []
        for e in expr.elts:
            d = dotted(e)
            if not d or not d.startswith("self."):
                raise Declined(f"{what}: element {unparse(e)}")
            out.append(d[len("self."):])
        return out
    raise Declined(f"{what}: {unparse(expr)} is not a list/tuple of attributes")


def _order(expr, core_attr, extra_attr, what):
    """A + B over the two attributes -> list of src"""
    parts = []

    def walk(e):
        if isinstance(e, ast.BinOp) and isinstance(e.op, ast.Add):
            walk(e.left)
            walk(e.right)
            return
        if isinstance(e, ast.Call) and dotted(e.func) in ("list", "tuple") and len(e.args) == 1:
            walk(e.args[0])
            return
        d = dotted(e)
        if d == "self." + core_attr:
            parts.append("SCore")
        elif d == "self." + extra_attr:
            parts.append("SExtra")
        else:
            raise Declined(f"{what}: unexpected operand {unparse(e)}")
    walk(expr)
    return parts


def _self_assigns(fn):
    """attribute -> value node for `self.attr = value` statements (top level), and the self-calls made"""
    assigns, calls = {}, []
    for st in strip_doc(fn.body):
        if is_logging(st):
            continue
        if isinstance(st, ast.Assign) and len(st.targets) == 1 and (dotted(st.targets[0]) or "").startswith("self."):
            assigns[dotted(st.targets[0])[len("self."):]] = st.value
        elif isinstance(st, ast.Expr) and isinstance(st.value, ast.Call) and (dotted(st.value.func) or "").startswith("self."):
            calls.append(dotted(st.value.func)[len("self."):])
        else:
            raise Declined(f"{fn.name}: statement {unparse(st)[:60]}")
    return assigns, calls


def _is_empty(node):
    return (isinstance(node, (ast.List, ast.Tuple)) and not node.elts) or \
           (isinstance(node, ast.Call) and dotted(node.func) in ("list", "tuple") and not node.args)


def cL(items):
    return "[" + "; ".join(items) + "]"


def cStr(s):
    return '"' + s.replace('"', '""') + '"%string'


def cVal(v, kind):
    if kind == "I4":
        if isinstance(v, bool) or not isinstance(v, int):
            raise Declined(f"default {v!r} for an integer field")
        return f"VI ({v})" if v < 0 else f"VI {v}"
    if not isinstance(v, (int, float)):
        raise Declined(f"default {v!r} for a float field")
    return f"VF {_bits(v)}"


def skeleton():
    mod, _ = parse("nessai/config.py")
    cls = find_class(mod, "LivepointsConfig")
    fields = _fields(cls)
    for need in ("core_parameters", "default_float_dtype", "default_float_value"):
        if fields.get(need) is None:
            raise Declined(f"field {need} without a literal default")
    info = {}
    # core names
    core_names = fields["core_parameters"]
    if not isinstance(core_names, list) or not all(isinstance(s, str) for s in core_names):
        raise Declined("core_parameters default is not a list of strings")
    # core dtype / defaults: lists of attributes resolved through the field defaults
    _, e_dt = _cached_expr(_property(cls, "core_parameters_dtype"))
    _, e_df = _cached_expr(_property(cls, "core_parameters_defaults"))
    kinds = []
    for a in _attr_list(e_dt, "core_parameters_dtype"):
        k = KINDS.get(fields.get(a))
        if k is None:
            raise Declined(f"dtype {fields.get(a)!r} of {a} is not modelled (f8 / i4 only)")
        kinds.append(k)
    dattrs = _attr_list(e_df, "core_parameters_defaults")
    if len(dattrs) != len(kinds):
        raise Declined("core defaults and core dtypes have different lengths")
    defs = []
    for a, k in zip(dattrs, kinds):
        if fields.get(a) is None:
            raise Declined(f"default of {a} is not a literal")
        defs.append(cVal(fields[a], k))
    fkind = KINDS.get(fields["default_float_dtype"])
    if fkind is None:
        raise Declined("default_float_dtype is not f8 / i4")
    fill = cVal(fields["default_float_value"], fkind)
    # the three concatenating properties and their caches
    orders, caches = {}, {}
    for prop, (ca, ea) in {"non_sampling_parameters": ("core_parameters", "extra_parameters"),
                           "non_sampling_defaults": ("core_parameters_defaults", "extra_parameters_defaults"),
                           "non_sampling_dtype": ("core_parameters_dtype", "extra_parameters_dtype")}.items():
        cache, expr = _cached_expr(_property(cls, prop))
        orders[prop] = _order(expr, ca, ea, prop)
        caches[prop] = cache
    info["caches"] = dict(caches)
    # reset_properties: which caches are cleared (an uncached property is never stale)
    rp_assigns, rp_calls = _self_assigns(find_function(mod, "reset_properties", cls="LivepointsConfig"))
    cleared = []
    for prop, cid in CACHE_OF.items():
        c = caches[prop]
        if c is None:
            cleared.append(cid)
        elif c in rp_assigns:
            v = rp_assigns[c]
            if isinstance(v, ast.Constant) and v.value is None:
                cleared.append(cid)
            else:
                raise Declined(f"reset_properties assigns {unparse(v)} to {c}")
    # reset
    r_assigns, r_calls = _self_assigns(find_function(mod, "reset", cls="LivepointsConfig"))
    emptied = []
    for attr, xid in LIST_OF.items():
        if attr in r_assigns:
            if _is_empty(r_assigns[attr]):
                emptied.append(xid)
            else:
                raise Declined(f"reset assigns {unparse(r_assigns[attr])} to {attr}")
    reset_calls_rp = "reset_properties" in r_calls
    # livepoint.py : add_extra_parameters_to_live_points / reset_extra_live_points_parameters
    lmod, _ = parse("nessai/livepoint.py")
    add = find_function(lmod, "add_extra_parameters_to_live_points")
    body = [s for s in strip_doc(add.body) if not is_logging(s)]
    loops = [s for s in body if isinstance(s, ast.For)]
    if len(loops) != 1:
        raise Declined("add_extra_parameters_to_live_points: expected one for loop")
    loop = loops[0]
    it = loop.iter
    if not (isinstance(it, ast.Call) and dotted(it.func) == "zip"
            and [unparse(a) for a in it.args] == ["parameters", "default_values"] and not it.keywords
            and isinstance(loop.target, ast.Tuple) and [unparse(t) for t in loop.target.elts] == ["p", "dv"]):
        raise Declined("add_extra_parameters_to_live_points: loop is not `for p, dv in zip(parameters, default_values)`")
    lbody = [s for s in loop.body if not is_logging(s)]
    if len(lbody) != 1 or not isinstance(lbody[0], ast.If):
        raise Declined("add_extra_parameters_to_live_points: loop body is not a single if")
    guard = lbody[0]
    if unparse(guard.test) != f"p not in {CFG}.extra_parameters":
        raise Declined(f"add_extra_parameters_to_live_points: guard is {unparse(guard.test)}")
    if any(not is_logging(s) for s in guard.orelse):
        raise Declined("add_extra_parameters_to_live_points: the else branch is not logging only")
    appended = []
    for st in guard.body:
        if is_logging(st):
            continue
        u = unparse(st)
        if u == f"{CFG}.extra_parameters.append(p)":
            appended.append("XP")
        elif u in (f"{CFG}.extra_parameters_defaults = {CFG}.extra_parameters_defaults + (dv,)",
                   f"{CFG}.extra_parameters_defaults += (dv,)",
                   f"{CFG}.extra_parameters_defaults = (*{CFG}.extra_parameters_defaults, dv)"):
            appended.append("XD")
        elif u == f"{CFG}.extra_parameters_dtype.append({CFG}.default_float_dtype)":
            appended.append("XT")
        else:
            raise Declined(f"add_extra_parameters_to_live_points: statement {u[:80]}")
    # the None default: len(parameters) * (default_float_value,)
    pre = body[: body.index(loop)]
    ok_default = False
    for st in pre:
        if isinstance(st, ast.If) and unparse(st.test) == "default_values is None":
            tb = [unparse(s) for s in st.body if not is_logging(s)]
            if tb in ([f"default_values = len(parameters) * ({CFG}.default_float_value,)"],
                      [f"default_values = ({CFG}.default_float_value,) * len(parameters)"],
                      [f"default_values = [{CFG}.default_float_value] * len(parameters)"]):
                ok_default = True
            eb = [unparse(s) for s in st.orelse if not is_logging(s)]
            if eb not in ([], ["default_values = tuple(default_values)"], ["default_values = list(default_values)"]):
                raise Declined(f"add_extra_parameters_to_live_points: else branch {eb}")
        elif not is_logging(st):
            raise Declined(f"add_extra_parameters_to_live_points: statement before the loop: {unparse(st)[:60]}")
    if not ok_default:
        raise Declined("add_extra_parameters_to_live_points: default for default_values=None not recognised")
    post = body[body.index(loop) + 1:]
    add_calls_rp = False
    for st in post:
        if isinstance(st, ast.Expr) and isinstance(st.value, ast.Call) \
                and dotted(st.value.func) == f"{CFG}.reset_properties" and not st.value.args:
            add_calls_rp = True
        elif not is_logging(st):
            raise Declined(f"add_extra_parameters_to_live_points: statement after the loop: {unparse(st)[:60]}")
    rst = find_function(lmod, "reset_extra_live_points_parameters")
    rb = [unparse(s) for s in strip_doc(rst.body) if not is_logging(s)]
    if rb != [f"{CFG}.reset()"]:
        raise Declined(f"reset_extra_live_points_parameters: {rb}")
    # get_dtype: parameters first, then the non-sampling fields (informational)
    try:
        gd = find_function(lmod, "get_dtype")
        src = [unparse(s) for s in strip_doc(gd.body) if not is_logging(s)]
        want_a = "dtype = [(n, array_dtype) for n in names]"
        want_b = f"dtype += list(zip({CFG}.non_sampling_parameters, {CFG}.non_sampling_dtype))"
        info["get_dtype"] = "names first, then zip(non_sampling_parameters, non_sampling_dtype)" \
            if want_a in src and any(want_b in s for s in src) else "shape not recognised (correspondence decides)"
    except Declined as e:
        info["get_dtype"] = f"declined: {e}"
    b = lambda x: "true" if x else "false"  # noqa: E731
    sk = ("{| k_core_names := " + cL(cStr(s) for s in core_names)
          + "; k_core_kinds := " + cL(kinds) + "; k_core_defs := " + cL(defs)
          + "; k_fill := " + fill + "; k_fkind := " + fkind
          + "; k_ord_names := " + cL(orders["non_sampling_parameters"])
          + "; k_ord_defs := " + cL(orders["non_sampling_defaults"])
          + "; k_ord_kinds := " + cL(orders["non_sampling_dtype"])
          + "; k_reset_props := " + cL(cleared)
          + "; k_reset_lists := " + cL(emptied) + "; k_reset_calls_rp := " + b(reset_calls_rp)
          + "; k_add_appends := " + cL(appended) + "; k_add_calls_rp := " + b(add_calls_rp) + " |}")
    info["skeleton"] = sk
    return sk, info


if __name__ == "__main__":
    print(skeleton())
