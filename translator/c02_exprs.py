"""C02 translator: the shrinkage expressions of _NSIntegralState.increment and compute_weights
(-> Coq `sexp`), the live count NestedSampler.finalise passes to increment (-> Coq `zexp`), and the
arange that compute_weights writes into the last nlive entries.  Reads the source text only."""
import ast

from pyast import Declined, dotted, find_function, parse, unparse

N_NAMES = {"nlive", "nlive_per_iteration"}


def sexp(node):
    if isinstance(node, ast.Name) and node.id in N_NAMES:
        return "SN"
    if isinstance(node, ast.Constant) and isinstance(node.value, (int, float)) and not isinstance(node.value, bool):
        if float(node.value) != int(node.value):
            raise Declined(f"non-integer constant {node.value!r}")
        return f"(SConst ({int(node.value)})%Z)"
    if isinstance(node, ast.UnaryOp) and isinstance(node.op, ast.USub):
        if isinstance(node.operand, ast.Constant) and isinstance(node.operand.value, (int, float)):
            v = node.operand.value
            if float(v) != int(v):
                raise Declined(f"non-integer constant {v!r}")
            return f"(SConst ({-int(v)})%Z)"
        return f"(SNeg {sexp(node.operand)})"
    if isinstance(node, ast.BinOp) and isinstance(node.op, ast.Div):
        return f"(SDiv {sexp(node.left)} {sexp(node.right)})"
    if isinstance(node, ast.BinOp) and isinstance(node.op, ast.Add):
        return f"(SAdd {sexp(node.left)} {sexp(node.right)})"
    if isinstance(node, ast.Call) and len(node.args) == 1 and not node.keywords:
        d = dotted(node.func)
        if d in ("np.log1p", "numpy.log1p", "math.log1p"):
            return f"(SLog1p {sexp(node.args[0])})"
        if d in ("np.log", "numpy.log", "math.log"):
            return f"(SLog {sexp(node.args[0])})"
    raise Declined(f"no rule for shrinkage expression: {unparse(node)}")


def _mode_of_test(test):
    """'logt' / 't' for  self.expectation == "logt"  /  expectation.lower() == "t"  (either side)."""
    if isinstance(test, ast.Compare) and len(test.ops) == 1 and isinstance(test.ops[0], ast.Eq):
        sides = [test.left, test.comparators[0]]
        consts = [s.value for s in sides if isinstance(s, ast.Constant) and isinstance(s.value, str)]
        others = [s for s in sides if not isinstance(s, ast.Constant)]
        if len(consts) == 1 and len(others) == 1 and "expectation" in unparse(others[0]):
            return consts[0]
    return None


def _logt_branches(fn):
    """find  if <mode test>: logt = E1  (elif/else: logt = E2)  in the function body"""
    found = {}

    def assigned(body):
        for st in body:
            if isinstance(st, ast.Assign) and len(st.targets) == 1 and isinstance(st.targets[0], ast.Name) \
                    and st.targets[0].id == "logt":
                return st.value
        return None

    for node in ast.walk(fn):
        if isinstance(node, ast.If):
            mode = _mode_of_test(node.test)
            if mode is None:
                continue
            e = assigned(node.body)
            if e is not None and mode in ("logt", "t"):
                found.setdefault(mode, e)
                other = "t" if mode == "logt" else "logt"
                if node.orelse and not (len(node.orelse) == 1 and isinstance(node.orelse[0], ast.If)):
                    e2 = assigned(node.orelse)
                    if e2 is not None:
                        found.setdefault(other, e2)
    if set(found) != {"logt", "t"}:
        raise Declined(f"shrinkage branches not found (found {sorted(found)})")
    return found


def _exprs(relpath, name, cls=None):
    tree, _ = parse(relpath)
    fn = find_function(tree, name, cls)
    br = _logt_branches(fn)
    return {"logt": sexp(br["logt"]), "t": sexp(br["t"]),
            "src": {"logt": unparse(br["logt"]), "t": unparse(br["t"])}}


def increment_exprs():
    return _exprs("nessai/evidence.py", "increment", "_NSIntegralState")


def compute_weights_exprs():
    return _exprs("nessai/posterior.py", "compute_weights")


def zexp(node, idx):
    if isinstance(node, ast.Name) and node.id == idx:
        return "ZI"
    if dotted(node) in ("self.nlive", "nlive"):
        return "ZNlive"
    if isinstance(node, ast.Constant) and isinstance(node.value, int) and not isinstance(node.value, bool):
        return f"(ZConst ({node.value})%Z)"
    if isinstance(node, ast.BinOp) and isinstance(node.op, ast.Sub):
        return f"(ZSub {zexp(node.left, idx)} {zexp(node.right, idx)})"
    if isinstance(node, ast.BinOp) and isinstance(node.op, ast.Add):
        return f"(ZAdd {zexp(node.left, idx)} {zexp(node.right, idx)})"
    raise Declined(f"no rule for schedule expression: {unparse(node)}")


def finalise_schedule():
    tree, _ = parse("nessai/samplers/nestedsampler.py")
    fn = find_function(tree, "finalise", "NestedSampler")
    for node in ast.walk(fn):
        if not isinstance(node, ast.For):
            continue
        it = node.iter
        if not (isinstance(it, ast.Call) and dotted(it.func) == "enumerate" and len(it.args) == 1
                and dotted(it.args[0]) == "self.live_points" and isinstance(node.target, ast.Tuple)
                and isinstance(node.target.elts[0], ast.Name)):
            continue
        idx = node.target.elts[0].id
        for call in ast.walk(node):
            if isinstance(call, ast.Call) and dotted(call.func) == "self.state.increment":
                kw = {k.arg: k.value for k in call.keywords}
                e = kw.get("nlive", call.args[1] if len(call.args) > 1 else None)
                if e is None:
                    raise Declined("finalise calls state.increment without a live count")
                return {"zexp": zexp(e, idx), "src": unparse(e)}
    raise Declined("no `for i, p in enumerate(self.live_points)` loop calling self.state.increment in finalise")


def compute_weights_arange():
    tree, _ = parse("nessai/posterior.py")
    fn = find_function(tree, "compute_weights")
    for node in ast.walk(fn):
        if isinstance(node, ast.Assign) and len(node.targets) == 1 and isinstance(node.targets[0], ast.Subscript) \
                and dotted(node.targets[0].value) == "nlive_per_iteration" and isinstance(node.value, ast.Call) \
                and dotted(node.value.func) in ("np.arange", "numpy.arange"):
            args = [unparse(a) for a in node.value.args]
            return {"triple": args, "slice": unparse(node.targets[0].slice), "src": unparse(node)}
    raise Declined("assignment nlive_per_iteration[...] = np.arange(...) not found")
