"""C17 translator: the integer clamp of ImportanceNestedSampler.determine_log_likelihood_threshold
-> a Gallina function `gen_clamp n size min_s min_r max_s nlive dc : cres`, plus the comparison used
by add_new_proposal's n_train and the mask operators of the two threshold methods."""
import ast

from pyast import Declined, dotted, find_function, is_logging, parse, strip_doc, unparse

NAMES = {
    "samples.size": "size", "len(samples)": "size",
    "self.min_samples": "min_s", "self.min_remove": "min_r",
    "self.max_samples": "max_s", "self.nlive": "nlive",
}


class Tr:
    def __init__(self):
        self.k = 0

    def fresh(self):
        self.k += 1
        return f"n{self.k}"

    def iexp(self, e, n):
        """integer expression -> Gallina Z term; n = current name of the variable `n`"""
        u = unparse(e)
        if u in NAMES:
            return NAMES[u]
        if isinstance(e, ast.Name) and e.id == "n":
            return n
        if isinstance(e, ast.Constant) and isinstance(e.value, int) and not isinstance(e.value, bool):
            return f"({e.value})" if e.value < 0 else str(e.value)
        if isinstance(e, ast.BinOp) and isinstance(e.op, (ast.Add, ast.Sub)):
            op = "+" if isinstance(e.op, ast.Add) else "-"
            return f"({self.iexp(e.left, n)} {op} {self.iexp(e.right, n)})"
        if isinstance(e, ast.UnaryOp) and isinstance(e.op, ast.USub):
            return f"(- {self.iexp(e.operand, n)})"
        if isinstance(e, ast.Call) and dotted(e.func) in ("max", "min", "np.maximum", "np.minimum") \
                and len(e.args) == 2 and not e.keywords:
            f = "Z.max" if dotted(e.func) in ("max", "np.maximum") else "Z.min"
            return f"({f} {self.iexp(e.args[0], n)} {self.iexp(e.args[1], n)})"
        if isinstance(e, ast.Call) and dotted(e.func) == "int" and len(e.args) == 1:
            return self.iexp(e.args[0], n)
        raise Declined(f"integer expression without a rule: {u}")

    def bexp(self, e, n):
        u = unparse(e)
        if u == "self.draw_constant":
            return "dc"
        if u == "self.max_samples":                     # truthiness of an int-or-None
            return "(negb (max_s =? 0))"
        if u == "self.max_samples is not None":
            return "(negb (max_s =? 0))"
        if isinstance(e, ast.BoolOp):
            op = "&&" if isinstance(e.op, ast.And) else "||"
            return "(" + f" {op} ".join(self.bexp(v, n) for v in e.values) + ")"
        if isinstance(e, ast.UnaryOp) and isinstance(e.op, ast.Not):
            return f"(negb {self.bexp(e.operand, n)})"
        if isinstance(e, ast.Compare) and len(e.ops) == 1:
            a, b = self.iexp(e.left, n), self.iexp(e.comparators[0], n)
            op = {ast.Eq: "=?", ast.Lt: "<?", ast.LtE: "<=?", ast.Gt: ">?", ast.GtE: ">=?"}.get(type(e.ops[0]))
            if op:
                return f"({a} {op} {b})"
            if isinstance(e.ops[0], ast.NotEq):
                return f"(negb ({a} =? {b}))"
        raise Declined(f"boolean expression without a rule: {u}")

    def block(self, stmts, n):
        stmts = [s for s in stmts if not is_logging(s)]
        if not stmts:
            raise Declined("path without a result")
        s, rest = stmts[0], stmts[1:]
        if isinstance(s, ast.If):
            c = self.bexp(s.test, n)
            return f"(if {c} then {self.block(list(s.body) + rest, n)} else {self.block(list(s.orelse) + rest, n)})"
        if isinstance(s, ast.Assign) and len(s.targets) == 1 and unparse(s.targets[0]) == "n":
            v = self.fresh()
            return f"(let {v} := {self.iexp(s.value, n)} in {self.block(rest, v)})"
        if isinstance(s, ast.Return):
            u = unparse(s.value)
            if u == "0":
                return "RetZero"
            if u == "threshold":
                raise Declined("return threshold before it is assigned")
            raise Declined(f"unknown return {u}")
        if isinstance(s, ast.Assign) and unparse(s.targets[0]) == "threshold":
            u = unparse(s.value)
            if u in ("samples[n]['logL'].copy()", "samples['logL'][n].copy()", "samples[n]['logL']", "samples['logL'][n]"):
                if len(rest) == 1 and isinstance(rest[0], ast.Return) and unparse(rest[0].value) == "threshold":
                    return f"(RetIndex {n})"
            raise Declined(f"threshold computed as {u}")
        raise Declined(f"statement without a rule: {unparse(s)[:80]}")


def clamp():
    mod, _ = parse("nessai/samplers/importancesampler.py")
    fn = find_function(mod, "determine_log_likelihood_threshold", cls="ImportanceNestedSampler")
    body = strip_doc(fn.body)
    # the method dispatch must be the first statement and assign n on the two known methods
    first = [s for s in body if not is_logging(s)][0]
    if not (isinstance(first, ast.If) and "method" in unparse(first.test)):
        raise Declined("method dispatch not found")
    idx = body.index(first)
    tr = Tr()
    term = tr.block(body[idx + 1:], "n")
    return ("Definition gen_clamp (n size min_s min_r max_s nlive : Z) (dc : bool) : cres :=\n  " + term + ".\n")


def masks():
    """comparison operators: quantile `a >= cutoff`, entropy `cdf >= q`, n_train `logL >= threshold`."""
    mod, _ = parse("nessai/samplers/importancesampler.py")
    out = {}
    for name, lhs in (("determine_threshold_quantile", "a"), ("determine_threshold_entropy", "cdf")):
        fn = find_function(mod, name, cls="ImportanceNestedSampler")
        found = [n for n in ast.walk(fn) if isinstance(n, ast.Call) and dotted(n.func) in ("np.argmax", "numpy.argmax")]
        if len(found) != 1:
            raise Declined(f"{name}: expected one np.argmax")
        out[name] = unparse(found[0].args[0])
    fn = find_function(mod, "add_new_proposal", cls="ImportanceNestedSampler")
    found = [n for n in ast.walk(fn) if isinstance(n, ast.Call) and dotted(n.func) == "min" and len(n.args) == 2]
    if len(found) != 1:
        raise Declined("add_new_proposal: expected one min(...)")
    out["n_train"] = unparse(found[0])
    expect = {
        "determine_threshold_quantile": "a >= cutoff",
        "determine_threshold_entropy": "cdf >= q",
        "n_train": "min(np.argmax(self.training_samples.samples['logL'] >= self.log_likelihood_threshold), "
                   "self.training_samples.samples.size - self.min_samples)",
    }
    for k, v in expect.items():
        if out[k] != v:
            raise Declined(f"{k}: `{out[k]}` is not the modelled `{v}`")
    return out


if __name__ == "__main__":
    print(clamp())
    print(masks())
