"""C11 translator: file-system op lists of the checkpoint / weights writers and the handler
structure of the resume path, regenerated from /repo's current source (Python ast, no execution).

writers  -> Coq terms of type  fname -> payload -> list op   (Lib/FSModel.v alphabet)
reader   -> Coq term of type   rcfg                           (Model/C11_Checkpoint.v)
"""
import ast

from pyast import Declined, dotted, find_class, find_function, is_logging, parse, strip_doc, unparse

MOVE_FUNCS = {"shutil.move", "os.replace", "os.rename"}
EXN = {
    "FileNotFoundError": ["FNF"], "RuntimeError": ["RTE"], "EOFError": ["EOFE"],
    "OSError": ["OSE", "FNF"], "IOError": ["OSE", "FNF"], "EnvironmentError": ["OSE", "FNF"],
    "pickle.UnpicklingError": ["UNPE"], "UnpicklingError": ["UNPE"], "pickle.PickleError": ["UNPE"],
    "Exception": ["FNF", "RTE", "EOFE", "OSE", "UNPE"], "BaseException": ["FNF", "RTE", "EOFE", "OSE", "UNPE"],
}


class Sym:
    """Symbolic path expressions: the file parameter F with .old / .temp suffixes."""

    def __init__(self, param):
        self.env = {param: "F"}

    def path(self, node):
        if isinstance(node, ast.Name) and node.id in self.env:
            return self.env[node.id]
        if isinstance(node, ast.BinOp) and isinstance(node.op, ast.Add) and isinstance(node.right, ast.Constant):
            inner = self.path(node.left)
            if node.right.value == ".old":
                return f"(Old {inner})"
            if node.right.value in (".temp", ".tmp"):
                return f"(Temp {inner})"
        if isinstance(node, ast.JoinedStr):
            # f"{filename}.old"
            vals = node.values
            if len(vals) == 2 and isinstance(vals[0], ast.FormattedValue) and isinstance(vals[1], ast.Constant):
                inner = self.path(vals[0].value)
                if vals[1].value == ".old":
                    return f"(Old {inner})"
                if vals[1].value in (".temp", ".tmp"):
                    return f"(Temp {inner})"
        raise Declined(f"path expression without a rule: {unparse(node)}")

    def is_path(self, node):
        try:
            self.path(node)
            return True
        except Declined:
            return False


def _is_exists(test, sym):
    """os.path.exists(X) -> model name of X, else None."""
    if isinstance(test, ast.Call) and dotted(test.func) in ("os.path.exists", "os.path.isfile", "exists") \
            and len(test.args) == 1 and sym.is_path(test.args[0]):
        return sym.path(test.args[0])
    return None


def _touches_files(node):
    for n in ast.walk(node):
        if isinstance(n, ast.Call):
            d = dotted(n.func) or ""
            if d in MOVE_FUNCS or d in ("open", "torch.save", "os.remove", "os.unlink", "shutil.copy",
                                         "shutil.copyfile", "shutil.copy2") or d.endswith(".dump"):
                return True
    return False


def _ops_block(stmts, sym, flags, handle):
    """Ops of a statement list.  `flags` maps boolean parameter names to the value assumed;
    `handle` = name of the open file object (inside a with) or None."""
    ops = []
    for s in stmts:
        if is_logging(s):
            continue
        # NAME = path expression
        if isinstance(s, ast.Assign) and len(s.targets) == 1 and isinstance(s.targets[0], ast.Name) \
                and sym.is_path(s.value):
            sym.env[s.targets[0].id] = sym.path(s.value)
            continue
        # self.attr = ... / self.attr.append(...): in-memory bookkeeping
        if isinstance(s, ast.Assign) and all(isinstance(t, ast.Attribute) for t in s.targets) \
                and not _touches_files(s.value):
            continue
        if isinstance(s, ast.Expr) and isinstance(s.value, ast.Call):
            c = s.value
            d = dotted(c.func) or ""
            if d in MOVE_FUNCS and len(c.args) == 2 and not c.keywords:
                ops.append(f"Move {sym.path(c.args[0])} {sym.path(c.args[1])}")
                continue
            if d == "torch.save" and len(c.args) == 2 and not c.keywords:
                f = sym.path(c.args[1])
                ops += [f"Open {f}", "Write NEW", "Close"]
                continue
            if d.endswith(".dump") and len(c.args) >= 2 and isinstance(c.args[1], ast.Name) \
                    and c.args[1].id == handle:
                ops.append("Write NEW")
                continue
            if handle and d in (f"{handle}.flush", "os.fsync"):
                continue
            if isinstance(c.func, ast.Attribute) and dotted(c.func.value) and dotted(c.func.value).startswith("self.") \
                    and not _touches_files(c):
                continue    # self.weights_files.append(...)
            if d == "super().save_weights" or (isinstance(c.func, ast.Attribute) and c.func.attr == "save_weights"
                                               and isinstance(c.func.value, ast.Call)
                                               and dotted(c.func.value.func) == "super"):
                if len(c.args) == 1 and sym.path(c.args[0]) == "F":
                    ops.append("SUPER")
                    continue
            raise Declined(f"call without a rule: {unparse(c)}")
        if isinstance(s, ast.If):
            # if FLAG: ...
            if isinstance(s.test, ast.Name) and s.test.id in flags:
                ops += _ops_block(s.body if flags[s.test.id] else s.orelse, sym, flags, handle)
                continue
            if isinstance(s.test, ast.UnaryOp) and isinstance(s.test.op, ast.Not) \
                    and isinstance(s.test.operand, ast.Name) and s.test.operand.id in flags:
                ops += _ops_block(s.orelse if flags[s.test.operand.id] else s.body, sym, flags, handle)
                continue
            # if FLAG and os.path.exists(X): ...
            test = s.test
            if isinstance(test, ast.BoolOp) and isinstance(test.op, ast.And) and len(test.values) == 2 \
                    and isinstance(test.values[0], ast.Name) and test.values[0].id in flags:
                if not flags[test.values[0].id]:
                    ops += _ops_block(s.orelse, sym, flags, handle)
                    continue
                test = test.values[1]
            x = _is_exists(test, sym)
            if x is not None and not s.orelse:
                inner = _ops_block(s.body, sym, flags, handle)
                if len(inner) == 1 and inner[0].startswith(f"Move {x} "):
                    ops.append("MoveIfExists" + inner[0][4:])
                    continue
                if not inner:
                    continue
                raise Declined(f"conditional on exists({x}) whose body is not a single move: {inner}")
            if not _touches_files(s):
                continue
            raise Declined(f"condition without a rule: {unparse(s.test)}")
        if isinstance(s, ast.With):
            if len(s.items) != 1:
                raise Declined("with statement with several items")
            it = s.items[0]
            c = it.context_expr
            if isinstance(c, ast.Call) and dotted(c.func) == "open" and len(c.args) >= 2 \
                    and isinstance(c.args[1], ast.Constant) and c.args[1].value in ("wb", "bw", "w") \
                    and isinstance(it.optional_vars, ast.Name):
                if handle:
                    raise Declined("nested open")
                f = sym.path(c.args[0])
                ops.append(f"Open {f}")
                ops += _ops_block(s.body, sym, flags, it.optional_vars.id)
                ops.append("Close")
                continue
            raise Declined(f"with statement without a rule: {unparse(c)}")
        if not _touches_files(s):
            continue
        raise Declined(f"statement without a rule: {unparse(s)[:80]}")
    return ops


def _writer_term(ops):
    return "(fun (F : fname) (NEW : payload) => [" + "; ".join(ops) + "] : list op)"


def safe_file_dump(save_existing):
    mod, _ = parse("nessai/utils/io.py")
    fn = find_function(mod, "safe_file_dump")
    args = [a.arg for a in fn.args.args]
    if args[:4] != ["data", "filename", "module", "save_existing"]:
        raise Declined(f"signature changed: {args}")
    ops = _ops_block(strip_doc(fn.body), Sym("filename"), {"save_existing": save_existing}, None)
    return _writer_term(ops), ops


def _save_weights_ops(relpath, cls, inherited=None):
    mod, _ = parse(relpath)
    fn = find_function(mod, "save_weights", cls=cls)
    args = [a.arg for a in fn.args.args]
    if args != ["self", "weights_file"]:
        raise Declined(f"{cls}.save_weights signature changed: {args}")
    ops = _ops_block(strip_doc(fn.body), Sym("weights_file"), {}, None)
    out = []
    for o in ops:
        if o == "SUPER":
            if inherited is None:
                raise Declined("super().save_weights without a parent translation")
            out += inherited
        else:
            out.append(o)
    return out


def flowmodel_save_weights():
    ops = _save_weights_ops("nessai/flowmodel/base.py", "FlowModel")
    return _writer_term(ops), ops


def importance_save_weights():
    base = _save_weights_ops("nessai/flowmodel/base.py", "FlowModel")
    try:
        ops = _save_weights_ops("nessai/flowmodel/importance.py", "ImportanceFlowModel", inherited=base)
    except Declined as e:
        if "not found" in str(e):
            ops = base       # method inherited
        else:
            raise
    return _writer_term(ops), ops


def checkpoint_call():
    """BaseNestedSampler.checkpoint must hand self.resume_file to safe_file_dump (or a callback)."""
    mod, _ = parse("nessai/samplers/base.py")
    fn = find_function(mod, "checkpoint", cls="BaseNestedSampler")
    calls = [n for n in ast.walk(fn) if isinstance(n, ast.Call) and dotted(n.func) == "safe_file_dump"]
    if len(calls) != 1:
        raise Declined(f"expected one safe_file_dump call in checkpoint, found {len(calls)}")
    c = calls[0]
    a = [unparse(x) for x in c.args]
    kw = {k.arg: unparse(k.value) for k in c.keywords}
    if a[:2] != ["self", "self.resume_file"] or kw.get("save_existing") != "save_existing":
        raise Declined(f"unexpected arguments: {unparse(c)}")
    return unparse(c)


def _exn_list(node):
    if node is None:
        return EXN["BaseException"]
    elts = node.elts if isinstance(node, ast.Tuple) else [node]
    out = []
    for e in elts:
        d = dotted(e)
        if d not in EXN:
            raise Declined(f"exception class without a rule: {unparse(e)}")
        for x in EXN[d]:
            if x not in out:
                out.append(x)
    return out


def reader_config():
    """rcfg from FlowSampler._resume_from_file and FlowProposal.resume."""
    mod, _ = parse("nessai/flowsampler.py")
    fn = find_function(mod, "_resume_from_file", cls="FlowSampler")
    tries = [s for s in strip_doc(fn.body) if isinstance(s, ast.Try)]
    catch1, try_old = [], False
    if len(tries) == 1:
        t = tries[0]
        first = [n for n in ast.walk(ast.Module(body=t.body, type_ignores=[])) if isinstance(n, ast.Call)
                 and dotted(n.func) == "SamplerClass.resume"]
        if len(first) != 1 or "resume_file" not in unparse(first[0].args[0]):
            raise Declined("first try of _resume_from_file does not call SamplerClass.resume(resume_file)")
        if len(t.handlers) != 1:
            raise Declined("several except clauses in _resume_from_file")
        h = t.handlers[0]
        catch1 = _exn_list(h.type)
        src = "\n".join(unparse(s) for s in h.body)
        again = [n for n in ast.walk(ast.Module(body=h.body, type_ignores=[])) if isinstance(n, ast.Call)
                 and dotted(n.func) == "SamplerClass.resume"]
        olded = any(isinstance(n, ast.AugAssign) and unparse(n.target) == "resume_file"
                    and isinstance(n.value, ast.Constant) and n.value.value == ".old"
                    for n in ast.walk(ast.Module(body=h.body, type_ignores=[]))) or '".old"' in src or "'.old'" in src
        try_old = bool(again) and olded
        if again and not olded:
            raise Declined("handler retries SamplerClass.resume but not with the .old file")
    elif not tries:
        calls = [n for n in ast.walk(fn) if isinstance(n, ast.Call) and dotted(n.func) == "SamplerClass.resume"]
        if len(calls) != 1:
            raise Declined("_resume_from_file has a shape without a rule")
    else:
        raise Declined("several try statements in _resume_from_file")
    # check_resume must look at resume_file and resume_file + ".old"
    cr = find_function(mod, "check_resume", cls="FlowSampler")
    src = unparse(cr)
    if "resume_file + '.old'" not in src and 'resume_file + ".old"' not in src:
        raise Declined("check_resume no longer looks at resume_file + '.old'")

    mod2, _ = parse("nessai/proposal/flowproposal.py")
    fr = find_function(mod2, "resume", cls="FlowProposal")
    wcatch, wfallback, welif, wremove = [], False, False, False
    found = False
    for n in ast.walk(fr):
        if isinstance(n, ast.If) and unparse(n.test) == "os.path.exists(weights_file)":
            found = True
            body = [s for s in n.body if not is_logging(s)]
            if len(body) == 1 and isinstance(body[0], ast.Try):
                t = body[0]
                if [unparse(s) for s in t.body if not is_logging(s)] != ["self.flow.reload_weights(weights_file)"]:
                    raise Declined("try body in FlowProposal.resume without a rule")
                if len(t.handlers) != 1:
                    raise Declined("several except clauses around reload_weights")
                wcatch = _exn_list(t.handlers[0].type)
                hb = [unparse(s) for s in t.handlers[0].body if not is_logging(s)]
                if hb in (["self.flow.reload_weights(weights_file + '.old')"],):
                    wfallback = True
                elif hb in (["self.flow.reload_weights(weights_file + '.old')", "os.remove(weights_file)"],
                            ["self.flow.reload_weights(weights_file + '.old')", "os.unlink(weights_file)"]):
                    # the damaged file is removed only after the fallback copy has loaded
                    wfallback, wremove = True, True
                elif hb:
                    raise Declined(f"handler body without a rule: {hb}")
            elif [unparse(s) for s in body] == ["self.flow.reload_weights(weights_file)"]:
                pass
            else:
                raise Declined("weights loading in FlowProposal.resume has a shape without a rule")
            oe = [s for s in n.orelse if not is_logging(s)]
            if len(oe) == 1 and isinstance(oe[0], ast.If) and unparse(oe[0].test) == "os.path.exists(weights_file + '.old')":
                if [unparse(s) for s in oe[0].body if not is_logging(s)] == ["self.flow.reload_weights(weights_file + '.old')"] \
                        and not [s for s in oe[0].orelse if not is_logging(s)]:
                    welif = True
                else:
                    raise Declined("elif branch of the weights loading without a rule")
            elif oe:
                raise Declined("else branch of the weights loading without a rule")
            break
    if not found:
        raise Declined("FlowProposal.resume: `if os.path.exists(weights_file)` not found")

    def cl(xs):
        return "[" + "; ".join(xs) + "]"
    # the oracle for torn weights files is the full one (EOFError, OSError, RuntimeError, and
    # UnpicklingError for a file shorter than the zip magic)
    term = (f"{{| rc_wcls := wcls_all; rc_catch1 := {cl(catch1)}; rc_try_old := {'true' if try_old else 'false'}; "
            f"rc_wcatch := {cl(wcatch)}; rc_wfallback := {'true' if wfallback else 'false'}; "
            f"rc_welif_old := {'true' if welif else 'false'}; rc_wremove := {'true' if wremove else 'false'} |}}")
    return term


def _mkdir_of(call, var):
    """exist_ok flag if call is os.makedirs(var, ...) / os.mkdir(var), else None."""
    if isinstance(call, ast.Call) and dotted(call.func) in ("os.makedirs", "os.mkdir", "makedirs") and call.args \
            and unparse(call.args[0]) == var:
        ok = False
        for k in call.keywords:
            if k.arg == "exist_ok":
                if not isinstance(k.value, ast.Constant):
                    raise Declined(f"exist_ok is not a literal: {unparse(call)}")
                ok = bool(k.value.value)
        if len(call.args) >= 3 and isinstance(call.args[2], ast.Constant):
            ok = bool(call.args[2].value)
        return ok
    return None


def _dir_ops(stmts, var, stop_at=None):
    """Directory-creation ops on `var` in source order; stops at the first statement containing a call for which
    stop_at(call) holds (returned as second component)."""
    ops = []
    for st in stmts:
        if stop_at:
            for n in ast.walk(st):
                if isinstance(n, ast.Call) and stop_at(n):
                    return ops, n
        if isinstance(st, ast.If) and unparse(st.test) in (f"not os.path.exists({var})", f"not os.path.isdir({var})") \
                and not st.orelse:
            inner = [_mkdir_of(b.value, var) for b in st.body if isinstance(b, ast.Expr)]
            if any(x is not None for x in inner):
                ops.append("TMkdirIfAbsent D")
                continue
        if isinstance(st, ast.If) and unparse(st.test) == f"{var} is None":
            # the directory is given by the caller: the else branch is the one taken
            sub, hit = _dir_ops(st.orelse, var, stop_at)
            ops += sub
            if hit is not None:
                return ops, hit
            continue
        if isinstance(st, ast.Expr) and _mkdir_of(st.value, var) is not None:
            ops.append(f"TMkdir D {'true' if _mkdir_of(st.value, var) else 'false'}")
            continue
        if isinstance(st, ast.Try) and len(st.body) == 1 and isinstance(st.body[0], ast.Expr) \
                and _mkdir_of(st.body[0].value, var) is not None:
            caught = [x for h in st.handlers for x in _exn_list(h.type)] if all(h.type is not None for h in st.handlers) else ["OSE"]
            swallowed = all(all(isinstance(b, ast.Pass) or is_logging(b) for b in h.body) for h in st.handlers)
            names = [unparse(h.type) for h in st.handlers if h.type is not None]
            if swallowed and (any("FileExistsError" in n or "OSError" in n or "Exception" in n for n in names) or not names):
                ops.append("TMkdir D true")
                continue
            raise Declined(f"try around makedirs({var}) without a rule")
        for n in ast.walk(st):
            if isinstance(n, ast.Call) and _mkdir_of(n, var) is not None:
                raise Declined(f"makedirs({var}) in a statement without a rule: {unparse(st)[:80]}")
    return ops, None


EXN.setdefault("FileExistsError", ["OSE"])


def _flowmodel_train_ops():
    mod, _ = parse("nessai/flowmodel/base.py")
    fn = find_function(mod, "train", cls="FlowModel")
    if "output" not in [a.arg for a in fn.args.args + fn.args.kwonlyargs]:
        raise Declined("FlowModel.train has no output parameter")
    src = unparse(fn)
    if "current_weights_file = os.path.join(output, 'model.pt')" not in src \
            or "self.save_weights(current_weights_file)" not in src:
        raise Declined("FlowModel.train no longer saves <output>/model.pt through save_weights")
    ops, _ = _dir_ops(strip_doc(fn.body), "output")
    return ops


def training_ops(which):
    """Op list (directories + weights file) of one training: which = 'ins' (ImportanceFlowProposal.train, one
    directory per level) or 'std' (FlowProposal.train, one directory per block when training data / plots
    are kept).  -> Coq term of type trainer; uses the regenerated writers sk_save_w_ins / sk_save_w."""
    if which == "ins":
        mod, _ = parse("nessai/proposal/importance.py")
        fn = find_function(mod, "train", cls="ImportanceFlowProposal")
        var, writer = "level_output", "sk_save_w_ins"
        if "level_output = os.path.join(output, f'level_{self.level_count}', '')" not in unparse(fn):
            raise Declined("level_output is no longer <output>/level_<level_count>/")
    else:
        mod, _ = parse("nessai/proposal/flowproposal.py")
        fn = find_function(mod, "train", cls="FlowProposal")
        var, writer = "block_output", "sk_save_w"
        if "block_output = os.path.join(self.output, 'training', f'block_{self.training_count}', '')" not in unparse(fn):
            raise Declined("block_output is no longer <output>/training/block_<training_count>/")

    def is_flow_train(c):
        return dotted(c.func) == "self.flow.train" and any(k.arg == "output" and unparse(k.value) == var for k in c.keywords)
    ops, call = _dir_ops(strip_doc(fn.body), var, stop_at=is_flow_train)
    if call is None:
        raise Declined(f"self.flow.train(..., output={var}) not found")
    ops += _flowmodel_train_ops()
    lst = "[" + "; ".join(ops) + "]"
    return f"(fun (D : dname) (F : fname) (NEW : payload) => {lst} ++ map TFile ({writer} F NEW))"


def resume_holder():
    """Which file the RESUMED sampler checkpoints to: where sampler.resume_file comes from after a resume.
    -> Coq term of type rholder."""
    sites = []
    mod_b, _ = parse("nessai/samplers/base.py")
    mod_f, _ = parse("nessai/flowsampler.py")
    todo = [("nessai/samplers/base.py", mod_b, "BaseNestedSampler", ("resume", "resume_from_pickled_sampler")),
            ("nessai/flowsampler.py", mod_f, "FlowSampler", ("_resume_from_file", "_resume_from_data", "__init__"))]
    for rel, cls, names in (("nessai/samplers/nestedsampler.py", "NestedSampler", ("resume", "resume_from_pickled_sampler")),
                            ("nessai/samplers/importancesampler.py", "ImportanceNestedSampler",
                             ("resume", "resume_from_pickled_sampler"))):
        m, _ = parse(rel)
        todo.append((rel, m, cls, names))
    for rel, mod, cls, names in todo:
        cnode = find_class(mod, cls)
        for fn in cnode.body:
            if isinstance(fn, ast.FunctionDef) and fn.name in names:
                for n in ast.walk(fn):
                    tgts = n.targets if isinstance(n, ast.Assign) else [n.target] if isinstance(n, (ast.AugAssign, ast.AnnAssign)) else []
                    for t in tgts:
                        if isinstance(t, ast.Attribute) and t.attr == "resume_file":
                            sites.append((cls, fn.name, unparse(n)))
                    if isinstance(n, ast.Call) and dotted(n.func) == "setattr" and n.args[1:2] \
                            and isinstance(n.args[1], ast.Constant) and n.args[1].value == "resume_file":
                        sites.append((cls, fn.name, unparse(n)))
    # the constructor path: configure_output joins output and resume_file
    co = find_function(mod_b, "configure_output", cls="BaseNestedSampler")
    if "self.resume_file = resume_file" not in unparse(co):
        raise Declined("configure_output no longer sets self.resume_file = resume_file")
    if not sites:
        return "KeepPickled", sites
    if sites == [("BaseNestedSampler", "resume", "sampler.resume_file = filename")]:
        # filename is the file _resume_from_file handed over: the resume file or its .old copy
        return "FollowLoaded", sites
    raise Declined(f"resume_file is re-assigned on the resume path in a shape without a rule: {sites}")


if __name__ == "__main__":
    for f in (lambda: safe_file_dump(True), lambda: safe_file_dump(False), flowmodel_save_weights,
              importance_save_weights, checkpoint_call, reader_config, resume_holder,
              lambda: training_ops('ins'), lambda: training_ops('std')):
        try:
            print(f())
        except Declined as e:
            print("declined:", e)
