"""C15 translator: the stopping logic of both samplers -> Gallina tests over `lvars`.

Regenerated from /repo's current source (Python ast, nothing is executed):

  NestedSampler.nested_sampling_loop   gen_spre gen_spost gen_sentry gen_sfin
  NestedSampler.initialise             gen_sinit          (guard of `self.finalised = False`)
  NestedSampler.finalise               gen_sfin_effs      (effect list over ns / live / finalised)
  NestedSampler.update_history / consume_sample           which attribute is recorded / compared / assigned
  ImportanceNestedSampler.nested_sampling_loop            gen_ipre gen_ipost gen_ientry gen_ifin_always
  ImportanceNestedSampler.reached_tolerance               gen_reached
  ImportanceNestedSampler.stopping_criterion_aliases      gen_aliases
  ImportanceNestedSampler.compute_stopping_criterion / update_history   attribute table

A loop `while G: A..; body; B..` is reduced to  pre = not G or (any `if T: break` in A),
post = (any `if T: break` in B); `body` is delimited by the statements that produce the compared value
and advance the iteration.  Shapes without a rule raise Declined (the correspondence then decides alone).
"""
import ast

from pyast import Declined, dotted, find_class, find_function, is_logging, parse, strip_doc, unparse

STD = "nessai/samplers/nestedsampler.py"
INS = "nessai/samplers/importancesampler.py"

ZVARS = {"self.condition": "(v_cond v)", "self.tolerance": "(v_tol v)"}
XVARS = {"self.iteration": "(Some (v_it v))", "self.min_iteration": "(Some (v_min v))", "self.max_iteration": "(v_cap v)"}
BVARS = {"self.finalised": "(v_fin v)", "self.reached_tolerance": "(v_reached v)"}


def zexp(e, env):
    u = unparse(e)
    if u in env:
        return env[u]
    if u in ZVARS:
        return ZVARS[u]
    raise Declined(f"value without a rule: {u}")


def xexp(e):
    u = unparse(e)
    if u in XVARS:
        return XVARS[u]
    if isinstance(e, ast.Constant) and isinstance(e.value, int) and not isinstance(e.value, bool):
        return f"(Some ({e.value}))"
    if u in ("np.inf", "numpy.inf", "math.inf", "float('inf')"):
        return "None"
    raise Declined(f"iteration expression without a rule: {u}")


def bexp(e, env=None):
    """boolean expression -> Gallina bool over `v : lvars` (env: extra Z names, e.g. c, t of a comprehension)"""
    env = env or {}
    u = unparse(e)
    if u in BVARS:
        return BVARS[u]
    if isinstance(e, ast.Constant) and isinstance(e.value, bool):
        return "true" if e.value else "false"
    if isinstance(e, ast.BoolOp):
        op = " && " if isinstance(e.op, ast.And) else " || "
        return "(" + op.join(bexp(x, env) for x in e.values) + ")"
    if isinstance(e, ast.UnaryOp) and isinstance(e.op, ast.Not):
        return f"(negb {bexp(e.operand, env)})"
    if isinstance(e, ast.Compare) and len(e.ops) == 1:
        a, b, op = e.left, e.comparators[0], e.ops[0]
        ua, ub = unparse(a), unparse(b)
        zs = set(ZVARS) | set(env)
        if ua in zs and ub in zs:
            x, y = zexp(a, env), zexp(b, env)
            return {ast.Lt: f"({x} <? {y})", ast.LtE: f"({x} <=? {y})", ast.Gt: f"({y} <? {x})",
                    ast.GtE: f"({y} <=? {x})", ast.Eq: f"({x} =? {y})",
                    ast.NotEq: f"(negb ({x} =? {y}))"}.get(type(op)) or _no(u)
        x, y = xexp(a), xexp(b)
        return {ast.Lt: f"(xlt {x} {y})", ast.LtE: f"(xle {x} {y})", ast.Gt: f"(xlt {y} {x})",
                ast.GtE: f"(xle {y} {x})", ast.Eq: f"(xle {x} {y} && xle {y} {x})",
                ast.NotEq: f"(negb (xle {x} {y} && xle {y} {x}))"}.get(type(op)) or _no(u)
    raise Declined(f"test without a rule: {u}")


def _no(u):
    raise Declined(f"comparison without a rule: {u}")


def has_jump(node):
    return any(isinstance(n, (ast.Break, ast.Continue, ast.Return, ast.Raise)) for n in ast.walk(node))


def break_test(stmt):
    """`if T: [logging]* break` (no else) -> T, else None"""
    if isinstance(stmt, ast.If) and not stmt.orelse:
        body = [s for s in stmt.body if not is_logging(s)]
        if len(body) == 1 and isinstance(body[0], ast.Break):
            return stmt.test
    return None


def is_call(stmt, name):
    return isinstance(stmt, ast.Expr) and isinstance(stmt.value, ast.Call) and dotted(stmt.value.func) == name


def assigns(stmt, target):
    if isinstance(stmt, ast.Assign):
        return any(unparse(t) == target for t in stmt.targets)
    if isinstance(stmt, ast.AugAssign):
        return unparse(stmt.target) == target
    return False


def fun(name, term):
    return f"Definition {name} (v : lvars) : bool := {term}.\n"


def split_loop(loop, is_marker):
    """-> (pre tests, post tests); markers = the statements that make up the body proper"""
    if loop.orelse:
        raise Declined("while ... else")
    body = [s for s in loop.body if not is_logging(s)]
    marks = [i for i, s in enumerate(body) if is_marker(s)]
    if not marks:
        raise Declined("loop body: the statement producing the compared value was not found")
    first, last = marks[0], marks[-1]
    pre, post = [], []
    for i, s in enumerate(body):
        t = break_test(s)
        if t is not None:
            if i < first:
                # a break test at the head is only a head test if nothing before it changes the tracked state:
                # statements before the first marker are calls that do not assign condition / iteration here
                pre.append(t)
            elif i > last:
                post.append(t)
            else:
                raise Declined("a break test between the statements of the loop body")
        elif has_jump(s) and not is_marker(s):
            raise Declined(f"control flow without a rule in the loop: {unparse(s)[:60]}")
    return pre, post


def entry_test(fn):
    body = [s for s in strip_doc(fn.body) if not is_logging(s)]
    if body and isinstance(body[0], ast.If) and not body[0].orelse and \
            any(isinstance(s, ast.Return) for s in body[0].body):
        return body[0].test
    return None


# ---- standard sampler ---------------------------------------------------------------------------
def std_loop():
    mod, _ = parse(STD)
    fn = find_function(mod, "nested_sampling_loop", cls="NestedSampler")
    body = strip_doc(fn.body)
    loops = [s for s in body if isinstance(s, ast.While)]
    if len(loops) != 1:
        raise Declined(f"{len(loops)} while loops at the top level of NestedSampler.nested_sampling_loop")
    loop = loops[0]
    pre, post = split_loop(loop, lambda s: is_call(s, "self.consume_sample"))
    ent = entry_test(fn)
    out = fun("gen_spre", "(" + " || ".join([f"(negb {bexp(loop.test)})"] + [bexp(t) for t in pre]) + ")")
    out += fun("gen_spost", "(" + " || ".join([bexp(t) for t in post] or ["false"]) + ")")
    out += fun("gen_sentry", bexp(ent) if ent is not None else "false")
    # the finalise guard after the loop
    after = body[body.index(loop) + 1:]
    fin = None
    for s in after:
        if is_call(s, "self.finalise"):
            fin = "true"
        elif isinstance(s, ast.If) and any(is_call(x, "self.finalise") for x in s.body):
            if s.orelse and any(is_call(x, "self.finalise") for x in ast.walk(ast.Module(body=s.orelse, type_ignores=[]))):
                raise Declined("finalise in both branches")
            fin = bexp(s.test)
        elif any(isinstance(n, ast.Call) and dotted(n.func) == "self.finalise" for n in ast.walk(s)):
            raise Declined("self.finalise() in a shape without a rule")
        if fin:
            break
    out += fun("gen_sfin", fin or "false")
    # prior sampling: `if self.prior_sampling: ... self.finalise(); return` precedes the loop
    before = body[:body.index(loop)]
    prior = [s for s in before if isinstance(s, ast.If) and unparse(s.test) == "self.prior_sampling"]
    info = {"pre_tests": [unparse(t) for t in pre], "post_tests": [unparse(t) for t in post],
            "while": unparse(loop.test), "entry": unparse(ent) if ent is not None else None,
            "prior_branch_finalises_and_returns":
                bool(prior) and any(is_call(x, "self.finalise") for x in prior[0].body)
                and any(isinstance(x, ast.Return) for x in prior[0].body)}
    return out, info


def std_init():
    mod, _ = parse(STD)
    fn = find_function(mod, "initialise", cls="NestedSampler")
    hits = []
    for s in strip_doc(fn.body):
        if isinstance(s, ast.If):
            inner = [x for x in ast.walk(s) if isinstance(x, ast.Assign) and assigns(x, "self.finalised")]
            if inner:
                body = [x for x in s.body if not is_logging(x)]
                if s.orelse or len(body) != 1 or not assigns(body[0], "self.finalised") \
                        or unparse(body[0].value) != "False":
                    raise Declined("initialise: the reset of self.finalised has a shape without a rule")
                hits.append(s.test)
        elif any(isinstance(x, (ast.Assign, ast.AugAssign)) and assigns(x, "self.finalised") for x in ast.walk(s)):
            raise Declined("initialise: self.finalised assigned outside a simple if")
    if len(hits) > 1:
        raise Declined("initialise: several resets of self.finalised")
    # the draw of fresh live points
    pop = [unparse(s.test) for s in strip_doc(fn.body) if isinstance(s, ast.If)
           and any(is_call(x, "self.populate_live_points") for x in s.body)]
    return fun("gen_sinit", bexp(hits[0]) if hits else "false"), {"reset_test": unparse(hits[0]) if hits else None,
                                                                   "populate_test": pop}


def std_finalise():
    mod, _ = parse(STD)
    fn = find_function(mod, "finalise", cls="NestedSampler")
    effs = []
    tracked = ("self.nested_samples", "self.live_points", "self.finalised")
    for s in strip_doc(fn.body):
        if is_logging(s):
            continue
        if isinstance(s, ast.For):
            it = unparse(s.iter)
            if it not in ("self.live_points", "enumerate(self.live_points)"):
                if any(t in unparse(s) for t in tracked):
                    raise Declined(f"finalise: loop over {it}")
                effs.append("FOtherF")
                continue
            tgt = s.target
            pvar = unparse(tgt.elts[1]) if isinstance(tgt, ast.Tuple) and it.startswith("enumerate") else unparse(tgt)
            b = []
            for x in s.body:
                if is_logging(x):
                    continue
                if is_call(x, "self.nested_samples.append"):
                    if len(x.value.args) != 1 or unparse(x.value.args[0]) != pvar:
                        raise Declined(f"finalise: appends {unparse(x.value.args[0])}, not the live point")
                    b.append("BAppendNS")
                elif any(t in unparse(x) for t in tracked) and "self.nested_samples" in unparse(x):
                    raise Declined(f"finalise: {unparse(x)[:60]}")
                elif any(isinstance(n, (ast.Assign, ast.AugAssign)) and
                         any(assigns(n, t) for t in ("self.live_points", "self.finalised")) for n in ast.walk(x)):
                    raise Declined(f"finalise: {unparse(x)[:60]}")
                else:
                    b.append("BOtherB")
            effs.append("FForLive [" + "; ".join(b) + "]")
        elif assigns(s, "self.live_points"):
            if unparse(s.value) != "None":
                raise Declined("finalise: live_points set to something else than None")
            effs.append("FSetLiveNone")
        elif assigns(s, "self.finalised"):
            if unparse(s.value) != "True":
                raise Declined("finalise: finalised set to something else than True")
            effs.append("FSetFinalised")
        elif "self.nested_samples" in unparse(s) and not unparse(s).startswith("logger"):
            raise Declined(f"finalise: {unparse(s)[:60]}")
        elif any(isinstance(n, (ast.Assign, ast.AugAssign)) and
                 any(assigns(n, t) for t in ("self.live_points", "self.finalised")) for n in ast.walk(s)):
            raise Declined(f"finalise: {unparse(s)[:60]}")
        else:
            effs.append("FOtherF")
    return "Definition gen_sfin_effs : list feff := [" + "; ".join(effs) + "].\n", {"effects": effs}


def std_sources():
    """which attribute the history records as dlogZ, which the guard compares, where it is assigned"""
    mod, _ = parse(STD)
    uh = find_function(mod, "update_history", cls="NestedSampler")
    rec = [unparse(n.args[0]) for n in ast.walk(uh) if isinstance(n, ast.Call)
           and unparse(n.func) in ("self.history['dlogZ'].append", 'self.history["dlogZ"].append') and n.args]
    cs = find_function(mod, "consume_sample", cls="NestedSampler")
    n_cond = sum(1 for s in ast.walk(cs) if isinstance(s, (ast.Assign, ast.AugAssign)) and assigns(s, "self.condition"))
    n_it = sum(1 for s in ast.walk(cs) if isinstance(s, ast.AugAssign) and assigns(s, "self.iteration")
               and isinstance(s.op, ast.Add) and unparse(s.value) == "1")
    n_it_any = sum(1 for s in ast.walk(cs) if isinstance(s, (ast.Assign, ast.AugAssign)) and assigns(s, "self.iteration"))
    loop_fn = find_function(mod, "nested_sampling_loop", cls="NestedSampler")
    loops = [s for s in strip_doc(loop_fn.body) if isinstance(s, ast.While)]
    compared = sorted({unparse(n) for n in ast.walk(loops[0].test) if isinstance(n, ast.Attribute)}) if loops else []
    return {"history_dlogZ_records": rec, "guard_reads": compared,
            "consume_sample_assigns_condition": n_cond, "consume_sample_increments_iteration": n_it,
            "consume_sample_assigns_iteration": n_it_any}


# ---- importance sampler -------------------------------------------------------------------------
def ins_loop():
    mod, _ = parse(INS)
    fn = find_function(mod, "nested_sampling_loop", cls="ImportanceNestedSampler")
    body = strip_doc(fn.body)
    loops = [s for s in body if isinstance(s, ast.While)]
    if len(loops) != 1:
        raise Declined(f"{len(loops)} while loops at the top level of ImportanceNestedSampler.nested_sampling_loop")
    loop = loops[0]

    def marker(s):
        return assigns(s, "self.criterion") or assigns(s, "self.iteration")

    pre, post = split_loop(loop, marker)
    lb = [s for s in loop.body if not is_logging(s)]
    crit = [s for s in lb if assigns(s, "self.criterion")]
    incr = [s for s in lb if assigns(s, "self.iteration")]
    if len(crit) != 1 or unparse(crit[0].value) != "self.compute_stopping_criterion()":
        raise Declined("loop body: self.criterion is not assigned once from compute_stopping_criterion()")
    if len(incr) != 1 or not (isinstance(incr[0], ast.AugAssign) and isinstance(incr[0].op, ast.Add)
                              and unparse(incr[0].value) == "1"):
        raise Declined("loop body: self.iteration is not incremented by one exactly once")
    guard = loop.test
    gtxt = "false" if (isinstance(guard, ast.Constant) and guard.value is True) else f"(negb {bexp(guard)})"
    ent = entry_test(fn)
    out = fun("gen_ipre", "(" + " || ".join([gtxt] + [bexp(t) for t in pre]) + ")")
    out += fun("gen_ipost", "(" + " || ".join([bexp(t) for t in post] or ["false"]) + ")")
    out += fun("gen_ientry", bexp(ent) if ent is not None else "false")
    after = body[body.index(loop) + 1:]
    always = any(is_call(s, "self.finalise") for s in after)
    out += f"Definition gen_ifin_always : bool := {'true' if always else 'false'}.\n"
    return out, {"pre_tests": [unparse(t) for t in pre], "post_tests": [unparse(t) for t in post],
                 "while": unparse(guard), "entry": unparse(ent) if ent is not None else None,
                 "finalise_unconditional_after_loop": always}


def reached():
    mod, _ = parse(INS)
    fn = find_function(mod, "reached_tolerance", cls="ImportanceNestedSampler")

    def comb(call):
        if not (isinstance(call, ast.Call) and dotted(call.func) in ("any", "all", "np.any", "np.all") and len(call.args) == 1):
            raise Declined(f"reached_tolerance returns {unparse(call)[:60]}")
        c = call.args[0]
        if not isinstance(c, (ast.ListComp, ast.GeneratorExp)) or len(c.generators) != 1 or c.generators[0].ifs:
            raise Declined("reached_tolerance: not a single comprehension")
        g = c.generators[0]
        if not (isinstance(g.iter, ast.Call) and dotted(g.iter.func) == "zip" and len(g.iter.args) == 2
                and isinstance(g.target, ast.Tuple) and len(g.target.elts) == 2):
            raise Declined("reached_tolerance: not a zip of two sequences")
        seqs = [unparse(a) for a in g.iter.args]
        names = [unparse(e) for e in g.target.elts]
        proj = {}
        for nm, sq, pr in zip(names, seqs, ("fst p", "snd p")):
            proj[nm] = f"({pr})"
        if seqs == ["self.criterion", "self.tolerance"]:
            lists = "(combine crit tol)"
        elif seqs == ["self.tolerance", "self.criterion"]:
            lists = "(combine tol crit)"
        else:
            raise Declined(f"reached_tolerance zips {seqs}")
        f = "existsb" if dotted(call.func) in ("any", "np.any") else "forallb"
        # bexp reads `v`; a comprehension element only reads the two names
        elt = bexp(c.elt, env=proj)
        return f"({f} (fun b : bool => b) (map (fun p : Z * Z => {elt}) {lists}))"

    def block(stmts):
        stmts = [s for s in strip_doc(stmts) if not is_logging(s)]
        if not stmts:
            raise Declined("reached_tolerance: path without a result")
        s = stmts[0]
        if isinstance(s, ast.Return):
            return comb(s.value)
        if isinstance(s, ast.If):
            u = unparse(s.test)
            if u == "self._stop_any":
                c = "a"
            elif u == "not self._stop_any":
                c = "(negb a)"
            else:
                raise Declined(f"reached_tolerance tests {u}")
            return f"(if {c} then {block(list(s.body) + stmts[1:])} else {block(list(s.orelse) + stmts[1:])})"
        raise Declined(f"reached_tolerance: {unparse(s)[:60]}")

    return "Definition gen_reached (a : bool) (crit tol : list Z) : bool :=\n  " + block(fn.body) + ".\n"


def aliases():
    mod, _ = parse(INS)
    cls = find_class(mod, "ImportanceNestedSampler")
    val = None
    for s in cls.body:
        if isinstance(s, ast.Assign) and any(unparse(t) == "stopping_criterion_aliases" for t in s.targets):
            val = s.value
    if val is None:
        raise Declined("stopping_criterion_aliases not found")
    rows = []
    if isinstance(val, ast.Call) and dotted(val.func) == "dict" and not val.args:
        items = [(k.arg, k.value) for k in val.keywords]
    elif isinstance(val, ast.Dict):
        items = [(k.value if isinstance(k, ast.Constant) else None, v) for k, v in zip(val.keys, val.values)]
    else:
        raise Declined("stopping_criterion_aliases is not a dict literal")
    for k, v in items:
        if not isinstance(k, str) or not isinstance(v, (ast.List, ast.Tuple)) \
                or not all(isinstance(e, ast.Constant) and isinstance(e.value, str) for e in v.elts):
            raise Declined("stopping_criterion_aliases: entry without a rule")
        rows.append((k, [e.value for e in v.elts]))
    txt = "Definition gen_aliases : atable := [" + "; ".join(
        '("%s", [%s])' % (k, "; ".join('"%s"' % a for a in al)) for k, al in rows) + "]%string.\n"
    return txt, rows


def ins_sources():
    """the attributes compute_stopping_criterion assigns, what it returns, what update_history records"""
    mod, _ = parse(INS)
    fn = find_function(mod, "compute_stopping_criterion", cls="ImportanceNestedSampler")
    assigned = []
    for s in ast.walk(fn):
        if isinstance(s, ast.Assign):
            for t in s.targets:
                u = unparse(t)
                if u.startswith("self."):
                    assigned.append(u[5:])
    ret = [unparse(s.value) for s in ast.walk(fn) if isinstance(s, ast.Return) and s.value is not None]
    defs = {}
    for s in ast.walk(fn):
        if isinstance(s, ast.Assign) and len(s.targets) == 1:
            defs[unparse(s.targets[0])] = unparse(s.value)
    uh = find_function(mod, "update_history", cls="ImportanceNestedSampler")
    hist = [unparse(s) for s in uh.body if isinstance(s, ast.For) and "stopping_criteria" in unparse(s)]
    return {"assigned": sorted(set(assigned)), "returns": ret, "definitions": defs, "history_loop": hist}


if __name__ == "__main__":
    for f in (std_loop, std_init, std_finalise, std_sources, ins_loop, reached, aliases, ins_sources):
        try:
            print(f.__name__, f())
        except Declined as e:
            print(f.__name__, "DECLINED", e)
