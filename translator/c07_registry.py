"""C07 tie A: regenerate the reparameterisation registry (name -> class, kwargs) and the constructor
option matrix (class -> __init__ keyword -> default) from /repo's source with `ast` (nothing is executed).

A registered name whose class / kwargs have no model instance, or a constructor keyword the option matrix
of harness/c07.py does not enumerate, is reported as *unclassified* by the driver."""
import ast

from pyast import Declined, parse, find_class, dotted

REG_FILES = [
    ("nessai/reparameterisations/__init__.py", "default_reparameterisations"),
    ("nessai/gw/reparameterisations.py", "default_gw"),
]
CLASS_FILES = [
    "nessai/reparameterisations/base.py",
    "nessai/reparameterisations/rescale.py",
    "nessai/reparameterisations/angle.py",
    "nessai/reparameterisations/null.py",
    "nessai/gw/reparameterisations.py",
]


def _literal(node):
    try:
        return ast.literal_eval(node)
    except Exception:
        raise Declined(f"non-literal registry value: {ast.unparse(node)}")


def _dict_assign(tree, name):
    for node in tree.body:
        if isinstance(node, ast.Assign) and len(node.targets) == 1 and dotted(node.targets[0]) == name:
            if not isinstance(node.value, ast.Dict):
                raise Declined(f"{name} is not a dict literal")
            return node.value
    raise Declined(f"{name} not found")


def registry():
    """{'default_reparameterisations': {name: (class, kwargs)}, 'default_gw': {...}} ; name None -> 'None'."""
    out = {}
    for rel, var in REG_FILES:
        tree, _ = parse(rel)
        d = _dict_assign(tree, var)
        reg = {}
        for k, v in zip(d.keys, d.values):
            key = _literal(k)
            if not (isinstance(v, ast.Tuple) and len(v.elts) == 2):
                raise Declined(f"registry entry {key!r} is not a (class, kwargs) tuple")
            cls = dotted(v.elts[0])
            if cls is None:
                raise Declined(f"registry entry {key!r}: class is not a name")
            kwargs = _literal(v.elts[1])
            if kwargs is not None and not isinstance(kwargs, dict):
                raise Declined(f"registry entry {key!r}: kwargs neither None nor dict")
            reg["None" if key is None else key] = (cls, kwargs or {})
        out[var] = reg
        # default_gw.update(default_reparameterisations) must still be there for the GW lookup to see both
        if var == "default_gw":
            merged = any(isinstance(n, ast.Expr) and isinstance(n.value, ast.Call)
                         and dotted(n.value.func) == "default_gw.update" for n in tree.body)
            out["gw_includes_default"] = merged
    return out


def signatures():
    """{class: {'bases': [...], 'init': {kw: default-as-source or '<required>'}, 'kwargs': bool}}"""
    sigs = {}
    for rel in CLASS_FILES:
        tree, _ = parse(rel)
        for node in tree.body:
            if not isinstance(node, ast.ClassDef):
                continue
            entry = {"bases": [dotted(b) for b in node.bases], "init": None, "kwargs": False, "file": rel}
            for item in node.body:
                if isinstance(item, ast.FunctionDef) and item.name == "__init__":
                    a = item.args
                    names = [x.arg for x in a.args][1:]
                    defaults = [None] * (len(names) - len(a.defaults)) + list(a.defaults)
                    entry["init"] = {n: ("<required>" if d is None else ast.unparse(d))
                                     for n, d in zip(names, defaults)}
                    for x, d in zip(a.kwonlyargs, a.kw_defaults):
                        entry["init"][x.arg] = "<required>" if d is None else ast.unparse(d)
                    entry["kwargs"] = a.kwarg is not None
            sigs[node.name] = entry
    return sigs


def options(cls, sigs):
    """Constructor keywords of a class including those reached through **kwargs -> base __init__."""
    seen, out = set(), {}
    while cls and cls in sigs and cls not in seen:
        seen.add(cls)
        e = sigs[cls]
        if e["init"] is not None:
            for k, v in e["init"].items():
                out.setdefault(k, v)
            if not e["kwargs"]:
                break
        cls = e["bases"][0] if e["bases"] else None
    return out


def gw_aliases():
    """GWFlowProposal.aliases: parameter name -> (registered name, extra parameter names or None)."""
    tree, _ = parse("nessai/gw/proposal.py")
    cls = find_class(tree, "GWFlowProposal")
    for node in cls.body:
        if isinstance(node, ast.Assign) and len(node.targets) == 1 and dotted(node.targets[0]) == "aliases":
            return {k: tuple(v) for k, v in _literal(node.value).items()}
    raise Declined("GWFlowProposal.aliases not found")


def prior_functions():
    """names of the top-level functions of nessai/priors.py (the prime-space priors offered)"""
    tree, _ = parse("nessai/priors.py")
    return [n.name for n in tree.body if isinstance(n, ast.FunctionDef)]


def rescaling_functions():
    tree, _ = parse("nessai/utils/rescaling.py")
    d = _dict_assign(tree, "rescaling_functions")
    out = {}
    for k, v in zip(d.keys, d.values):
        if not isinstance(v, ast.Tuple):
            raise Declined("rescaling_functions entry is not a tuple")
        out[_literal(k)] = [dotted(e) for e in v.elts]
    return out


if __name__ == "__main__":
    import json
    print(json.dumps({"registry": registry(), "signatures": signatures(), "rescaling_functions": rescaling_functions()},
                     indent=1, default=str))
