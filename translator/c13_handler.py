"""C13 translator: the signal handler (FlowSampler.safe_exit / terminate_run), the forced branch of
BaseNestedSampler.checkpoint, the guard of ImportanceNestedSampler.checkpoint, and the map from
source lines of the iteration to boundaries of the effect list (c01_effects.skeleton).

Reads the source with `ast`, never executes nessai.  Raises Declined on shapes without a rule.
"""
import ast

from pyast import Declined, dotted, find_class, find_function, is_logging, parse, strip_doc, unparse

import c01_effects


def _norm(node):
    return unparse(node).replace(" ", "").replace("'", '"')


def handler():
    """-> (Coq list of heff, list of python statement texts)"""
    mod, _ = parse("nessai/flowsampler.py")
    se = find_function(mod, "safe_exit", cls="FlowSampler")
    tr = find_function(mod, "terminate_run", cls="FlowSampler")
    # periodic must default to False in the base checkpoint (the handler calls checkpoint() bare)
    base, _ = parse("nessai/samplers/base.py")
    ck = find_function(base, "checkpoint", cls="BaseNestedSampler")
    names = [a.arg for a in ck.args.args]
    if "periodic" not in names:
        raise Declined("BaseNestedSampler.checkpoint has no `periodic` parameter")
    defaults = dict(zip(names[len(names) - len(ck.args.defaults):], ck.args.defaults))
    pd = defaults.get("periodic")
    if not (isinstance(pd, ast.Constant) and pd.value is False):
        raise Declined("`periodic` does not default to False")

    def term(stmts):
        out = []
        for s in strip_doc(stmts):
            if is_logging(s):
                out.append(("HSkip", unparse(s)))
                continue
            t = _norm(s)
            if isinstance(s, ast.Expr) and isinstance(s.value, ast.Call):
                d = dotted(s.value.func)
                if d == "self.ns.close_pool":
                    out.append(("HClosePool", unparse(s)))
                    continue
                if d == "self.ns.checkpoint":
                    kws = {k.arg: k.value for k in s.value.keywords}
                    per = kws.get("periodic", s.value.args[0] if s.value.args else None)
                    if per is None or (isinstance(per, ast.Constant) and per.value is False):
                        out.append(("(HCheckpoint false)", unparse(s)))
                    elif isinstance(per, ast.Constant) and per.value is True:
                        out.append(("(HCheckpoint true)", unparse(s)))
                    else:
                        raise Declined(f"checkpoint called with periodic={unparse(per)}")
                    continue
                if d == "self.terminate_run":
                    out.extend(term(tr.body))
                    continue
                if d in ("sys.exit", "exit", "os._exit"):
                    a = s.value.args
                    ok = d == "sys.exit" and len(a) == 1 and _norm(a[0]) == "self.exit_code"
                    out.append((f"(HExit {'true' if ok else 'false'})", unparse(s)))
                    continue
            if isinstance(s, ast.Raise) and "SystemExit" in t:
                ok = t == "raiseSystemExit(self.exit_code)"
                out.append((f"(HExit {'true' if ok else 'false'})", unparse(s)))
                continue
            out.append(("HOther", unparse(s)))
        return out

    effs = term(se.body)
    return "[" + "; ".join(e[0] for e in effs) + "]", [e[1].split("\n")[0] for e in effs]


def signals_registered():
    mod, _ = parse("nessai/flowsampler.py")
    init = find_function(mod, "__init__", cls="FlowSampler")
    got = set()
    for n in ast.walk(init):
        if isinstance(n, ast.Call) and dotted(n.func) == "signal.signal" and len(n.args) == 2 \
                and _norm(n.args[1]) == "self.safe_exit":
            got.add(_norm(n.args[0]))
    need = {"signal.SIGTERM", "signal.SIGINT", "signal.SIGALRM"}
    if not need <= got:
        raise Declined(f"safe_exit registered for {sorted(got)} only")
    return sorted(got)


def nonperiodic_writes():
    """BaseNestedSampler.checkpoint on the path periodic=False (what the handler calls): is the dump
    reached UNCONDITIONALLY?  -> (bool, explanation).  A `return` / `raise` on that path, or a return
    under a condition that does not depend on `periodic` / `force` alone (e.g. a re-entrancy flag),
    makes the handler's checkpoint conditional: (False, which statement)."""
    mod, _ = parse("nessai/samplers/base.py")
    fn = find_function(mod, "checkpoint", cls="BaseNestedSampler")
    body = strip_doc(fn.body)
    seen_guard = False
    periodic_tests = ("notperiodic", "periodicisFalse", "periodic==False")

    def exits(stmts):
        return [n for b in stmts for n in ast.walk(b) if isinstance(n, (ast.Return, ast.Raise))]

    for s in body:
        if isinstance(s, ast.If) and _norm(s.test) in periodic_tests:
            seen_guard = True
            if exits(s.body):
                return False, f"the forced branch `if {unparse(s.test)}:` returns or raises (line {exits(s.body)[0].lineno})"
            continue
        if isinstance(s, ast.If) and _norm(s.test) in ("periodic", "periodicisTrue") and not seen_guard:
            seen_guard = True
            if exits(s.orelse):
                return False, f"the forced branch (else of `if {unparse(s.test)}:`) returns or raises"
            continue
        if isinstance(s, (ast.Return, ast.Raise)):
            return False, f"unconditional `{unparse(s)}` before the dump (line {s.lineno})"
        if isinstance(s, ast.If) and not seen_guard and exits([s]):
            return False, (f"`if {unparse(s.test)}:` at line {s.lineno} can return before the checkpoint is written - the "
                           "handler's checkpoint is conditional on it")
        dumps = [n for n in ast.walk(s) if isinstance(n, ast.Call) and dotted(n.func) == "safe_file_dump"]
        if dumps:
            a = [_norm(x) for x in dumps[0].args]
            if a[:2] != ["self", "self.resume_file"]:
                raise Declined(f"checkpoint dumps {a[:2]}")
            if not seen_guard:
                raise Declined("checkpoint: no test of `periodic` before the dump")
            return True, "no return on the periodic=False path before safe_file_dump(self, self.resume_file, ..)"
        if isinstance(s, ast.If) and seen_guard and exits([s]):
            return False, f"`if {unparse(s.test)}:` at line {s.lineno} can return before the checkpoint is written"
    raise Declined("checkpoint: safe_file_dump(self, self.resume_file, ..) not found")


def ins_checkpoint():
    mod, _ = parse("nessai/samplers/importancesampler.py")
    fn = find_function(mod, "checkpoint", cls="ImportanceNestedSampler")
    effs = []
    for s in strip_doc(fn.body):
        if is_logging(s):
            effs.append("ISkip")
        elif isinstance(s, ast.If) and _norm(s.test) in ("periodicisFalse", "notperiodic", "periodic==False"):
            body = [b for b in s.body if not is_logging(b)]
            if len(body) == 1 and isinstance(body[0], ast.Return) and not s.orelse:
                effs.append("IGuardReturn")
            else:
                effs.append("IOther")
        elif isinstance(s, ast.Expr) and isinstance(s.value, ast.Call) and _norm(s.value.func) == "super().checkpoint":
            effs.append("ISuper")
        else:
            effs.append("IOther")
    return "[" + "; ".join(effs) + "]"


def line_map():
    """-> dict(function name -> {lineno: boundary k}) for exact statement starts of the iteration,
    plus the boundary of Draw, the list of effects and the file path"""
    sk = c01_effects.skeleton()
    mod, _ = parse(c01_effects.SRC)
    spans = {}
    for name in ("consume_sample", "insert_live_point", "yield_sample"):
        fn = find_function(mod, name, cls="NestedSampler")
        spans[name] = (fn.lineno, fn.end_lineno)
    exact = {}
    kdraw = None
    for k, (eff, lo, hi, txt) in enumerate(sk["effs"]):
        for ln in range(lo, hi + 1):
            exact.setdefault(ln, k)
        if eff == "Draw":
            kdraw = k
    return {"effs": [e[0] for e in sk["effs"]], "texts": [e[3] for e in sk["effs"]], "exact": exact, "kdraw": kdraw,
            "spans": spans, "coq": "[" + "; ".join(e[0] for e in sk["effs"]) + "]", "sk": sk}


if __name__ == "__main__":
    print(handler())
    print(signals_registered())
    print(nonperiodic_writes())
    print(ins_checkpoint())
    lm = line_map()
    print(lm["exact"], lm["kdraw"], lm["spans"])


def stmt_lines(relpath, cls, func, only_loop_body=False):
    """[(lineno, stripped source text of that line, occurrence index of the text in the function)]
    for the first line of every statement of the function (nested ones included)."""
    mod, src = parse(relpath)
    fn = find_function(mod, func, cls=cls)
    lines = src.splitlines()
    root = fn
    if only_loop_body:
        loops = [n for n in fn.body if isinstance(n, ast.While)]
        if len(loops) != 1:
            raise Declined(f"{func}: expected one top-level loop")
        root = loops[0]
    seen, out = set(), []
    nodes = [n for n in ast.walk(root) if isinstance(n, ast.stmt) and n is not fn]
    for n in sorted(nodes, key=lambda n: n.lineno):
        if n.lineno in seen:
            continue
        if isinstance(n, ast.Expr) and isinstance(n.value, ast.Constant) and isinstance(n.value.value, str):
            continue  # docstring
        seen.add(n.lineno)
        out.append((n.lineno, lines[n.lineno - 1].strip()))
    flines = [l.strip() for l in lines[fn.lineno - 1:fn.end_lineno]]
    res = []
    for ln, txt in out:
        occ = sum(1 for l in lines[fn.lineno - 1:ln - 1] if l.strip() == txt)
        res.append((ln, txt, occ))
    return res


def around_iteration():
    """The statements of the loop body around consume_sample (check_state, update_state, the training
    functions) must not write a tracked field: then every boundary inside them is balanced."""
    mod, _ = parse(c01_effects.SRC)
    out = {}
    for name in ("check_state", "update_state", "train_proposal", "check_proposal_switch", "check_training"):
        fn = find_function(mod, name, cls="NestedSampler")
        bad = [unparse(s).split("\n")[0] for s in ast.walk(fn) if isinstance(s, ast.stmt) and s is not fn
               and not isinstance(s, (ast.If, ast.For, ast.While, ast.With, ast.Try))
               and c01_effects._touches_tracked(s)]
        out[name] = bad
    return out


# ---------------------------------------------------------------------------------------------
# every construct of the package that can intercept the SystemExit the handler raises
# ---------------------------------------------------------------------------------------------
def _catch_kind(t):
    """type expression of an except clause -> CBare | CBase | CSysExit | COther"""
    if t is None:
        return "CBare"
    names = []
    for n in ([t] if not isinstance(t, ast.Tuple) else t.elts):
        d = dotted(n)
        names.append(d.split(".")[-1] if d else unparse(n))
    if "BaseException" in names:
        return "CBase"
    if "SystemExit" in names:
        return "CSysExit"
    return "COther"


def _reraises(body):
    """the handler lets the exception go on: its last top-level statement raises or exits the process"""
    body = [s for s in body if not is_logging(s)]
    if not body:
        return False
    last = body[-1]
    if isinstance(last, ast.Raise):
        return True
    if isinstance(last, ast.Expr) and isinstance(last.value, ast.Call) and dotted(last.value.func) in ("sys.exit", "os._exit"):
        return True
    return False


def _jumps_out(stmts):
    """return / break / continue directly in a finally block (not inside a nested def or loop)"""
    for s in stmts:
        if isinstance(s, ast.Return):
            return True
        if isinstance(s, (ast.Break, ast.Continue)):
            return True
        if isinstance(s, (ast.FunctionDef, ast.AsyncFunctionDef, ast.ClassDef, ast.For, ast.While)):
            # break/continue inside an inner loop stay inside; a return inside it still leaves
            if any(isinstance(n, ast.Return) for n in ast.walk(s)) and not isinstance(s, (ast.FunctionDef, ast.AsyncFunctionDef, ast.ClassDef)):
                return True
            continue
        for field in ("body", "orelse", "finalbody", "handlers"):
            sub = getattr(s, field, None)
            if sub and _jumps_out([x for x in sub if isinstance(x, ast.stmt)] +
                                  [y for x in sub if isinstance(x, ast.ExceptHandler) for y in x.body]):
                return True
    return False


def exit_interceptors():
    """Table of every try/except, try/finally-with-return and contextlib.suppress of the nessai package:
    [(file, lineno, enclosing function, catch kind, re-raises?, first/last line of the guarded block)].
    The whole package is taken as "the signal path" (a superset of what an iteration can call)."""
    import os
    from pyast import REPO
    rows = []
    root = os.path.join(REPO, "nessai")
    for dp, _, fs in sorted(os.walk(root)):
        for f in sorted(fs):
            if not f.endswith(".py"):
                continue
            rel = os.path.relpath(os.path.join(dp, f), REPO)
            try:
                mod, _ = parse(rel)
            except SyntaxError as e:
                raise Declined(f"{rel}: {e}")
            parents = {}
            for node in ast.walk(mod):
                for ch in ast.iter_child_nodes(node):
                    parents[ch] = node

            def owner(n):
                names = []
                while n in parents:
                    n = parents[n]
                    if isinstance(n, (ast.FunctionDef, ast.AsyncFunctionDef, ast.ClassDef)):
                        names.append(n.name)
                return ".".join(reversed(names)) or "<module>"

            for node in ast.walk(mod):
                if isinstance(node, (ast.Try, getattr(ast, "TryStar", ast.Try))):
                    lo, hi = node.body[0].lineno, node.body[-1].end_lineno
                    for h in node.handlers:
                        rows.append((rel, h.lineno, owner(node), _catch_kind(h.type), _reraises(h.body), lo, hi))
                    if node.finalbody and _jumps_out(node.finalbody):
                        rows.append((rel, node.finalbody[0].lineno, owner(node), "CFinallyReturn", False, lo, hi))
                elif isinstance(node, (ast.With, ast.AsyncWith)):
                    for it in node.items:
                        c = it.context_expr
                        if isinstance(c, ast.Call) and (dotted(c.func) or "").split(".")[-1] == "suppress":
                            kind = _catch_kind(ast.Tuple(elts=list(c.args), ctx=ast.Load())) if c.args else "COther"
                            rows.append((rel, node.lineno, owner(node), kind, False,
                                         node.body[0].lineno, node.body[-1].end_lineno))
    return rows


def interceptors_coq(rows):
    return "[" + "; ".join(f"mkx {r[3]} {'true' if r[4] else 'false'}" for r in rows) + "]"


def intercepts(row):
    return row[3] == "CFinallyReturn" or (row[3] in ("CBare", "CBase", "CSysExit") and not row[4])


def registrations():
    """Every `signal.signal(<sig>, self.safe_exit)` of FlowSampler.__init__ as (signal, conditional?):
    conditional = the call sits under an `if` other than `if signal_handling:` (or in a loop/try-else
    whose execution depends on one).  A loop over a literal tuple of signals is expanded.
    -> (Coq list of reg, [(signal name, conditional, line)])"""
    mod, _ = parse("nessai/flowsampler.py")
    init = find_function(mod, "__init__", cls="FlowSampler")
    names = {"signal.SIGTERM": "STERM", "signal.SIGINT": "SINT", "signal.SIGALRM": "SALRM"}
    out = []

    def walk(stmts, cond, loopvars):
        for s in stmts:
            if isinstance(s, ast.If):
                plain = _norm(s.test) in ("signal_handling", "signal_handlingisTrue", "self.signal_handling")
                walk(s.body, cond or not plain, loopvars)
                walk(s.orelse, True, loopvars)
            elif isinstance(s, ast.Try):
                walk(s.body, cond, loopvars)
                for h in s.handlers:
                    walk(h.body, True, loopvars)
                walk(s.orelse, cond, loopvars)
                walk(s.finalbody, cond, loopvars)
            elif isinstance(s, ast.For):
                lv = dict(loopvars)
                if isinstance(s.target, ast.Name) and isinstance(s.iter, (ast.Tuple, ast.List)):
                    lv[s.target.id] = [_norm(e) for e in s.iter.elts]
                else:
                    lv = {k: v for k, v in lv.items()}
                    cond = True if not isinstance(s.iter, (ast.Tuple, ast.List)) else cond
                walk(s.body, cond, lv)
            elif isinstance(s, (ast.With, ast.While)):
                walk(s.body, True if isinstance(s, ast.While) else cond, loopvars)
            else:
                for n in ast.walk(s):
                    if isinstance(n, ast.Call) and dotted(n.func) == "signal.signal" and len(n.args) == 2:
                        if _norm(n.args[1]) != "self.safe_exit":
                            continue
                        a = _norm(n.args[0])
                        sigs = loopvars.get(a, [a])
                        for sg in sigs:
                            if sg not in names:
                                raise Declined(f"signal.signal called with `{sg}`")
                            out.append((names[sg], cond, n.lineno))

    walk(strip_doc(init.body), False, {})
    coq = "[" + "; ".join(f"mkreg {sg} {'true' if c else 'false'}" for sg, c, _ in out) + "]"
    return coq, out


def stmt_index(relpath, cls, func):
    """{lineno: normalised text of the innermost statement that covers the line} for a function:
    `ast.unparse` of the statement, first line (header for compound statements)."""
    mod, _ = parse(relpath)
    fn = find_function(mod, func, cls=cls)
    out = {}
    nodes = sorted((n for n in ast.walk(fn) if isinstance(n, ast.stmt) and n is not fn), key=lambda n: n.lineno)
    for n in nodes:  # later (inner) statements overwrite outer ones
        hi = n.end_lineno
        if isinstance(n, (ast.If, ast.While, ast.For, ast.With, ast.Try)):
            hi = n.body[0].lineno - 1 if n.body else n.end_lineno
            hi = max(hi, n.lineno)
        for ln in range(n.lineno, hi + 1):
            out[ln] = unparse(n).split("\n")[0]
    return out


SEED_CALLS = {"configure_random_seed": "SeedConfigure", "np.random.seed": "SeedNumpy", "numpy.random.seed": "SeedNumpy",
              "torch.manual_seed": "SeedTorch", "torch.seed": "SeedTorch", "torch.cuda.manual_seed": "SeedTorch",
              "torch.cuda.manual_seed_all": "SeedTorch", "random.seed": "SeedOther", "seed_everything": "SeedOther"}
RESUME_ROOTS = ("resume", "resume_from_pickled_sampler", "_resume_from_file", "_resume_from_data", "__setstate__",
                "check_resume")


def resume_seeding(depth=2):
    """Every call that seeds a global random generator reachable from the resume path: the functions
    named like RESUME_ROOTS anywhere in the package plus, to `depth` levels, the methods they call
    on self / cls / the resumed object (resolved by name within the package).
    -> (Coq list of seedcall, [(file, function, line, call text)])"""
    import os
    from pyast import REPO
    funcs = {}   # name -> [(rel, qualified name, node)]
    for dp, _, fs in sorted(os.walk(os.path.join(REPO, "nessai"))):
        for f in sorted(fs):
            if not f.endswith(".py"):
                continue
            rel = os.path.relpath(os.path.join(dp, f), REPO)
            mod, _ = parse(rel)
            for cls in [n for n in mod.body if isinstance(n, ast.ClassDef)]:
                for n in cls.body:
                    if isinstance(n, (ast.FunctionDef, ast.AsyncFunctionDef)):
                        funcs.setdefault(n.name, []).append((rel, f"{cls.name}.{n.name}", n))
            for n in mod.body:
                if isinstance(n, (ast.FunctionDef, ast.AsyncFunctionDef)):
                    funcs.setdefault(n.name, []).append((rel, n.name, n))
    todo = [(name, 0) for name in RESUME_ROOTS]
    seen, found = set(), []
    skip = {"__init__", "info", "debug", "warning", "error", "get", "append", "update", "join", "exists", "load", "open"}
    while todo:
        name, d = todo.pop()
        if name in seen or name not in funcs:
            continue
        seen.add(name)
        for rel, qn, node in funcs[name]:
            for c in ast.walk(node):
                if not isinstance(c, ast.Call):
                    continue
                dn = dotted(c.func) or ""
                last = dn.split(".")[-1]
                kind = SEED_CALLS.get(dn) or (SEED_CALLS.get(last) if last in ("configure_random_seed", "seed_everything") else None)
                if kind:
                    found.append((rel, qn, c.lineno, unparse(c), kind))
                elif d < depth and isinstance(c.func, ast.Attribute) and last not in skip and last in funcs \
                        and (dn.split(".")[0] in ("self", "cls", "sampler", "obj", "ns", "SamplerClass", "super()") or dn.startswith("super()")):
                    todo.append((last, d + 1))
    found = sorted(set(found))
    return "[" + "; ".join(f[4] for f in found) + "]", [f[:4] for f in found]


# ---------------------------------------------------------------------------------------------
# what the proposal's draw / populate path reads, what __getstate__ drops, what resume restores
# ---------------------------------------------------------------------------------------------
def _method_table():
    """name -> FunctionDef for FlowProposal, falling back to its bases RejectionProposal, AnalyticProposal, Proposal"""
    table = {}
    for rel, cls in (("nessai/proposal/base.py", "Proposal"), ("nessai/proposal/analytic.py", "AnalyticProposal"),
                     ("nessai/proposal/rejection.py", "RejectionProposal"), ("nessai/proposal/flowproposal.py", "FlowProposal")):
        try:
            mod, _ = parse(rel)
            c = find_class(mod, cls)
        except (Declined, FileNotFoundError):
            continue
        for n in c.body:
            if isinstance(n, (ast.FunctionDef, ast.AsyncFunctionDef)):
                table.setdefault(n.name, []).insert(0, n)   # most derived first
    if "populate" not in table or "__getstate__" not in table:
        raise Declined("FlowProposal.populate / __getstate__ not found")
    return table


def _closure(table, roots, depth=3):
    seen, todo, nodes = set(), [(r, 0) for r in roots], []
    while todo:
        name, d = todo.pop()
        if name in seen or name not in table:
            continue
        seen.add(name)
        for fn in table[name]:
            nodes.append(fn)
            if d >= depth:
                continue
            for c in ast.walk(fn):
                if isinstance(c, ast.Call) and isinstance(c.func, ast.Attribute):
                    base = dotted(c.func.value) or unparse(c.func.value)
                    if base in ("self", "super()"):
                        todo.append((c.func.attr, d + 1))
    return nodes


def _attrs(nodes, ctx):
    out = set()
    for fn in nodes:
        for n in ast.walk(fn):
            if isinstance(n, ast.Attribute) and isinstance(n.value, ast.Name) and n.value.id == "self" \
                    and isinstance(n.ctx, ctx):
                out.add(n.attr)
            if ctx is ast.Store and isinstance(n, ast.AugAssign) and isinstance(n.target, ast.Attribute) \
                    and isinstance(n.target.value, ast.Name) and n.target.value.id == "self":
                out.add(n.target.attr)
    return out


def proposal_fields():
    """-> dict(dropped, read, restored, missing, flags, coq=(dropped, read, restored) as Coq string lists)
    dropped  = attributes FlowProposal.__getstate__ (and its bases) set to None or delete from the state;
    read     = attributes the draw / populate path reads (three levels of self-method calls);
    restored = attributes assigned on the resume path (resume -> initialise ...) or re-derived inside the draw /
               populate path itself (names compared without leading underscores: a property setter restores `_x`);
    missing  = dropped, read and not restored;
    flags    = boolean constructor options (default False) that guard reads of attributes only train() sets -
               the configurations under which a signal inside populate must be injected."""
    table = _method_table()
    dropped = set()
    for fn in table["__getstate__"]:
        for n in ast.walk(fn):
            tgt = None
            if isinstance(n, ast.Assign) and len(n.targets) == 1 and isinstance(n.value, ast.Constant) and n.value.value is None:
                tgt = n.targets[0]
            elif isinstance(n, ast.Delete) and len(n.targets) == 1:
                tgt = n.targets[0]
            if isinstance(tgt, ast.Subscript) and dotted(tgt.value) in ("state", "d") \
                    and isinstance(tgt.slice, ast.Constant) and isinstance(tgt.slice.value, str):
                dropped.add(tgt.slice.value)
    path = _closure(table, ["draw", "populate"])
    read = _attrs(path, ast.Load)
    rederived = _attrs(path, ast.Store)
    restored = _attrs(_closure(table, ["resume", "__setstate__"]), ast.Store) | rederived
    norm = lambda a: a.lstrip("_")  # noqa
    restored_n = {norm(a) for a in restored}
    missing = sorted(a for a in dropped if a in read and norm(a) not in restored_n)
    # options that guard reads of what only train() sets
    train_set = _attrs(table["train"][:1], ast.Store) - _attrs(_closure(table, ["populate", "draw", "resume"]), ast.Store) \
        if "train" in table else set()
    init = [f for f in table.get("__init__", []) if True][0]
    defaults = dict(zip([a.arg for a in init.args.args][len(init.args.args) - len(init.args.defaults):], init.args.defaults))
    bool_false = {k for k, v in defaults.items() if isinstance(v, ast.Constant) and v.value is False}
    flags = set()
    for fn in path:
        parents = {}
        for node in ast.walk(fn):
            for ch in ast.iter_child_nodes(node):
                parents[ch] = node
        for n in ast.walk(fn):
            if isinstance(n, ast.Attribute) and isinstance(n.value, ast.Name) and n.value.id == "self" \
                    and isinstance(n.ctx, ast.Load) and n.attr in train_set:
                p = n
                while p in parents:
                    child, p = p, parents[p]
                    # only an `if self.<flag>:` whose BODY holds the read (not its else branch) enables it
                    if isinstance(p, ast.If) and any(child is b or child in ast.walk(b) for b in p.body):
                        for t in ast.walk(p.test):
                            if isinstance(t, ast.Attribute) and dotted(t.value) == "self" and t.attr in bool_false:
                                flags.add(t.attr)
    q = lambda xs: "[" + "; ".join('"' + x + '"%string' for x in sorted(xs)) + "]"  # noqa
    return {"dropped": sorted(dropped), "read": sorted(read), "restored": sorted(restored), "missing": missing,
            "flags": sorted(flags), "train_set": sorted(train_set),
            "coq": (q(dropped), q(read & (dropped | train_set)), q({a for a in dropped if norm(a) in restored_n}))}
