"""C05 translator: which sample store each reported quantity of the importance sampler is read from.
Resolves the property chains of ImportanceNestedSampler (final_*, _ordered_samples, samples, state ...)
and the assignments of get_result_dictionary / FlowSampler.run_importance_nested_sampler -> Coq `ins_fields`.
Also extracts the result-key -> attribute map of the standard sampler (informational + checked textually)."""
import ast

from pyast import Declined, dotted, find_class, find_function, is_logging, parse, strip_doc, unparse

CONDS = {
    "self._final_samples is not None": "CHasRedraw",
    "self.iid_samples is not None": "CHasIid",
    "self.iid_samples": "CHasIid",
    "self.draw_iid_live": "CDrawIid",
}
STORES = {"self._final_samples": "SRedraw", "self.iid_samples": "SIid", "self.training_samples": "STrain"}


class Resolver:
    def __init__(self, cls):
        self.props = {}
        for node in cls.body:
            if isinstance(node, ast.FunctionDef) and any(unparse(d) == "property" for d in node.decorator_list):
                self.props[node.name] = node
        self.depth = 0

    def expr(self, e):
        """-> (branches, else_src) for an expression read on `self`"""
        self.depth += 1
        if self.depth > 40:
            raise Declined("property chain too deep")
        try:
            if isinstance(e, ast.Constant) and e.value is None:
                return [], "SNone"
            # self.model.from_unit_hypercube(X), np.array(X)
            if isinstance(e, ast.Call) and dotted(e.func) in ("self.model.from_unit_hypercube", "np.array") and len(e.args) == 1:
                return self.expr(e.args[0])
            # method call on a chain: self.state.compute_uncertainty()
            if isinstance(e, ast.Call) and isinstance(e.func, ast.Attribute) and not e.args:
                return self.expr(e.func.value)
            d = dotted(e)
            if d is None:
                raise Declined(f"expression without a rule: {unparse(e)}")
            parts = d.split(".")
            if parts[0] != "self":
                raise Declined(f"not an attribute of self: {d}")
            head = "self." + parts[1]
            if head in STORES:
                return [], STORES[head]
            if parts[1] in self.props:
                return self.prop(parts[1])
            raise Declined(f"attribute {head} is neither a store nor a property")
        finally:
            self.depth -= 1

    def prop(self, name):
        body = [s for s in strip_doc(self.props[name].body) if not is_logging(s)]
        return self.block(body)

    def block(self, body):
        if len(body) == 1 and isinstance(body[0], ast.Return):
            return self.expr(body[0].value)
        if len(body) >= 1 and isinstance(body[0], ast.If):
            s = body[0]
            rest = list(s.orelse) if s.orelse else body[1:]
            t = unparse(s.test)
            if len(s.body) != 1 or not isinstance(s.body[0], ast.Return):
                raise Declined(f"branch without a plain return under `{t}`")
            if t in CONDS:
                tb, te = self.expr(s.body[0].value)
                if tb:
                    raise Declined(f"nested chain in the then-branch of `{t}`")
                eb, ee = self.block(rest)
                return [(CONDS[t], te)] + eb, ee
            # `if self.final_state: return self.final_state.X  else: return None`
            d = dotted(s.test)
            if d and d.startswith("self.") and d.split(".")[1] in self.props and len(d.split(".")) == 2:
                pb, pe = self.prop(d.split(".")[1])
                tb, te = self.expr(s.body[0].value)
                eb, ee = self.block(rest)
                if (tb, te) == (pb, pe) and (eb, ee) == ([], "SNone"):
                    return pb, pe      # None exactly when the tested chain is None
            raise Declined(f"condition without a rule: {t}")
        raise Declined("property body without a rule: " + "; ".join(unparse(b)[:60] for b in body))


def coq_chain(c):
    br, e = c
    return "{| c_branches := [" + "; ".join(f"({a}, {b})" for a, b in br) + f"]; c_else := {e} |}}"


def ins_fields():
    mod, _ = parse("nessai/samplers/importancesampler.py")
    cls = find_class(mod, "ImportanceNestedSampler")
    R = Resolver(cls)
    # result dictionary
    grd = find_function(mod, "get_result_dictionary", cls="ImportanceNestedSampler")
    want = ["samples", "log_posterior_weights", "log_evidence", "log_evidence_error"]
    found = {}
    for node in ast.walk(grd):
        if isinstance(node, ast.Assign) and len(node.targets) == 1 and isinstance(node.targets[0], ast.Subscript):
            t = node.targets[0]
            if unparse(t.value) == "d" and isinstance(t.slice, ast.Constant) and t.slice.value in want:
                found[t.slice.value] = node.value
    if sorted(found) != sorted(want):
        raise Declined(f"result dictionary keys found: {sorted(found)}")
    f_dict = [R.expr(found[k]) for k in want]
    # FlowSampler
    fmod, _ = parse("nessai/flowsampler.py")
    run = find_function(fmod, "run_importance_nested_sampler", cls="FlowSampler")
    plain, redraw = {}, {}

    def scan(stmts, under_redraw):
        for s in stmts:
            if isinstance(s, ast.If):
                if unparse(s.test) == "redraw_samples":
                    scan(s.body, True)
                    scan(s.orelse, under_redraw)
                else:
                    scan(s.body, under_redraw)
                    scan(s.orelse, under_redraw)
            elif isinstance(s, ast.Assign) and len(s.targets) == 1:
                t = unparse(s.targets[0])
                if t in ("self._nested_samples", "self.logZ", "self.logZ_error"):
                    v = unparse(s.value)
                    if not v.startswith("self.ns."):
                        raise Declined(f"{t} assigned from {v}")
                    (redraw if under_redraw else plain)[t] = ast.parse("self." + v[len("self.ns."):], mode="eval").body
    scan(strip_doc(run.body), False)
    if sorted(plain) != ["self._nested_samples", "self.logZ", "self.logZ_error"] or sorted(redraw) != ["self.logZ", "self.logZ_error"]:
        raise Declined(f"FlowSampler attributes found: {sorted(plain)} / redraw {sorted(redraw)}")
    f_sampler = [R.expr(plain[k]) for k in ("self._nested_samples", "self.logZ", "self.logZ_error")]
    f_redraw = [R.expr(redraw[k]) for k in ("self.logZ", "self.logZ_error")]
    # __init__: iid_samples is created exactly when draw_iid_live
    init = find_function(mod, "__init__", cls="ImportanceNestedSampler")
    iff = False
    for node in ast.walk(init):
        if isinstance(node, ast.If) and unparse(node.test) == "self.draw_iid_live":
            b = [unparse(x) for x in node.body]
            o = [unparse(x) for x in node.orelse]
            if any(x.startswith("self.iid_samples = OrderedSamples(") for x in b) and o == ["self.iid_samples = None"]:
                iff = True
    txt = ("{| f_dict := [" + "; ".join(map(coq_chain, f_dict)) + "];\n   f_sampler := [" + "; ".join(map(coq_chain, f_sampler))
           + "];\n   f_sampler_redraw := [" + "; ".join(map(coq_chain, f_redraw)) + f"];\n   f_iid_iff_draw := {'true' if iff else 'false'} |}}")
    return txt


def std_fields():
    """Result keys of the standard sampler and the FlowSampler attributes must read the same state object."""
    mod, _ = parse("nessai/samplers/nestedsampler.py")
    grd = find_function(mod, "get_result_dictionary", cls="NestedSampler")
    got = {}
    for node in ast.walk(grd):
        if isinstance(node, ast.Assign) and isinstance(node.targets[0], ast.Subscript) and unparse(node.targets[0].value) == "d":
            got[node.targets[0].slice.value] = unparse(node.value)
    expect = {
        "nested_samples": "np.array(self.nested_samples)",
        "log_posterior_weights": "self.state.log_posterior_weights",
        "logL_birth": "self.birth_log_likelihoods",
        "log_evidence": "self.log_evidence",
        "log_evidence_error": "self.state.log_evidence_error",
    }
    for k, v in expect.items():
        if got.get(k) != v:
            raise Declined(f"standard result key {k}: `{got.get(k)}` is not the modelled `{v}`")
    fmod, _ = parse("nessai/flowsampler.py")
    run = find_function(fmod, "run_standard_sampler", cls="FlowSampler")
    body = [unparse(s) for s in ast.walk(run) if isinstance(s, ast.Assign)]
    for need in ("self.logZ, self._nested_samples = self.ns.nested_sampling_loop()",
                 "self.logZ_error = self.ns.state.log_evidence_error"):
        if need not in body:
            raise Declined(f"run_standard_sampler: `{need}` not found")
    loop = find_function(mod, "nested_sampling_loop", cls="NestedSampler")
    rets = {unparse(s.value) for s in ast.walk(loop) if isinstance(s, ast.Return) and s.value is not None}
    ok_rets = {"(self.log_evidence, np.array(self.nested_samples))", "(self.state.logZ, np.array(self.nested_samples))"}
    if not rets or not rets <= ok_rets:
        raise Declined(f"nested_sampling_loop returns {rets}")
    le = None
    cls = find_class(mod, "NestedSampler")
    for node in cls.body:
        if isinstance(node, ast.FunctionDef) and node.name == "log_evidence":
            le = [unparse(s) for s in strip_doc(node.body)]
    if le != ["return self.state.logZ"]:
        raise Declined(f"NestedSampler.log_evidence is {le}")
    return got


if __name__ == "__main__":
    print(ins_fields())
    print({k: v for k, v in std_fields().items() if k in ("log_evidence", "log_evidence_error", "nested_samples")})
