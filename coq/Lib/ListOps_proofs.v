From Coq Require Import List ZArith Bool Arith Lia Sorting.Sorted Sorting.Permutation.
Import ListNotations.
From NessaiV Require Import Lib.ListOps.

Lemma in_firstn' {A} n (l : list A) x : In x (firstn n l) -> In x l.
Proof.
  revert l; induction n as [|n IH]; intros l H; cbn in H; [contradiction|].
  destruct l as [|y r]; [contradiction|]. destruct H as [->|H]; [now left|right; now apply IH].
Qed.
Lemma in_skipn' {A} n (l : list A) x : In x (skipn n l) -> In x l.
Proof.
  revert l; induction n as [|n IH]; intros l H; cbn in H; [exact H|].
  destruct l as [|y r]; [contradiction|]. right. now apply IH.
Qed.

(* ------------------------------------------------------------------------- *)
(* sortedness by a key                                                        *)
Section Keyed.
Context {A : Type}.
Variable key : A -> Z.

Definition kle (a b : A) : Prop := (key a <= key b)%Z.
Definition ksorted (l : list A) : Prop := StronglySorted kle l.

Lemma ksorted_app (l1 l2 : list A) :
  ksorted l1 -> ksorted l2 -> (forall a b, In a l1 -> In b l2 -> kle a b) -> ksorted (l1 ++ l2).
Proof.
  intros H1 H2 H. induction H1 as [|x l1 Hs IH Hx]; cbn; [exact H2|].
  constructor.
  - apply IH. intros a b Ha Hb. apply H; [now right|exact Hb].
  - apply Forall_app. split; [exact Hx|].
    apply Forall_forall. intros b Hb. apply H; [now left|exact Hb].
Qed.

Lemma ksorted_cons_inv x l : ksorted (x :: l) -> ksorted l /\ Forall (kle x) l.
Proof. intros H. inversion H; subst. now split. Qed.

Lemma ksorted_skipn n l : ksorted l -> ksorted (skipn n l).
Proof.
  revert l; induction n as [|n IH]; intros l H; cbn; [exact H|].
  destruct l as [|x r]; [exact H|]. apply IH. now apply ksorted_cons_inv in H.
Qed.

Lemma ksorted_firstn n l : ksorted l -> ksorted (firstn n l).
Proof.
  revert l; induction n as [|n IH]; intros l H; cbn; [constructor|].
  destruct l as [|x r]; [constructor|].
  apply ksorted_cons_inv in H. destruct H as [Hr Hx]. constructor; [now apply IH|].
  apply Forall_forall. intros y Hy. apply (proj1 (Forall_forall _ _) Hx). eapply in_firstn'; eauto.
Qed.

(* first_ge *)
Lemma first_ge_le_length l k : first_ge key l k <= length l.
Proof. induction l as [|x r IH]; cbn; [lia|]. destruct (k <=? key x)%Z; cbn; lia. Qed.

Lemma first_ge_before l k x : In x (firstn (first_ge key l k) l) -> (key x < k)%Z.
Proof.
  induction l as [|y r IH]; cbn; [contradiction|].
  destruct (Z.leb_spec k (key y)) as [Hle|Hgt]; cbn; [contradiction|].
  intros [->|H]; [exact Hgt|now apply IH].
Qed.

Lemma first_ge_after l k x : ksorted l -> In x (skipn (first_ge key l k) l) -> (k <= key x)%Z.
Proof.
  induction l as [|y r IH]; cbn; [contradiction|].
  intros Hs. apply ksorted_cons_inv in Hs. destruct Hs as [Hr Hy].
  destruct (Z.leb_spec k (key y)) as [Hle|Hgt]; cbn.
  - intros [->|H]; [exact Hle|].
    pose proof (proj1 (Forall_forall _ _) Hy x H) as Hk. unfold kle in Hk. lia.
  - intros H. now apply IH.
Qed.

Lemma filter_none (p : A -> bool) (l : list A) : (forall x, In x l -> p x = false) -> filter p l = [].
Proof.
  induction l as [|z r IH]; intros H; cbn; [reflexivity|].
  rewrite (H z (or_introl eq_refl)). apply IH. intros x Hx. apply H. now right.
Qed.

Lemma first_ge_count l k : ksorted l -> first_ge key l k = count_lt key l k.
Proof.
  unfold count_lt. induction l as [|y r IH]; cbn; [reflexivity|].
  intros Hs. apply ksorted_cons_inv in Hs. destruct Hs as [Hr Hy].
  destruct (Z.leb_spec k (key y)) as [Hle|Hgt].
  - destruct (Z.ltb_spec (key y) k) as [Hlt|_]; [lia|].
    rewrite filter_none; [reflexivity|].
    intros x Hx. pose proof (proj1 (Forall_forall _ _) Hy x Hx) as Hk. unfold kle in Hk.
    apply Z.ltb_ge. lia.
  - destruct (Z.ltb_spec (key y) k) as [_|Hge]; [|lia]. cbn. f_equal. now apply IH.
Qed.

(* searching for a larger value continues where the search for a smaller one stopped *)
Lemma first_ge_skipn l k0 k : (k0 <= k)%Z ->
  first_ge key l k = first_ge key l k0 + first_ge key (skipn (first_ge key l k0) l) k.
Proof.
  intros Hk. induction l as [|y r IH]; cbn; [reflexivity|].
  destruct (Z.leb_spec k0 (key y)) as [Hle0|Hgt0]; cbn.
  - reflexivity.
  - destruct (Z.leb_spec k (key y)) as [Hle|Hgt]; [lia|]. now rewrite IH.
Qed.

Lemma first_ge_mono l k0 k : (k0 <= k)%Z -> first_ge key l k0 <= first_ge key l k.
Proof. intros H. rewrite (first_ge_skipn l k0 k H). lia. Qed.
End Keyed.

(* ------------------------------------------------------------------------- *)
(* ins / np_insert                                                            *)
Section Ins.
Context {A : Type}.

Lemma ins_perm (iv : list (nat * A)) : forall pos l,
  Permutation (ins iv pos l) (l ++ map snd iv).
Proof.
  induction iv as [|[i v] iv IH]; intros pos l; cbn [ins map snd].
  - rewrite app_nil_r. apply Permutation_refl.
  - set (a := i - pos).
    assert (E : l ++ v :: map snd iv = firstn a l ++ (skipn a l ++ v :: map snd iv)).
    { rewrite app_assoc, firstn_skipn. reflexivity. }
    rewrite E. apply Permutation_app_head.
    eapply Permutation_trans; [apply perm_skip, IH|]. apply Permutation_middle.
Qed.

Lemma ins_length (iv : list (nat * A)) pos l : length (ins iv pos l) = length l + length iv.
Proof.
  rewrite (Permutation_length (ins_perm iv pos l)), app_length, map_length. reflexivity.
Qed.

Lemma snd_combine {B} (a : list B) (b : list A) : length a = length b -> map snd (combine a b) = b.
Proof.
  revert b; induction a as [|x a IH]; intros [|y b] H; cbn in *; try discriminate; [reflexivity|].
  f_equal. apply IH. lia.
Qed.

Lemma np_insert_perm (l : list A) idx vals : length idx = length vals ->
  Permutation (np_insert l idx vals) (l ++ vals).
Proof.
  intros H. unfold np_insert. eapply Permutation_trans; [apply ins_perm|].
  rewrite snd_combine by exact H. apply Permutation_refl.
Qed.

Lemma np_insert_length (l : list A) idx vals : length idx = length vals ->
  length (np_insert l idx vals) = length l + length vals.
Proof. intros H. rewrite (Permutation_length (np_insert_perm l idx vals H)). apply app_length. Qed.
End Ins.

(* ------------------------------------------------------------------------- *)
(* inserting sorted values at their searchsorted positions keeps a list sorted *)
Section Merge.
Context {A : Type}.
Variable key : A -> Z.

Definition ss_idx (pos : nat) (l vals : list A) : list nat :=
  map (fun v => pos + first_ge key l (key v)) vals.

Lemma ss_idx_shift pos l v vs :
  Forall (kle key v) vs ->
  ss_idx pos l vs =
  ss_idx (pos + first_ge key l (key v)) (skipn (first_ge key l (key v)) l) vs.
Proof.
  intros Hv. unfold ss_idx. apply map_ext_in. intros w Hw.
  pose proof (proj1 (Forall_forall _ _) Hv w Hw) as Hk. unfold kle in Hk.
  rewrite (first_ge_skipn key l (key v) (key w) Hk). lia.
Qed.

Lemma ins_merge_sorted (vals : list A) : forall pos l,
  ksorted key l -> ksorted key vals ->
  ksorted key (ins (combine (ss_idx pos l vals) vals) pos l).
Proof.
  induction vals as [|v vs IH]; intros pos l Hl Hv; cbn [ss_idx map combine ins]; [exact Hl|].
  apply ksorted_cons_inv in Hv. destruct Hv as [Hvs Hvv].
  set (f := first_ge key l (key v)).
  replace (pos + f - pos) with f by lia.
  change (map (fun v0 => pos + first_ge key l (key v0)) vs) with (ss_idx pos l vs).
  rewrite (ss_idx_shift pos l v vs Hvv). fold f.
  assert (Hrest : ksorted key (ins (combine (ss_idx (pos + f) (skipn f l) vs) vs) (pos + f) (skipn f l))).
  { apply IH; [now apply ksorted_skipn|exact Hvs]. }
  assert (Hge : forall b, In b (ins (combine (ss_idx (pos + f) (skipn f l) vs) vs) (pos + f) (skipn f l)) ->
                          (key v <= key b)%Z).
  { intros b Hb. apply (Permutation_in _ (ins_perm _ _ _)) in Hb.
    apply in_app_or in Hb. destruct Hb as [Hb|Hb].
    - now apply (first_ge_after key l (key v) b Hl).
    - rewrite snd_combine in Hb by (unfold ss_idx; now rewrite map_length).
      apply (proj1 (Forall_forall _ _) Hvv b Hb). }
  apply ksorted_app.
  - now apply ksorted_firstn.
  - constructor; [exact Hrest|]. apply Forall_forall. exact Hge.
  - intros a b Ha [<-|Hb].
    + unfold kle. pose proof (first_ge_before key l (key v) a Ha). lia.
    + unfold kle. pose proof (first_ge_before key l (key v) a Ha). specialize (Hge b Hb). lia.
Qed.

Lemma np_insert_sorted (l vals : list A) :
  ksorted key l -> ksorted key vals ->
  ksorted key (np_insert l (map (fun v => first_ge key l (key v)) vals) vals).
Proof.
  intros Hl Hv. unfold np_insert.
  change (map (fun v => first_ge key l (key v)) vals) with (ss_idx 0 l vals).
  now apply ins_merge_sorted.
Qed.

Lemma ss_idx_nondecr pos l vals : ksorted key vals ->
  StronglySorted le (ss_idx pos l vals).
Proof.
  induction 1 as [|v vs Hs IH Hv]; cbn; constructor; [exact IH|].
  apply Forall_forall. intros i Hi. unfold ss_idx in Hi. apply in_map_iff in Hi.
  destruct Hi as (w & <- & Hw). pose proof (proj1 (Forall_forall _ _) Hv w Hw) as Hk.
  pose proof (first_ge_mono key l (key v) (key w) Hk). lia.
Qed.

Lemma ss_idx_bound pos l vals : Forall (fun i => i <= pos + length l) (ss_idx pos l vals).
Proof.
  apply Forall_forall. intros i Hi. unfold ss_idx in Hi. apply in_map_iff in Hi.
  destruct Hi as (w & <- & _). pose proof (first_ge_le_length key l (key w)). lia.
Qed.
End Merge.

(* the same index vector applied to two parallel arrays keeps them parallel *)
Lemma combine_app' {A B} (a1 a2 : list A) (b1 b2 : list B) : length a1 = length b1 ->
  combine (a1 ++ a2) (b1 ++ b2) = combine a1 b1 ++ combine a2 b2.
Proof.
  revert b1; induction a1 as [|x a1 IH]; intros [|y b1] H; cbn in *; try discriminate; [reflexivity|].
  f_equal. apply IH. lia.
Qed.
Lemma combine_firstn' {A B} n (a : list A) (b : list B) :
  combine (firstn n a) (firstn n b) = firstn n (combine a b).
Proof.
  revert a b; induction n as [|n IH]; intros [|x a] [|y b]; cbn; try reflexivity. f_equal. apply IH.
Qed.
Lemma combine_skipn' {A B} n (a : list A) (b : list B) :
  combine (skipn n a) (skipn n b) = skipn n (combine a b).
Proof.
  revert a b; induction n as [|n IH]; intros [|x a] [|y b]; cbn; try reflexivity.
  - now destruct (skipn n a).
  - apply IH.
Qed.

Lemma ins_combine {A B} (idx : list nat) : forall (va : list A) (vb : list B) pos la lb,
  length va = length idx -> length vb = length idx -> length la = length lb ->
  combine (ins (combine idx va) pos la) (ins (combine idx vb) pos lb)
  = ins (combine idx (combine va vb)) pos (combine la lb).
Proof.
  induction idx as [|i idx IH]; intros va vb pos la lb Ha Hb Hl.
  - reflexivity.
  - destruct va as [|a va]; [discriminate|]. destruct vb as [|b vb]; [discriminate|].
    cbn [combine ins].
    rewrite combine_app' by (rewrite !firstn_length; lia).
    rewrite combine_firstn'. cbn [combine]. f_equal. f_equal.
    rewrite <- combine_skipn'. apply IH; cbn in *; try lia.
    rewrite !skipn_length. lia.
Qed.

Lemma np_insert_combine {A B} (la : list A) (lb : list B) idx va vb :
  length va = length idx -> length vb = length idx -> length la = length lb ->
  combine (np_insert la idx va) (np_insert lb idx vb) = np_insert (combine la lb) idx (combine va vb).
Proof. intros. unfold np_insert. now apply ins_combine. Qed.

(* ------------------------------------------------------------------------- *)
(* index vectors                                                              *)
Definition sincr (l : list nat) : Prop := StronglySorted lt l.

Lemma add_arange_length k idx : length (add_arange k idx) = length idx.
Proof. revert k; induction idx as [|i r IH]; intros k; cbn; [reflexivity|now rewrite IH]. Qed.

Lemma add_arange_in k idx x : In x (add_arange k idx) ->
  exists i j, In i idx /\ x = i + j /\ k <= j < k + length idx.
Proof.
  revert k; induction idx as [|i r IH]; intros k H; cbn in *; [contradiction|].
  destruct H as [<-|H].
  - exists i, k. repeat split; [now left|lia|lia].
  - destruct (IH _ H) as (i' & j & Hi & -> & Hj). exists i', j. repeat split; [now right|lia|lia].
Qed.

Lemma add_arange_sincr k idx : StronglySorted le idx -> sincr (add_arange k idx).
Proof.
  intros H; revert k; induction H as [|i r Hs IH Hi]; intros k; cbn; constructor; [apply IH|].
  apply Forall_forall. intros x Hx. destruct (add_arange_in _ _ _ Hx) as (i' & j & Hi' & -> & Hj).
  pose proof (proj1 (Forall_forall _ _) Hi i' Hi'). lia.
Qed.

Lemma add_arange_bound k idx b : Forall (fun i => i <= b) idx ->
  Forall (fun x => x < b + k + length idx) (add_arange k idx).
Proof.
  intros H. apply Forall_forall. intros x Hx.
  destruct (add_arange_in _ _ _ Hx) as (i & j & Hi & -> & Hj).
  pose proof (proj1 (Forall_forall _ _) H i Hi). cbn in *. lia.
Qed.

Lemma sincr_seq a n : sincr (seq a n).
Proof.
  revert a; induction n as [|n IH]; intros a; cbn; constructor; [apply IH|].
  apply Forall_forall. intros x Hx. apply in_seq in Hx. lia.
Qed.

Lemma sincr_filter p l : sincr l -> sincr (filter p l).
Proof.
  induction 1 as [|x r Hs IH Hx]; cbn; [constructor|].
  destruct (p x); [|exact IH]. constructor; [exact IH|].
  apply Forall_forall. intros y Hy. apply filter_In in Hy.
  apply (proj1 (Forall_forall _ _) Hx y (proj1 Hy)).
Qed.

Lemma sincr_NoDup l : sincr l -> NoDup l.
Proof.
  induction 1 as [|x r Hs IH Hx]; constructor; [|exact IH].
  intros Hin. pose proof (proj1 (Forall_forall _ _) Hx x Hin). lia.
Qed.

Lemma sincr_of_le_nodup l : StronglySorted le l -> NoDup l -> sincr l.
Proof.
  induction 1 as [|x r Hs IH Hx]; intros Hn; [constructor|].
  inversion Hn as [|? ? Hnotin Hn']; subst. constructor; [now apply IH|].
  apply Forall_forall. intros y Hy. pose proof (proj1 (Forall_forall _ _) Hx y Hy).
  assert (x <> y) by (intros ->; contradiction). lia.
Qed.

Lemma sincr_app l1 l2 : sincr l1 -> sincr l2 -> (forall a b, In a l1 -> In b l2 -> a < b) -> sincr (l1 ++ l2).
Proof.
  intros H1 H2 H. induction H1 as [|x l1 Hs IH Hx]; cbn; [exact H2|].
  constructor.
  - apply IH. intros a b Ha Hb. apply H; [now right|exact Hb].
  - apply Forall_app. split; [exact Hx|]. apply Forall_forall. intros b Hb. apply H; [now left|exact Hb].
Qed.

Lemma sincr_firstn n l : sincr l -> sincr (firstn n l).
Proof.
  revert l; induction n as [|n IH]; intros l H; cbn; [constructor|].
  destruct l as [|x r]; [constructor|]. inversion H as [|? ? Hr Hx]; subst.
  constructor; [now apply IH|]. apply Forall_forall. intros y Hy.
  apply (proj1 (Forall_forall _ _) Hx). eapply in_firstn'; eauto.
Qed.
Lemma sincr_skipn n l : sincr l -> sincr (skipn n l).
Proof.
  revert l; induction n as [|n IH]; intros l H; cbn; [exact H|].
  destruct l as [|x r]; [exact H|]. inversion H; subst. now apply IH.
Qed.

Lemma sincr_nth_mono l i j d : sincr l -> i < j < length l -> nth i l d < nth j l d.
Proof.
  intros H; revert i j; induction H as [|x r Hs IH Hx]; intros i j Hij; cbn in *; [lia|].
  destruct i as [|i], j as [|j]; try lia.
  - apply (proj1 (Forall_forall _ _) Hx). apply nth_In. lia.
  - apply IH. lia.
Qed.

Lemma mem_nat_spec x l : mem_nat x l = true <-> In x l.
Proof.
  unfold mem_nat. rewrite existsb_exists. split.
  - intros (y & Hy & E). apply Nat.eqb_eq in E. now subst.
  - intros H. exists x. split; [exact H|apply Nat.eqb_refl].
Qed.

Lemma inverse_in n idx x : In x (inverse_indices n idx) <-> x < n /\ ~ In x idx.
Proof.
  unfold inverse_indices. rewrite filter_In, in_seq, negb_true_iff.
  split.
  - intros [Hx Hm]. split; [lia|]. intros Hin. apply mem_nat_spec in Hin. congruence.
  - intros [Hx Hn]. split; [lia|]. destruct (mem_nat x idx) eqn:E; [|reflexivity].
    apply mem_nat_spec in E. contradiction.
Qed.

Lemma inverse_sincr n idx : sincr (inverse_indices n idx).
Proof. apply sincr_filter, sincr_seq. Qed.

Lemma filter_partition_perm {A} (p : A -> bool) (l : list A) :
  Permutation (filter (fun x => negb (p x)) l ++ filter p l) l.
Proof.
  induction l as [|x r IH]; cbn; [constructor|].
  destruct (p x); cbn.
  - eapply Permutation_trans; [apply Permutation_sym, Permutation_middle|]. now constructor.
  - now constructor.
Qed.

Lemma inverse_perm n idx : NoDup idx -> Forall (fun i => i < n) idx ->
  Permutation (inverse_indices n idx ++ idx) (seq 0 n).
Proof.
  intros Hnd Hb. unfold inverse_indices.
  eapply Permutation_trans; [|apply (filter_partition_perm (fun i => mem_nat i idx) (seq 0 n))].
  apply Permutation_app_head. apply NoDup_Permutation; [exact Hnd| |].
  - apply NoDup_filter, seq_NoDup.
  - intros x. rewrite filter_In, in_seq, mem_nat_spec. split.
    + intros H. split; [|exact H]. pose proof (proj1 (Forall_forall _ _) Hb x H) as Hlt. cbv beta in Hlt. lia.
    + now intros [_ H].
Qed.

Lemma take_seq {A} (d : A) (l : list A) : take d l (seq 0 (length l)) = l.
Proof.
  unfold take. induction l as [|x r IH]; cbn [length seq map]; [reflexivity|].
  cbn [nth]. f_equal. rewrite <- seq_shift, map_map. cbn [nth]. exact IH.
Qed.

Lemma take_length {A} (d : A) l idx : length (take d l idx) = length idx.
Proof. apply map_length. Qed.

Lemma take_sincr old idx : sincr old -> sincr idx -> Forall (fun i => i < length old) idx ->
  sincr (take 0 old idx).
Proof.
  intros Ho Hi; induction Hi as [|i r Hs IH Hx]; intros Hb; cbn; constructor.
  - apply IH. now inversion Hb.
  - apply Forall_forall. intros y Hy. unfold take in Hy. apply in_map_iff in Hy.
    destruct Hy as (j & <- & Hj). inversion Hb as [|? ? Hbi Hbr]; subst.
    apply sincr_nth_mono; [exact Ho|].
    pose proof (proj1 (Forall_forall _ _) Hx j Hj) as H1. pose proof (proj1 (Forall_forall _ _) Hbr j Hj) as H2.
    cbv beta in *. lia.
Qed.

Lemma kle_natkey a b : kle (fun i : nat => Z.of_nat i) a b <-> a <= b.
Proof. unfold kle. lia. Qed.

Lemma ksorted_natkey_le l : ksorted (fun i : nat => Z.of_nat i) l <-> StronglySorted le l.
Proof.
  split; induction 1 as [|x r Hs IH Hx]; constructor; try exact IH;
    apply Forall_forall; intros y Hy; apply (proj1 (Forall_forall _ _) Hx) in Hy;
    now apply kle_natkey.
Qed.

Lemma sincr_le l : sincr l -> StronglySorted le l.
Proof.
  induction 1 as [|x r Hs IH Hx]; constructor; [exact IH|].
  apply Forall_forall. intros y Hy. apply (proj1 (Forall_forall _ _) Hx) in Hy. lia.
Qed.

(* ------------------------------------------------------------------------- *)
(* insertion sort                                                             *)
Section SortLemmas.
Context {A : Type}.
Variable leb : A -> A -> bool.

Lemma insert_sorted_perm x l : Permutation (insert_sorted leb x l) (x :: l).
Proof.
  induction l as [|y r IH]; cbn; [apply Permutation_refl|].
  destruct (leb x y); [apply Permutation_refl|].
  eapply Permutation_trans; [apply perm_skip, IH|]. apply perm_swap.
Qed.

Lemma isort_perm l : Permutation (isort leb l) l.
Proof.
  induction l as [|x r IH]; cbn; [constructor|].
  eapply Permutation_trans; [apply insert_sorted_perm|]. now constructor.
Qed.

Variable key : A -> Z.
Hypothesis leb_key : forall a b, leb a b = true -> (key a <= key b)%Z.
Hypothesis leb_total : forall a b, leb a b = false -> (key b <= key a)%Z.

Lemma insert_sorted_ksorted x l : ksorted key l -> ksorted key (insert_sorted leb x l).
Proof.
  induction 1 as [|y r Hs IH Hy]; cbn; [repeat constructor|].
  destruct (leb x y) eqn:E.
  - constructor; [now constructor|]. constructor; [now apply leb_key|].
    apply Forall_forall. intros z Hz. apply (proj1 (Forall_forall _ _) Hy) in Hz.
    unfold kle in *. pose proof (leb_key _ _ E). lia.
  - constructor; [exact IH|]. apply Forall_forall. intros z Hz.
    apply (Permutation_in _ (insert_sorted_perm x r)) in Hz. destruct Hz as [<-|Hz].
    + unfold kle. now apply leb_total.
    + now apply (proj1 (Forall_forall _ _) Hy).
Qed.

Lemma isort_ksorted l : ksorted key (isort leb l).
Proof. induction l as [|x r IH]; cbn; [constructor|now apply insert_sorted_ksorted]. Qed.
End SortLemmas.

Lemma ksorted_map {A B} (f : A -> B) (kb : B -> Z) (l : list A) :
  ksorted (fun a => kb (f a)) l -> ksorted kb (map f l).
Proof.
  induction 1 as [|x r Hs IH Hx]; cbn; constructor; [exact IH|].
  apply Forall_forall. intros y Hy. apply in_map_iff in Hy. destruct Hy as (a & <- & Ha).
  now apply (proj1 (Forall_forall _ _) Hx) in Ha.
Qed.

Lemma merge_idx_spec (d idx : list nat) : sincr d -> sincr idx ->
  Permutation (np_insert d (map (fun i => first_ge (fun i : nat => Z.of_nat i) d (Z.of_nat i)) idx) idx) (d ++ idx)
  /\ StronglySorted le (np_insert d (map (fun i => first_ge (fun i : nat => Z.of_nat i) d (Z.of_nat i)) idx) idx).
Proof.
  intros Hd Hi. split.
  - apply np_insert_perm. now rewrite map_length.
  - apply ksorted_natkey_le.
    apply (np_insert_sorted (fun i : nat => Z.of_nat i) d idx); apply ksorted_natkey_le; now apply sincr_le.
Qed.

Lemma nth_firstn_lt {A} n i (l : list A) d : i < n -> nth i (firstn n l) d = nth i l d.
Proof.
  revert i l; induction n as [|n IH]; intros i l H; [lia|].
  destruct l as [|x r]; cbn; [now destruct i|]. destruct i as [|i]; [reflexivity|]. apply IH. lia.
Qed.
Lemma nth_skipn' {A} n i (l : list A) d : nth i (skipn n l) d = nth (n + i) l d.
Proof.
  revert l; induction n as [|n IH]; intros l; cbn; [reflexivity|].
  destruct l as [|x r]; [now destruct i|]. apply IH.
Qed.

(* position < first_ge  <->  key below the searched value (sorted lists) *)
Lemma first_ge_nth {A} (key : A -> Z) (l : list A) (k : Z) (i : nat) (d : A) :
  ksorted key l -> i < length l -> (i < first_ge key l k <-> (key (nth i l d) < k)%Z).
Proof.
  intros Hs Hi. pose proof (first_ge_le_length key l k) as Hf. set (f := first_ge key l k) in *. split.
  - intros Hlt. apply (first_ge_before key l k). fold f.
    rewrite <- (nth_firstn_lt f i l d Hlt). apply nth_In. rewrite firstn_length. lia.
  - intros Hk. destruct (Nat.lt_ge_cases i f) as [H|H]; [exact H|exfalso].
    assert (Hin : In (nth i l d) (skipn f l)).
    { replace i with (f + (i - f)) by lia. rewrite <- nth_skipn'. apply nth_In. rewrite skipn_length. lia. }
    pose proof (first_ge_after key l k _ Hs Hin). lia.
Qed.

Lemma nodup_app_l {A} (a b : list A) : NoDup (a ++ b) -> NoDup a.
Proof.
  induction a as [|x a IH]; cbn; intros H; [constructor|].
  inversion H as [|? ? Hx Hr]; subst. constructor; [|now apply IH].
  intros Hin. apply Hx. apply in_or_app. now left.
Qed.
Lemma nodup_app_r {A} (a b : list A) : NoDup (a ++ b) -> NoDup b.
Proof. induction a as [|x a IH]; cbn; intros H; [exact H|]. inversion H; subst. now apply IH. Qed.
