(* List models of the numpy primitives nessai's sample store is written with.
   They are *library models* (trusted base): validated against real numpy by
   harness/c04.py on every run (exhaustively over small inputs).
   Definitions only; lemmas are in Lib/ListOps_proofs.v. *)
From Coq Require Import List ZArith Bool Arith.
Import ListNotations.
Local Open Scope Z_scope.

Section Keyed.
Context {A : Type}.
Variable key : A -> Z.

(* np.searchsorted(a, v, side="left") on a sorted array: index of the first element >= v *)
Fixpoint first_ge (l : list A) (k : Z) : nat :=
  match l with
  | [] => 0%nat
  | x :: r => if k <=? key x then 0%nat else S (first_ge r k)
  end.

Definition count_lt (l : list A) (k : Z) : nat :=
  length (filter (fun x => key x <? k) l).
End Keyed.

(* np.insert(l, idx, vals) for a NON-DECREASING index vector idx (the only way nessai calls it):
   vals[j] goes in front of the element at ORIGINAL position idx[j]; equal indices keep the
   order of vals.  [pos] is the original position of the head of [l]. *)
Fixpoint ins {A} (iv : list (nat * A)) (pos : nat) (l : list A) : list A :=
  match iv with
  | [] => l
  | (i, v) :: iv' => firstn (i - pos) l ++ v :: ins iv' i (skipn (i - pos) l)
  end.
Definition np_insert {A} (l : list A) (idx : list nat) (vals : list A) : list A :=
  ins (combine idx vals) 0 l.

(* indices + arange(len(indices)) *)
Fixpoint add_arange (k : nat) (idx : list nat) : list nat :=
  match idx with
  | [] => []
  | i :: r => (i + k)%nat :: add_arange (S k) r
  end.

Definition mem_nat (x : nat) (l : list nat) : bool := existsb (Nat.eqb x) l.

(* get_inverse_indices(n, indices) = arange(n)[~isin(arange(n), indices)] *)
Definition inverse_indices (n : nat) (idx : list nat) : list nat :=
  filter (fun i => negb (mem_nat i idx)) (seq 0 n).

(* a[idx] (fancy indexing with an index list; out of range -> default, never reached under Inv) *)
Definition take {A} (d : A) (l : list A) (idx : list nat) : list A := map (fun i => nth i l d) idx.

(* insertion sort by a boolean "less or equal" *)
Section Sort.
Context {A : Type}.
Variable leb : A -> A -> bool.
Fixpoint insert_sorted (x : A) (l : list A) : list A :=
  match l with
  | [] => [x]
  | y :: r => if leb x y then x :: l else y :: insert_sorted x r
  end.
Fixpoint isort (l : list A) : list A :=
  match l with
  | [] => []
  | x :: r => insert_sorted x (isort r)
  end.
End Sort.
