(* C07_Interval - owned by the C07 builder.
   A small reified expression language with three semantics:
     evalR : reals (what the theorems of C07 talk about),
     evalX : Interval's extended reals (bridge),
     evalI : floating-point intervals (Interval library, radix 2, big-integer exponents),
   and the enclosure theorem  evalI_R : the interval value contains the real value
   whenever it is a proper interval.
   [Rnd e] marks a place where the float64 implementation rounds: it is the identity
   on R and an inflation by the standard model  fl(v) = v (1 + d) + t, |d| <= k 2^-53,
   |t| <= k 2^-1074  on intervals.  Overlaps with the shared Lib/Enclose.v written
   concurrently by another builder (which I did not wait for). *)
From Coq Require Import Reals ZArith List Bool Lia Lra.
From Interval Require Import Specific_bigint Specific_ops Float_full Xreal Interval Basic.
Import ListNotations.

Module F := SpecificFloat BigIntRadix2.
Module I := FloatIntervalFull F.

Local Open Scope R_scope.

Inductive expr : Set :=
| V (n : nat)                (* environment variable *)
| K (m e : Z)                (* dyadic constant m * 2^e *)
| EPi
| Add (a b : expr) | Sub (a b : expr) | Mul (a b : expr) | Div (a b : expr)
| Neg (a : expr) | Abs (a : expr) | Ln (a : expr) | Exp (a : expr) | Sqrt (a : expr)
| Cos (a : expr) | Sin (a : expr) | Atan (a : expr)
| Rnd (a : expr).

Fixpoint evalR (env : list R) (e : expr) : R :=
  match e with
  | V n => nth n env 0
  | K m e => IZR m * powerRZ 2 e
  | EPi => PI
  | Add a b => evalR env a + evalR env b
  | Sub a b => evalR env a - evalR env b
  | Mul a b => evalR env a * evalR env b
  | Div a b => evalR env a / evalR env b
  | Neg a => - evalR env a
  | Abs a => Rabs (evalR env a)
  | Ln a => ln (evalR env a)
  | Exp a => exp (evalR env a)
  | Sqrt a => sqrt (evalR env a)
  | Cos a => cos (evalR env a)
  | Sin a => sin (evalR env a)
  | Atan a => atan (evalR env a)
  | Rnd a => evalR env a
  end.

Fixpoint evalX (env : list ExtendedR) (e : expr) : ExtendedR :=
  match e with
  | V n => nth n env Xnan
  | K m e => Xmul (Xreal (IZR m)) (Xpower_int (Xreal 2) e)
  | EPi => Xreal PI
  | Add a b => Xadd (evalX env a) (evalX env b)
  | Sub a b => Xsub (evalX env a) (evalX env b)
  | Mul a b => Xmul (evalX env a) (evalX env b)
  | Div a b => Xdiv (evalX env a) (evalX env b)
  | Neg a => Xneg (evalX env a)
  | Abs a => Xabs (evalX env a)
  | Ln a => Xln (evalX env a)
  | Exp a => Xexp (evalX env a)
  | Sqrt a => Xsqrt (evalX env a)
  | Cos a => Xcos (evalX env a)
  | Sin a => Xsin (evalX env a)
  | Atan a => Xatan (evalX env a)
  | Rnd a => evalX env a
  end.

(* ---- inflation ------------------------------------------------------------- *)
Definition dyI (prec : F.precision) (m e : Z) : I.type :=
  I.mul prec (I.fromZ prec m) (I.power_int prec (I.fromZ prec 2) e).

(* hull of xi - d and xi + d with d = |xi| * k 2^-53 + k 2^-1074 *)
Definition inflate (prec : F.precision) (k : Z) (xi : I.type) : I.type :=
  if I.real xi then
    let d := I.add prec (I.mul prec (I.abs xi) (dyI prec k (-53))) (dyI prec k (-1074)) in
    I.meet (I.upper_extent (I.sub prec xi d)) (I.lower_extent (I.add prec xi d))
  else I.nai.

Fixpoint evalI (prec : F.precision) (k : Z) (env : list I.type) (e : expr) : I.type :=
  match e with
  | V n => nth n env I.nai
  | K m e => dyI prec m e
  | EPi => I.pi prec
  | Add a b => I.add prec (evalI prec k env a) (evalI prec k env b)
  | Sub a b => I.sub prec (evalI prec k env a) (evalI prec k env b)
  | Mul a b => I.mul prec (evalI prec k env a) (evalI prec k env b)
  | Div a b => I.div prec (evalI prec k env a) (evalI prec k env b)
  | Neg a => I.neg (evalI prec k env a)
  | Abs a => I.abs (evalI prec k env a)
  | Ln a => I.ln prec (evalI prec k env a)
  | Exp a => I.exp prec (evalI prec k env a)
  | Sqrt a => I.sqrt prec (evalI prec k env a)
  | Cos a => I.cos prec (evalI prec k env a)
  | Sin a => I.sin prec (evalI prec k env a)
  | Atan a => I.atan prec (evalI prec k env a)
  | Rnd a => inflate prec k (evalI prec k env a)
  end.

Definition encl (xi : I.type) (x : ExtendedR) : Prop := contains (I.convert xi) x.

Lemma dyI_correct : forall prec m e,
  encl (dyI prec m e) (Xmul (Xreal (IZR m)) (Xpower_int (Xreal 2) e)).
Proof.
  intros prec m e. unfold encl, dyI.
  apply I.mul_correct.
  - apply I.fromZ_correct.
  - apply (I.power_int_correct prec e (I.fromZ prec 2) (Xreal 2)). apply I.fromZ_correct.
Qed.

Lemma is_zero_2 : is_zero 2 = false.
Proof. unfold is_zero. apply Raux.Req_bool_false. lra. Qed.

Lemma Xdy_real : forall m e,
  Xmul (Xreal (IZR m)) (Xpower_int (Xreal 2) e) = Xreal (IZR m * powerRZ 2 e).
Proof.
  intros m e. destruct e as [|p|p]; cbn [Xpower_int Xbind Xpower_int' powerRZ].
  - reflexivity.
  - reflexivity.
  - rewrite is_zero_2. reflexivity.
Qed.

Lemma dy_nonneg : forall k e, (0 <= k)%Z -> 0 <= IZR k * powerRZ 2 e.
Proof.
  intros k e Hk. apply Rmult_le_pos.
  - apply IZR_le. exact Hk.
  - apply powerRZ_le. lra.
Qed.

Lemma inflate_correct : forall prec k xi x,
  (0 <= k)%Z -> encl xi x -> encl (inflate prec k xi) x.
Proof.
  intros prec k xi x Hk Hx. unfold inflate.
  rewrite I.real_correct.
  unfold encl in Hx.
  destruct (I.convert xi) as [|l u] eqn:Hc.
  - unfold encl. rewrite I.nai_correct. exact I.
  - destruct x as [|r]; [destruct Hx|].
    set (dr := Rabs r * (IZR k * powerRZ 2 (-53)) + IZR k * powerRZ 2 (-1074)).
    assert (Hd0 : 0 <= dr).
    { unfold dr. apply Rplus_le_le_0_compat.
      - apply Rmult_le_pos; [apply Rabs_pos|apply dy_nonneg; exact Hk].
      - apply dy_nonneg; exact Hk. }
    set (d := I.add prec (I.mul prec (I.abs xi) (dyI prec k (-53))) (dyI prec k (-1074))).
    assert (Hd : contains (I.convert d) (Xreal dr)).
    { unfold d, dr.
      apply (I.add_correct prec _ _ (Xreal (Rabs r * (IZR k * powerRZ 2 (-53)))) (Xreal (IZR k * powerRZ 2 (-1074)))).
      - apply (I.mul_correct prec _ _ (Xreal (Rabs r)) (Xreal (IZR k * powerRZ 2 (-53)))).
        + apply (I.abs_correct xi (Xreal r)). rewrite Hc. exact Hx.
        + rewrite <- Xdy_real. apply dyI_correct.
      - rewrite <- Xdy_real. apply dyI_correct. }
    assert (Hxi : contains (I.convert xi) (Xreal r)) by (rewrite Hc; exact Hx).
    unfold encl. apply I.meet_correct.
    + apply (I.upper_extent_correct _ r (r - dr)).
      * apply (I.sub_correct prec xi d (Xreal r) (Xreal dr) Hxi Hd).
      * lra.
    + apply (I.lower_extent_correct _ r (r + dr)).
      * apply (I.add_correct prec xi d (Xreal r) (Xreal dr) Hxi Hd).
      * lra.
Qed.

Lemma nth_encl : forall ienv xenv n,
  Forall2 encl ienv xenv -> encl (nth n ienv I.nai) (nth n xenv Xnan).
Proof.
  intros ienv xenv n H. revert n.
  induction H as [|i x li lx Hix _ IH]; intros n.
  - destruct n; unfold encl; cbn [nth]; rewrite I.nai_correct; exact I.
  - destruct n; cbn [nth]; [exact Hix|apply IH].
Qed.

(* the enclosure theorem (extended reals) *)
Theorem evalI_correct : forall prec k ienv xenv e,
  (0 <= k)%Z -> Forall2 encl ienv xenv ->
  encl (evalI prec k ienv e) (evalX xenv e).
Proof.
  intros prec k ienv xenv e Hk Henv.
  induction e; cbn [evalI evalX].
  - apply nth_encl; exact Henv.
  - apply dyI_correct.
  - apply I.pi_correct.
  - apply I.add_correct; assumption.
  - apply I.sub_correct; assumption.
  - apply I.mul_correct; assumption.
  - apply I.div_correct; assumption.
  - apply I.neg_correct; assumption.
  - apply I.abs_correct; assumption.
  - apply I.ln_correct; assumption.
  - apply I.exp_correct; assumption.
  - apply I.sqrt_correct; assumption.
  - apply I.cos_correct; assumption.
  - apply I.sin_correct; assumption.
  - apply I.atan_correct; assumption.
  - apply inflate_correct; assumption.
Qed.

Lemma nth_map_Xreal : forall env n r,
  nth n (map Xreal env) Xnan = Xreal r -> nth n env 0 = r.
Proof.
  induction env as [|a env IH]; intros n r H.
  - destruct n; discriminate H.
  - destruct n; cbn in *; [congruence|apply IH; exact H].
Qed.

(* when the extended-real value is a real, it is the real-number semantics *)
Theorem evalX_real : forall env e r,
  evalX (map Xreal env) e = Xreal r -> evalR env e = r.
Proof.
  intros env e. induction e; intros r H; cbn [evalX evalR] in *.
  - apply nth_map_Xreal; exact H.
  - rewrite Xdy_real in H. congruence.
  - congruence.
  - destruct (evalX _ e1); [discriminate|]. destruct (evalX _ e2); [discriminate|].
    cbn in H. rewrite (IHe1 _ eq_refl), (IHe2 _ eq_refl). congruence.
  - destruct (evalX _ e1); [discriminate|]. destruct (evalX _ e2); [discriminate|].
    cbn in H. rewrite (IHe1 _ eq_refl), (IHe2 _ eq_refl). congruence.
  - destruct (evalX _ e1); [discriminate|]. destruct (evalX _ e2); [discriminate|].
    cbn in H. rewrite (IHe1 _ eq_refl), (IHe2 _ eq_refl). congruence.
  - destruct (evalX _ e1); [discriminate|]. destruct (evalX _ e2); [discriminate|].
    cbn in H. unfold Xdiv' in H. destruct (is_zero r1); [discriminate|].
    rewrite (IHe1 _ eq_refl), (IHe2 _ eq_refl). congruence.
  - destruct (evalX _ e); [discriminate|]. cbn in H. rewrite (IHe _ eq_refl). congruence.
  - destruct (evalX _ e); [discriminate|]. cbn in H. rewrite (IHe _ eq_refl). congruence.
  - destruct (evalX _ e); [discriminate|]. cbn in H. unfold Xln' in H.
    destruct (is_positive r0); [|discriminate]. rewrite (IHe _ eq_refl). congruence.
  - destruct (evalX _ e); [discriminate|]. cbn in H. rewrite (IHe _ eq_refl). congruence.
  - destruct (evalX _ e); [discriminate|]. cbn in H. unfold Xsqrt' in H.
    rewrite (IHe _ eq_refl). congruence.
  - destruct (evalX _ e); [discriminate|]. cbn in H. rewrite (IHe _ eq_refl). congruence.
  - destruct (evalX _ e); [discriminate|]. cbn in H. rewrite (IHe _ eq_refl). congruence.
  - destruct (evalX _ e); [discriminate|]. cbn in H. rewrite (IHe _ eq_refl). congruence.
  - apply IHe; exact H.
Qed.

Definition enclR (xi : I.type) (r : R) : Prop := encl xi (Xreal r).

Lemma Forall2_enclR_encl : forall ienv env,
  Forall2 enclR ienv env -> Forall2 encl ienv (map Xreal env).
Proof. intros ienv env H. induction H; cbn; constructor; assumption. Qed.

(* the enclosure theorem (reals): a proper interval result contains the real-number value *)
Theorem evalI_R : forall prec k ienv env e,
  (0 <= k)%Z -> Forall2 enclR ienv env ->
  I.real (evalI prec k ienv e) = true ->
  enclR (evalI prec k ienv e) (evalR env e).
Proof.
  intros prec k ienv env e Hk Henv Hreal.
  pose proof (evalI_correct prec k ienv (map Xreal env) e Hk (Forall2_enclR_encl _ _ Henv)) as H.
  unfold enclR, encl in *. rewrite I.real_correct in Hreal.
  destruct (I.convert (evalI prec k ienv e)) as [|l u] eqn:Hc; [discriminate|].
  destruct (evalX (map Xreal env) e) as [|r] eqn:Hx; [destruct H|].
  rewrite (evalX_real env e r Hx). exact H.
Qed.

(* same without the side condition: an improper result (NaI) encloses everything *)
Theorem evalI_sound : forall prec k ienv env e,
  (0 <= k)%Z -> Forall2 enclR ienv env -> enclR (evalI prec k ienv e) (evalR env e).
Proof.
  intros prec k ienv env e Hk Henv.
  destruct (I.real (evalI prec k ienv e)) eqn:Hr.
  - apply evalI_R; assumption.
  - unfold enclR, encl. rewrite I.real_correct in Hr.
    destruct (I.convert (evalI prec k ienv e)); [exact I|discriminate].
Qed.

Lemma inflate_sound : forall prec k xi r, (0 <= k)%Z -> enclR xi r -> enclR (inflate prec k xi) r.
Proof. intros. apply inflate_correct; assumption. Qed.

Lemma addI_sound : forall prec xi yi x y, enclR xi x -> enclR yi y -> enclR (I.add prec xi yi) (x + y).
Proof. intros prec xi yi x y Hx Hy. exact (I.add_correct prec xi yi (Xreal x) (Xreal y) Hx Hy). Qed.

Lemma zeroI_sound : enclR I.zero 0.
Proof. unfold enclR, encl. rewrite I.zero_correct. cbn. lra. Qed.

(* ---- deciding "the float y lies in the enclosure" ----------------------------- *)
Definition pointI (prec : F.precision) (m e : Z) : I.type := dyI prec m e.

Definition insideb (prec : F.precision) (m e : Z) (E : I.type) : bool :=
  I.subset (pointI prec m e) E.

Theorem insideb_correct : forall prec m e E,
  insideb prec m e E = true -> enclR E (IZR m * powerRZ 2 e).
Proof.
  intros prec m e E H. unfold enclR, encl.
  apply (I.subset_correct (pointI prec m e) E); [|exact H].
  unfold pointI. rewrite <- Xdy_real. apply dyI_correct.
Qed.

(* both the implementation's output y and the model's exact value v lie in E = [l, u] *)
Theorem inside_bound : forall E l u y v,
  I.convert E = Ibnd (Xreal l) (Xreal u) -> enclR E y -> enclR E v -> Rabs (y - v) <= u - l.
Proof.
  intros E l u y v Hc Hy Hv. unfold enclR, encl in *. rewrite Hc in *. cbn in *.
  apply Rabs_le. lra.
Qed.

(* width classes used to report how sharp the decided cases were *)
Definition width_le (prec : F.precision) (E : I.type) (wm we : Z) : bool :=
  I.bounded E &&
  I.subset (I.sub prec (I.bnd (I.upper E) (I.upper E)) (I.bnd (I.lower E) (I.lower E)))
           (I.lower_extent (dyI prec wm we)).
