(* Lib/FSModel.v (owner: C11) - file-system model for crash-safety arguments.
   Definitions only (runnable with vm_compute); the proofs are in Proofs/C11_FS_proofs.v.

   Concrete level: a file system is a map  name -> option (list B)  plus at most one open
   write handle.  The bytes written through a handle are only guaranteed to be on disk after
   Close (user-space buffering): a process kill while a handle is open leaves ANY prefix of
   the bytes written through it so far.  A crash execution of an op list is: execute any
   prefix of the list (a prefix ending inside a Write is covered by executing the Write and
   cutting the open file), then cut the open file (if any) to any length.

   Abstract level: name -> Absent | Whole p | Bad, where p identifies a complete serialised
   payload and Bad is anything a loader rejects (empty or truncated file). *)
From Coq Require Import List Arith Bool.
Import ListNotations.

(* ---- names ---------------------------------------------------------------------------- *)
Inductive role := Pkl | Wt | Lvl (n : nat) | Blk (n : nat) | Other (n : nat).
   (* Pkl  : <output>/<resume_file>                 (nested_sampler_resume.pkl)
      Wt   : <output>/proposal/model.pt             (standard sampler, weights written in place)
      Lvl n: <output>/levels/level_n/model.pt       (importance sampler, one file per level)
      Blk n: <output>/proposal/training/block_n/model.pt   (standard sampler with per-training block
             directories: save_training_data / training plots)
      Other n: a file the harness has no name for (catch-all, so that every observation has a literal) *)
Inductive fname := Base (r : role) | Old (f : fname) | Temp (f : fname).
   (* Old f = f + ".old",  Temp f = f + ".temp" *)

Definition role_eqb (a b : role) : bool :=
  match a, b with
  | Pkl, Pkl => true | Wt, Wt => true | Lvl n, Lvl m => Nat.eqb n m | Blk n, Blk m => Nat.eqb n m
  | Other n, Other m => Nat.eqb n m
  | _, _ => false
  end.
Fixpoint fname_eqb (a b : fname) : bool :=
  match a, b with
  | Base r, Base s => role_eqb r s
  | Old f, Old g => fname_eqb f g
  | Temp f, Temp g => fname_eqb f g
  | _, _ => false
  end.

Definition upd {X} (m : fname -> X) (f : fname) (x : X) : fname -> X :=
  fun g => if fname_eqb g f then x else m g.

(* ---- operations ----------------------------------------------------------------------- *)
Section Ops.
Context {P : Type}.                       (* identifiers of complete payloads *)

Inductive fsop :=
| MoveIfExists (a b : fname)   (* if os.path.exists(a): shutil.move(a, b)                        *)
| Move (a b : fname)           (* shutil.move(a, b) / os.replace(a, b) / os.rename: atomic rename *)
| Open (f : fname)             (* open(f, "wb"): create or truncate; the (single) write handle   *)
| Write (p : P)                (* the complete serialisation of p goes through the handle        *)
| Close.                       (* flush + close the handle                                       *)

(* ---- concrete semantics --------------------------------------------------------------- *)
Section Concrete.
Variable B : Type.
Variable bytes : P -> list B.

Record cstate := { cfs : fname -> option (list B); chnd : option fname }.

Definition cmove (c : cstate) (a b : fname) : cstate :=
  match cfs c a with
  | None => c
  | Some x =>
      {| cfs := upd (upd (cfs c) b (Some x)) a None;
         chnd := match chnd c with
                 | Some h => if fname_eqb h a then Some b else Some h
                 | None => None
                 end |}
  end.

Definition cstep (c : cstate) (o : fsop) : cstate :=
  match o with
  | MoveIfExists a b => cmove c a b
  | Move a b => cmove c a b        (* a must exist: see [alegal]; the rename of a missing file raises *)
  | Open f => {| cfs := upd (cfs c) f (Some []); chnd := Some f |}
  | Write p =>
      match chnd c with
      | Some h => match cfs c h with
                  | Some bs => {| cfs := upd (cfs c) h (Some (bs ++ bytes p)); chnd := chnd c |}
                  | None => c
                  end
      | None => c
      end
  | Close => {| cfs := cfs c; chnd := None |}
  end.

Definition cexec (ops : list fsop) (c : cstate) : cstate := fold_left cstep ops c.

(* what a fresh process finds after a kill: closed files intact, the open one cut at j *)
Definition cview (c : cstate) (j : nat) : fname -> option (list B) :=
  match chnd c with
  | Some h => upd (cfs c) h (option_map (firstn j) (cfs c h))
  | None => cfs c
  end.

(* every crash execution: n ops fully issued, open file cut to j bytes *)
Definition crash_exec (ops : list fsop) (c0 : cstate) (n j : nat) : fname -> option (list B) :=
  cview (cexec (firstn n ops) c0) j.
End Concrete.

(* ---- abstract semantics --------------------------------------------------------------- *)
Inductive acontent := Absent | Whole (p : P) | Bad.
Definition view := fname -> acontent.

(* handle: current name of the open file and what went through it (None = nothing yet) *)
Record astate := { afs : view; ahnd : option (fname * option P) }.

Definition aexists (v : view) (f : fname) : bool :=
  match v f with Absent => false | _ => true end.

Definition amove (a : astate) (x y : fname) : astate :=
  if aexists (afs a) x then
    {| afs := upd (upd (afs a) y (afs a x)) x Absent;
       ahnd := match ahnd a with
               | Some (h, w) => if fname_eqb h x then Some (y, w) else Some (h, w)
               | None => None
               end |}
  else a.

Definition astep (a : astate) (o : fsop) : astate :=
  match o with
  | MoveIfExists x y => amove a x y
  | Move x y => amove a x y
  | Open f => {| afs := upd (afs a) f Bad; ahnd := Some (f, None) |}
  | Write p =>
      match ahnd a with
      | Some (h, None) => {| afs := upd (afs a) h (Whole p); ahnd := Some (h, Some p) |}
      | _ => a
      end
  | Close => {| afs := afs a; ahnd := None |}
  end.

Definition aexec (ops : list fsop) (a : astate) : astate := fold_left astep ops a.

(* preconditions under which the semantics above is the real one (otherwise Python raises) *)
Definition hnd_is (a : astate) (f : fname) : bool :=
  match ahnd a with Some (h, _) => fname_eqb h f | None => false end.

Definition alegal (a : astate) (o : fsop) : bool :=
  match o with
  | MoveIfExists x y => negb (fname_eqb x y) && negb (hnd_is a y)
  | Move x y => negb (fname_eqb x y) && negb (hnd_is a y) && aexists (afs a) x
  | Open f => match ahnd a with None => true | Some _ => false end
  | Write _ => match ahnd a with Some (_, None) => true | _ => false end
  | Close => match ahnd a with Some _ => true | None => false end
  end.

Fixpoint legal (a : astate) (ops : list fsop) : bool :=
  match ops with
  | [] => true
  | o :: r => alegal a o && legal (astep a o) r
  end.

(* what a fresh process may find if the kill happens in abstract state a *)
Definition aviews (a : astate) : list view :=
  match ahnd a with
  | Some (h, Some _) => [upd (afs a) h Bad; afs a]
  | _ => [afs a]
  end.

Fixpoint crash_states (a : astate) (ops : list fsop) : list view :=
  aviews a ++ match ops with
              | [] => []
              | o :: r => crash_states (astep a o) r
              end.

(* ---- the generic checker: every outcome of a reader on every crash state is accepted --- *)
Definition crash_safe {O : Type} (R : view -> list O) (acc : O -> bool)
           (a0 : astate) (ops : list fsop) : bool :=
  legal a0 ops && forallb (fun v => forallb acc (R v)) (crash_states a0 ops).

(* the explanation output: indices (into crash_states) of the unsafe crash states *)
Fixpoint bad_from {X} (ok : X -> bool) (k : nat) (l : list X) : list nat :=
  match l with
  | [] => []
  | x :: r => if ok x then bad_from ok (S k) r else k :: bad_from ok (S k) r
  end.
Definition unsafe_states {O : Type} (R : view -> list O) (acc : O -> bool)
           (a0 : astate) (ops : list fsop) : list nat :=
  bad_from (fun v => forallb acc (R v)) 0 (crash_states a0 ops).

(* ---- classification of a concrete file system through a decoder ----------------------- *)
Definition classify {B} (decode : list B -> option P) (c : fname -> option (list B)) : view :=
  fun f => match c f with
           | None => Absent
           | Some bs => match decode bs with Some p => Whole p | None => Bad end
           end.
End Ops.

Arguments fsop : clear implicits.
Arguments acontent : clear implicits.
Arguments view : clear implicits.
Arguments astate : clear implicits.
Arguments cstate : clear implicits.
Arguments Build_cstate {B}.
Arguments cfs {B}.
Arguments chnd {B}.
Arguments cmove {B}.
Arguments cstep {P B}.
Arguments cexec {P B}.
Arguments cview {B}.
Arguments crash_exec {P B}.
