(* Lib/Enclose.v - shared numeric infrastructure (owner: builder of C02/C16).

   PURPOSE.  Real-number models (over Coq's R, with exp / ln / sqrt) do not compute.
   Each such model f_R gets an *interval twin* f_I built from the operators of the
   Interval library (radix-2 floats with unbounded integer exponents: no overflow, no
   underflow) and an enclosure theorem proved by induction with the lemmas below.
   The correspondence check then decides *inside Coq* (vm_compute) that a float64
   output of the implementation, given as an exact dyadic, lies within a stated
   tolerance of the real model's value at the exact dyadic inputs.

   INTERFACE (everything else in this file is auxiliary):

     F, I                     Interval's float / interval modules
                              (F := SpecificFloat BigIntRadix2, I := FloatIntervalFull F)
     prec, mkprec p           working precision (bits) of the twins; mkprec 100%positive
     encl i x                 the interval i contains the real x  (i : I.type, x : R)
     encl_add/sub/mul/neg/abs/exp/sqrt/sqr   unconditional enclosure lemmas for the twins
     encl_div (y <> 0), encl_inv (x <> 0), encl_ln (0 < x)   guarded ones
     encl_ln_defined          I.ln p xi is not the NaN interval -> the argument is positive
                              (the computation itself discharges the domain condition)
     iZ p z / encl_iZ         interval of an integer
     dyR m e                  the real  m * 2^e   (as  IZR (m*2^e)  or  IZR m / IZR (2^-e))
     dy p m e / encl_dy       its interval (exact whenever p >= bit length of m)
     xlog := option R         extended log-number: None = -inf
     xexp                     None |-> 0, Some l |-> exp l
     dyo / dyoR / encl_dyo    the same for optional dyadics (None = -inf): option (Z*Z)
     max_I / encl_max         twin of Rmax (through (x + y + |x - y|) / 2)
     sum_R / sum_I / sum_encl         list sum and twin,  Forall2 encl li lx -> encl (sum_I p li) (sum_R lx)
     sumexp_R / sumexp_I / sumexp_encl  sum of xexp over a list of extended logs
     lse_R / lse_I / lse_encl         log-sum-exp  ln (sum_i exp l_i)  (-inf entries contribute 0);
                              needs at least one finite entry (has_finite)
     encl_map, encl_map2      Forall2 encl is preserved by twins of pointwise functions
     within p enc y tol       boolean: the interval |enc - y| lies below the interval tol
     within_sound             within p enc y tol = true -> encl enc x -> encl y yr -> encl tol t
                                  -> Rabs (x - yr) <= t
     close_to p enc (m,e) tol   = within against the dyadic m*2^e  (entry point for float64 outputs)
     close_to_sound           close_to p enc (m,e) tol = true -> encl enc x -> encl tol t
                                  -> Rabs (x - dyR m e) <= t
     is_defined i             i is a bounded, non-NaN interval (used to report evaluator problems)
     is_nonneg i / is_nonpos i        boolean sign tests of an interval, with
     is_nonneg_sound / is_nonpos_sound   is_nonneg i = true -> encl i x -> 0 <= x   (resp. x <= 0)
     dyR_pos                  0 < m -> 0 < dyR m e
     xsub l c / xsub_I        extended-log minus a real: (-inf) - c = -inf ;  encl_xsub
     xscale k l / xscale_I    k * l on extended logs (k a real constant) ; encl_xscale

   HOW A DRIVER USES IT.  Python side: common.float_dyadic(x) gives (m, e) for every finite
   float64 input and output.  Coq side, in a generated case file:
       Eval vm_compute in (close_to p (f_I p (map (fun '(m,e) => dy p m e) inputs)) (my,ey) tol_I).
   true  + the enclosure theorem of f + close_to_sound  =  |y - f_R(inputs)| <= tol   as a theorem about reals.
   Axioms reported by Print Assumptions for anything using this file: the classical-reals axioms of the
   standard library and the primitive-integer specifications used by Bignums (none declared here). *)
From Coq Require Import Reals ZArith List Bool Lia Lra.
From Interval Require Import Specific_bigint Specific_ops Float_full Xreal Interval Basic.
Import ListNotations.

Module F := SpecificFloat BigIntRadix2.
Module I := FloatIntervalFull F.

Definition prec := F.precision.
Definition mkprec (p : positive) : prec := F.PtoP p.

Definition encl (i : I.type) (x : R) : Prop := contains (I.convert i) (Xreal x).

Local Open Scope R_scope.

(* ---- primitive operators ------------------------------------------------------- *)
Lemma encl_add p a b x y : encl a x -> encl b y -> encl (I.add p a b) (x + y).
Proof. intros H1 H2. exact (I.add_correct p a b (Xreal x) (Xreal y) H1 H2). Qed.

Lemma encl_sub p a b x y : encl a x -> encl b y -> encl (I.sub p a b) (x - y).
Proof. intros H1 H2. exact (I.sub_correct p a b (Xreal x) (Xreal y) H1 H2). Qed.

Lemma encl_mul p a b x y : encl a x -> encl b y -> encl (I.mul p a b) (x * y).
Proof. intros H1 H2. exact (I.mul_correct p a b (Xreal x) (Xreal y) H1 H2). Qed.

Lemma encl_neg a x : encl a x -> encl (I.neg a) (- x).
Proof. intros H. exact (I.neg_correct a (Xreal x) H). Qed.

Lemma encl_abs a x : encl a x -> encl (I.abs a) (Rabs x).
Proof. intros H. exact (I.abs_correct a (Xreal x) H). Qed.

Lemma encl_exp p a x : encl a x -> encl (I.exp p a) (exp x).
Proof. intros H. exact (I.exp_correct p a (Xreal x) H). Qed.

Lemma encl_sqrt p a x : encl a x -> encl (I.sqrt p a) (sqrt x).
Proof. intros H. exact (I.sqrt_correct p a (Xreal x) H). Qed.

Lemma encl_sqr p a x : encl a x -> encl (I.sqr p a) (x * x).
Proof.
  intros H. exact (I.sqr_correct p a (Xreal x) H).
Qed.

Lemma encl_div p a b x y : y <> 0 -> encl a x -> encl b y -> encl (I.div p a b) (x / y).
Proof.
  intros Hy H1 H2. generalize (I.div_correct p a b (Xreal x) (Xreal y) H1 H2).
  unfold encl. simpl. unfold Xdiv'. rewrite is_zero_false by exact Hy. auto.
Qed.

Lemma encl_inv p a x : x <> 0 -> encl a x -> encl (I.inv p a) (/ x).
Proof.
  intros Hx H. generalize (I.inv_correct p a (Xreal x) H).
  unfold encl. simpl. unfold Xinv'. rewrite is_zero_false by exact Hx. auto.
Qed.

Lemma encl_ln p a x : 0 < x -> encl a x -> encl (I.ln p a) (ln x).
Proof.
  intros Hx H. generalize (I.ln_correct p a (Xreal x) H).
  unfold encl. simpl. unfold Xln'. rewrite is_positive_true by exact Hx. auto.
Qed.

(* the evaluation discharges the domain condition: a non-NaN result means a positive argument *)
Lemma encl_ln_defined p a x :
  encl a x -> I.convert (I.ln p a) <> Inan -> 0 < x /\ encl (I.ln p a) (ln x).
Proof.
  intros H Hn. generalize (I.ln_correct p a (Xreal x) H). simpl. unfold Xln'.
  destruct (is_positive_spec x) as [Hx|Hx].
  - intros H'. split; [exact Hx|exact H'].
  - intros H'. exfalso. destruct (I.convert (I.ln p a)); [now apply Hn|exact H'].
Qed.

(* Rmax through the identity max x y = (x + y + |x - y|) / 2 *)
Definition max_I (p : prec) (a b : I.type) : I.type :=
  I.mul p (I.add p (I.add p a b) (I.abs (I.sub p a b))) (I.div p (I.fromZ p 1) (I.fromZ p 2)).
Lemma Rmax_formula x y : Rmax x y = (x + y + Rabs (x - y)) * (1 / 2).
Proof.
  unfold Rmax, Rabs. destruct (Rle_dec x y); destruct (Rcase_abs (x - y)); lra.
Qed.
Lemma encl_max p a b x y : encl a x -> encl b y -> encl (max_I p a b) (Rmax x y).
Proof.
  intros H1 H2. rewrite Rmax_formula. unfold max_I. apply encl_mul.
  - apply encl_add; [now apply encl_add|apply encl_abs; now apply encl_sub].
  - apply encl_div; [lra|exact (I.fromZ_correct p 1)|exact (I.fromZ_correct p 2)].
Qed.

Definition iZ (p : prec) (z : Z) : I.type := I.fromZ p z.
Lemma encl_iZ p z : encl (iZ p z) (IZR z).
Proof. exact (I.fromZ_correct p z). Qed.

(* ---- dyadic inputs ------------------------------------------------------------ *)
Definition dyR (m e : Z) : R :=
  if (0 <=? e)%Z then IZR (m * 2 ^ e) else IZR m / IZR (2 ^ (- e)).
Definition dy (p : prec) (m e : Z) : I.type :=
  if (0 <=? e)%Z then iZ p (m * 2 ^ e) else I.div p (iZ p m) (iZ p (2 ^ (- e))).

Lemma encl_dy p m e : encl (dy p m e) (dyR m e).
Proof.
  unfold dy, dyR. destruct (0 <=? e)%Z eqn:He.
  - apply encl_iZ.
  - apply encl_div; try apply encl_iZ.
    apply not_0_IZR. apply Z.leb_gt in He.
    assert (0 < 2 ^ (- e))%Z by (apply Z.pow_pos_nonneg; lia). lia.
Qed.

(* m * 2^e written with a real power, for readers *)
Lemma dyR_powerRZ m e : dyR m e = IZR m * powerRZ 2 e.
Proof.
  unfold dyR. destruct (0 <=? e)%Z eqn:He.
  - apply Z.leb_le in He. rewrite mult_IZR. f_equal.
    rewrite <- (Z2Nat.id e) by exact He. rewrite <- pow_powerRZ.
    rewrite <- pow_IZR. reflexivity.
  - apply Z.leb_gt in He. unfold Rdiv. f_equal.
    assert (Hn : (0 <= - e)%Z) by lia.
    replace e with (- (- e))%Z at 2 by lia.
    rewrite powerRZ_neg' . f_equal.
    rewrite <- (Z2Nat.id (- e)) by exact Hn. rewrite <- pow_powerRZ.
    rewrite <- pow_IZR. reflexivity.
Qed.

(* ---- extended log numbers ------------------------------------------------------- *)
Definition xlog := option R.
Definition xexp (l : xlog) : R := match l with None => 0 | Some x => exp x end.
Definition xexp_I (p : prec) (l : option I.type) : I.type :=
  match l with None => iZ p 0 | Some i => I.exp p i end.
Definition xencl (i : option I.type) (x : xlog) : Prop :=
  match i, x with
  | None, None => True
  | Some a, Some b => encl a b
  | _, _ => False
  end.
Lemma encl_xexp p i x : xencl i x -> encl (xexp_I p i) (xexp x).
Proof.
  destruct i, x; simpl; try contradiction; intros H.
  - now apply encl_exp.
  - apply (encl_iZ p 0).
Qed.
Lemma xexp_nonneg x : 0 <= xexp x.
Proof. destruct x; simpl; [left; apply exp_pos|lra]. Qed.

Definition dyoR (d : option (Z * Z)) : xlog :=
  match d with None => None | Some (m, e) => Some (dyR m e) end.
Definition dyo (p : prec) (d : option (Z * Z)) : option I.type :=
  match d with None => None | Some (m, e) => Some (dy p m e) end.
Lemma encl_dyo p d : xencl (dyo p d) (dyoR d).
Proof. destruct d as [[m e]|]; simpl; [apply encl_dy|exact Logic.I]. Qed.
Lemma encl_dyo_list p l : Forall2 xencl (map (dyo p) l) (map dyoR l).
Proof. induction l; simpl; constructor; [apply encl_dyo|assumption]. Qed.
Lemma encl_dy_list p (l : list (Z * Z)) :
  Forall2 encl (map (fun d => dy p (fst d) (snd d)) l) (map (fun d => dyR (fst d) (snd d)) l).
Proof. induction l; simpl; constructor; [apply encl_dy|assumption]. Qed.

(* ---- lists ---------------------------------------------------------------------- *)
Definition sum_R (l : list R) : R := fold_right Rplus 0 l.
Definition sum_I (p : prec) (l : list I.type) : I.type := fold_right (I.add p) (iZ p 0) l.

Theorem sum_encl p li lx : Forall2 encl li lx -> encl (sum_I p li) (sum_R lx).
Proof.
  induction 1; simpl.
  - apply (encl_iZ p 0).
  - now apply encl_add.
Qed.

Lemma encl_map {A} (rA : A -> R -> Prop) (fi : A -> I.type) (fr : R -> R) la lx :
  (forall a x, rA a x -> encl (fi a) (fr x)) ->
  Forall2 rA la lx -> Forall2 encl (map fi la) (map fr lx).
Proof. intros Hf. induction 1; simpl; constructor; auto. Qed.

Lemma Forall2_map2 {A B C D} (r1 : A -> B -> Prop) (r2 : C -> D -> Prop) (f : A -> C) (g : B -> D) la lb :
  (forall a b, r1 a b -> r2 (f a) (g b)) -> Forall2 r1 la lb -> Forall2 r2 (map f la) (map g lb).
Proof. intros Hf. induction 1; simpl; constructor; auto. Qed.

Fixpoint map2 {A B C} (f : A -> B -> C) (la : list A) (lb : list B) : list C :=
  match la, lb with
  | a :: ra, b :: rb => f a b :: map2 f ra rb
  | _, _ => []
  end.
Lemma encl_map2 {A B A' B' C C'} (r1 : A -> A' -> Prop) (r2 : B -> B' -> Prop) (r3 : C -> C' -> Prop)
      (f : A -> B -> C) (g : A' -> B' -> C') la la' lb lb' :
  (forall a a' b b', r1 a a' -> r2 b b' -> r3 (f a b) (g a' b')) ->
  Forall2 r1 la la' -> Forall2 r2 lb lb' -> Forall2 r3 (map2 f la lb) (map2 g la' lb').
Proof.
  intros Hf H1. revert lb lb'. induction H1; intros lb lb' H2; simpl.
  - constructor.
  - destruct H2; constructor; auto.
Qed.

Definition sumexp_R (l : list xlog) : R := sum_R (map xexp l).
Definition sumexp_I (p : prec) (l : list (option I.type)) : I.type := sum_I p (map (xexp_I p) l).
Theorem sumexp_encl p li lx : Forall2 xencl li lx -> encl (sumexp_I p li) (sumexp_R lx).
Proof.
  intros H. apply sum_encl. revert H. apply Forall2_map2. intros a b. apply encl_xexp.
Qed.

Definition has_finite (l : list xlog) : Prop := exists x, In (Some x) l.
Lemma sum_R_nonneg l : Forall (fun x => 0 <= x) l -> 0 <= sum_R l.
Proof. induction 1; simpl; lra. Qed.
Lemma sumexp_nonneg l : 0 <= sumexp_R l.
Proof.
  apply sum_R_nonneg. apply Forall_forall. intros x Hx. apply in_map_iff in Hx.
  destruct Hx as [y [<- _]]. apply xexp_nonneg.
Qed.
Lemma sumexp_pos l : has_finite l -> 0 < sumexp_R l.
Proof.
  intros [x Hx]. induction l as [|a l IH]; [destruct Hx|].
  unfold sumexp_R. simpl. fold (sumexp_R l).
  destruct Hx as [->|Hx].
  - simpl. generalize (exp_pos x) (sumexp_nonneg l). lra.
  - generalize (xexp_nonneg a) (IH Hx). lra.
Qed.

Definition lse_R (l : list xlog) : R := ln (sumexp_R l).
Definition lse_I (p : prec) (l : list (option I.type)) : I.type := I.ln p (sumexp_I p l).
Theorem lse_encl p li lx : has_finite lx -> Forall2 xencl li lx -> encl (lse_I p li) (lse_R lx).
Proof.
  intros Hf H. apply encl_ln; [now apply sumexp_pos|now apply sumexp_encl].
Qed.

(* ---- the decision: is y within tol of the enclosed value? ------------------------ *)
Definition nonpos_I : I.type := I.bnd F.nan F.zero.       (* (-inf, 0] *)
Definition within (p : prec) (enc y tol : I.type) : bool :=
  I.subset (I.sub p (I.abs (I.sub p enc y)) tol) nonpos_I.

Lemma nonpos_I_convert : I.convert nonpos_I = Ibnd Xnan (Xreal 0).
Proof.
  unfold nonpos_I. rewrite I.bnd_correct.
  - rewrite F.zero_correct, I.F'.nan_correct. reflexivity.
  - exact I.valid_lb_nan.
  - exact I.F'.valid_ub_zero.
Qed.

Theorem within_sound p enc y tol x yr t :
  within p enc y tol = true -> encl enc x -> encl y yr -> encl tol t -> Rabs (x - yr) <= t.
Proof.
  unfold within. intros Hs Hx Hy Ht.
  assert (H : encl (I.sub p (I.abs (I.sub p enc y)) tol) (Rabs (x - yr) - t)).
  { apply encl_sub; [apply encl_abs; now apply encl_sub|exact Ht]. }
  generalize (I.subset_correct _ _ _ H Hs). rewrite nonpos_I_convert. simpl. lra.
Qed.

Definition close_to (p : prec) (enc : I.type) (y : Z * Z) (tol : I.type) : bool :=
  within p enc (dy p (fst y) (snd y)) tol.
Theorem close_to_sound p enc y tol x t :
  close_to p enc y tol = true -> encl enc x -> encl tol t -> Rabs (x - dyR (fst y) (snd y)) <= t.
Proof. intros H Hx Ht. exact (within_sound _ _ _ _ _ _ _ H Hx (encl_dy _ _ _) Ht). Qed.

(* sign tests *)
Definition nonneg_I : I.type := I.bnd F.zero F.nan.       (* [0, +inf) *)
Lemma nonneg_I_convert : I.convert nonneg_I = Ibnd (Xreal 0) Xnan.
Proof.
  unfold nonneg_I. rewrite I.bnd_correct.
  - rewrite F.zero_correct, I.F'.nan_correct. reflexivity.
  - exact I.F'.valid_lb_zero.
  - exact I.valid_ub_nan.
Qed.
Definition is_nonneg (i : I.type) : bool := I.subset i nonneg_I.
Definition is_nonpos (i : I.type) : bool := I.subset i nonpos_I.
Lemma is_nonneg_sound i x : is_nonneg i = true -> encl i x -> 0 <= x.
Proof.
  intros Hs H. generalize (I.subset_correct _ _ _ H Hs). rewrite nonneg_I_convert. simpl. lra.
Qed.
Lemma is_nonpos_sound i x : is_nonpos i = true -> encl i x -> x <= 0.
Proof.
  intros Hs H. generalize (I.subset_correct _ _ _ H Hs). rewrite nonpos_I_convert. simpl. lra.
Qed.

Lemma dyR_pos m e : (0 < m)%Z -> 0 < dyR m e.
Proof.
  intros Hm. unfold dyR. destruct (0 <=? e)%Z eqn:He.
  - apply IZR_lt. apply Z.leb_le in He. apply Z.mul_pos_pos; [exact Hm|]. now apply Z.pow_pos_nonneg.
  - apply Z.leb_gt in He. apply Rdiv_lt_0_compat; apply IZR_lt; [exact Hm|]. apply Z.pow_pos_nonneg; lia.
Qed.

(* arithmetic on extended logs *)
Definition xsub (l : xlog) (c : R) : xlog := match l with None => None | Some x => Some (x - c) end.
Definition xsub_I (p : prec) (l : option I.type) (c : I.type) : option I.type :=
  match l with None => None | Some x => Some (I.sub p x c) end.
Lemma encl_xsub p li l ci c : xencl li l -> encl ci c -> xencl (xsub_I p li ci) (xsub l c).
Proof. destruct li, l; simpl; try contradiction; auto. intros H1 H2. now apply encl_sub. Qed.
Definition xscale (k : R) (l : xlog) : xlog := match l with None => None | Some x => Some (k * x) end.
Definition xscale_I (p : prec) (k : I.type) (l : option I.type) : option I.type :=
  match l with None => None | Some x => Some (I.mul p k x) end.
Lemma encl_xscale p ki k li l : encl ki k -> xencl li l -> xencl (xscale_I p ki li) (xscale k l).
Proof. destruct li, l; simpl; try contradiction; auto. intros H1 H2. now apply encl_mul. Qed.

(* optional outputs: -inf must be matched exactly *)
Definition close_to_opt (p : prec) (enc : option I.type) (y : option (Z * Z)) (tol : I.type) : bool :=
  match enc, y with
  | None, None => true
  | Some i, Some d => close_to p i d tol
  | _, _ => false
  end.

(* bounded and not NaN: the evaluator produced a usable enclosure *)
Definition is_defined (i : I.type) : bool := I.bounded i.

(* width of an enclosure as an upper bound (diagnostics only) *)
Definition width_ub (p : prec) (i : I.type) : F.type := I.upper (I.sub p (I.bnd (I.upper i) (I.upper i)) (I.bnd (I.lower i) (I.lower i))).
