(* Lib/Effects.v - the effect alphabet of one iteration of the standard nested sampler
   (NestedSampler.consume_sample with insert_live_point inlined), shared by C01 (tie A:
   "exactly one likelihood-constrained replacement per iteration") and C13 (interruption
   before effect k + resume).  Owned by the C01/C13 builder.  Definitions only.

   One Python statement of the iteration is one effect; statements that touch no tracked
   field (counters, acceptance statistics, logging) are [Skip].  A statement that touches a
   tracked field in a shape the translator has no rule for is [Unknown] - the interpreter
   refuses to run it and every checker rejects it.                                          *)
From Coq Require Import List Bool.
Import ListNotations.

Inductive eff :=
| ReadWorst      (* worst = self.live_points[0].copy()                                   *)
| SetLogLmin     (* self.logLmin = worst["logL"]                                         *)
| IncrState      (* self.state.increment(worst["logL"])                                  *)
| AppendDead     (* self.nested_samples.append(worst)                                    *)
| SetCond        (* self.condition = ...            (reads only; not a tracked field)    *)
| IncrIter       (* self.iteration += 1                                                  *)
| Draw           (* the while-loop around next(self.yield_sample(worst)) up to acceptance *)
| SetIt          (* proposed["it"] = self.iteration                                      *)
| ComputeIdx     (* index = np.searchsorted(self.live_points["logL"], live_point["logL"]) *)
| ShiftLive      (* self.live_points[: index - 1] = self.live_points[1:index]            *)
| WriteLive      (* self.live_points[index - 1] = live_point                             *)
| AppendIdx      (* self.insertion_indices.append(index - 1)                             *)
| Skip           (* anything that touches no tracked field                               *)
| Unknown.       (* a tracked field used in a shape the translator has no rule for       *)

Definition eff_eqb (a b : eff) : bool :=
  match a, b with
  | ReadWorst, ReadWorst | SetLogLmin, SetLogLmin | IncrState, IncrState
  | AppendDead, AppendDead | SetCond, SetCond | IncrIter, IncrIter | Draw, Draw
  | SetIt, SetIt | ComputeIdx, ComputeIdx | ShiftLive, ShiftLive | WriteLive, WriteLive
  | AppendIdx, AppendIdx | Skip, Skip | Unknown, Unknown => true
  | _, _ => false
  end.

(* the effects that change a field the property talks about
   (live set, recorded dead points, evidence-state entries, insertion indices, iteration) *)
Definition is_mutation (e : eff) : bool :=
  match e with
  | IncrState | AppendDead | IncrIter | ShiftLive | WriteLive | AppendIdx => true
  | _ => false
  end.

(* comparison operators and searchsorted sides are extracted from the source as data *)
Inductive cmp := Gt | Ge | Lt | Le | CmpOther.
Inductive sside := SLeft | SRight.

Definition cmp_eqb (a b : cmp) : bool :=
  match a, b with Gt, Gt | Ge, Ge | Lt, Lt | Le, Le | CmpOther, CmpOther => true | _, _ => false end.
Definition sside_eqb (a b : sside) : bool :=
  match a, b with SLeft, SLeft | SRight, SRight => true | _, _ => false end.
