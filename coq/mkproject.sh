#!/bin/sh
# regenerate _CoqProject from the files on disk (dependency order is coqdep's business)
cd "$(dirname "$0")"
{ echo "-Q . NessaiV"; echo "-arg -w -arg -notation-overridden,-deprecated-hint-without-locality,-deprecated-instance-without-locality,-ambiguous-paths,-deprecated-hint-rewrite-without-locality"; ls Lib/*.v Model/*.v Proofs/*.v Props/*.v Run/*.v 2>/dev/null; } > _CoqProject
coq_makefile -f _CoqProject -o Makefile >/dev/null
