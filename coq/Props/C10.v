(* C10 - property theorems.  Statements, [exact], [Print Assumptions]; nothing else. *)
From Coq Require Import List Arith Bool.
Import ListNotations.
From NessaiV Require Import Model.C10_Batch Proofs.C10_Batch_proofs.

Theorem C10_chunks_concat : forall (A : Type) (k : nat) (l : list A),
  concat (chunks k l) = l.
Proof. exact @chunks_concat. Qed.
Print Assumptions C10_chunks_concat.

Theorem C10_chunks_bound : forall (A : Type) (k : nat) (l : list A),
  1 <= k -> Forall (fun c => length c <= k) (chunks k l).
Proof. exact @chunks_bound. Qed.
Print Assumptions C10_chunks_bound.

Theorem C10_chunks_nonempty : forall (A : Type) (k : nat) (l : list A),
  1 <= k -> l <> [] -> Forall (fun c => c <> []) (chunks k l).
Proof. exact @chunks_nonempty. Qed.
Print Assumptions C10_chunks_nonempty.

Theorem C10_split_concat : forall (A : Type) (p : nat) (l : list A),
  1 <= p -> concat (split_n p l) = l /\ length (split_n p l) = p.
Proof. intros A p l Hp. split; [exact (split_concat p l Hp)|exact (split_length p l Hp)]. Qed.
Print Assumptions C10_split_concat.

(* every chunk but the last is full: no more calls than ceil(len/k) are made *)
Theorem C10_chunks_full : forall (A : Type) (k : nat) (l : list A),
  1 <= k -> Forall (fun c => length c = k) (removelast (chunks k l)).
Proof. exact @chunks_full. Qed.
Print Assumptions C10_chunks_full.

(* a chunk size at least the batch size: a single call on the whole batch *)
Theorem C10_chunks_single : forall (A : Type) (k : nat) (l : list A), length l <= k -> chunks k l = [l].
Proof. exact @chunks_single. Qed.
Print Assumptions C10_chunks_single.

(* the function is called exactly ceil(len / k) times on a non-empty batch *)
Theorem C10_chunks_count : forall (A : Type) (k : nat) (l : list A),
  1 <= k -> l <> [] ->
  (length (chunks k l) - 1) * k < length l <= length (chunks k l) * k.
Proof. exact @chunks_count. Qed.
Print Assumptions C10_chunks_count.

(* the pieces handed to the pool have exactly numpy's sizes: the first (len mod p) of len/p + 1,
   the remaining ones of len/p; in particular the work is balanced to within one point *)
Theorem C10_split_shape : forall (A : Type) (p : nat) (l : list A),
  1 <= p ->
  map (@length A) (split_n p l) = split_sizes p (length l)
  /\ Forall (fun c => length l / p <= length c <= S (length l / p)) (split_n p l).
Proof. intros A p l Hp. split; [exact (split_shape p l Hp)|exact (split_balanced p l Hp)]. Qed.
Print Assumptions C10_split_shape.

(* a pool no larger than the batch never hands the function an empty piece; a larger pool does (numpy.array_split
   pads with empty sections), so a vectorised user function must accept an empty batch there *)
Theorem C10_split_nonempty : forall (A : Type) (p : nat) (l : list A),
  1 <= p -> p <= length l -> Forall (fun c => c <> []) (split_n p l).
Proof. exact @split_nonempty. Qed.
Print Assumptions C10_split_nonempty.

Example C10_split_empty_piece : split_n 3 [1; 2] = [[1]; [2]; []].
Proof. vm_compute. reflexivity. Qed.

(* every decision tree accepted by the checker computes map f, for every function,
   every vectorised twin that agrees with it, every order-preserving pool map,
   every input list (including the empty one), every chunk size, every pool size >= 1 *)
Theorem C10_checker_sound :
  forall (A B : Type) (f : A -> B) (fv : list A -> list B)
         (pmap : forall X Y, (X -> Y) -> list X -> list Y) (i : binputs),
    (vectorised i = true -> forall l, fv l = map f l) ->
    (forall X Y (g : X -> Y) l, pmap X Y g l = map g l) ->
    (has_pool i = true -> 1 <= n_pool i) ->
    forall (t : dtree) (l : list A),
      tree_ok t no_facts = true -> eval_tree f fv pmap t i l = map f l.
Proof. exact @checker_sound. Qed.
Print Assumptions C10_checker_sound.

Theorem C10_batch_eq_map :
  forall (A B : Type) (f : A -> B) (fv : list A -> list B)
         (pmap : forall X Y, (X -> Y) -> list X -> list Y) (i : binputs),
    (vectorised i = true -> forall l, fv l = map f l) ->
    (forall X Y (g : X -> Y) l, pmap X Y g l = map g l) ->
    (has_pool i = true -> 1 <= n_pool i) ->
    forall l : list A, eval_tree f fv pmap batch_tree i l = map f l.
Proof.
  intros A B f fv pmap i H1 H2 H3 l.
  exact (checker_sound f fv pmap i H1 H2 H3 batch_tree l batch_tree_ok).
Qed.
Print Assumptions C10_batch_eq_map.

(* the agreement hypothesis is needed: a function flagged as vectorised that does not return one
   value per point of the batch it is handed is not repaired by the evaluation *)
Theorem C10_vectorised_twin_needed_refuted :
  exists (fv : list nat -> list nat) i l, vectorised i = true /\
     eval_tree (fun x : nat => x) fv (fun X Y g l => map g l) batch_tree i l <> map (fun x => x) l.
Proof.
  exists (fun _ => [0]), {| has_pool := false; vectorised := true; chunksize := 0; n_pool := 0 |}, [1;2;3].
  vm_compute. split; [reflexivity|discriminate].
Qed.
Print Assumptions C10_vectorised_twin_needed_refuted.

(* unit-hypercube mode: the function is evaluated at the mapped physical points *)
Theorem C10_unit_cube :
  forall (U A B : Type) (from_unit : U -> A) (f : A -> B) (fv : list A -> list B)
         (pmap : forall X Y, (X -> Y) -> list X -> list Y) (i : binputs),
    (vectorised i = true -> forall l, fv l = map f l) ->
    (forall X Y (g : X -> Y) l, pmap X Y g l = map g l) ->
    (has_pool i = true -> 1 <= n_pool i) ->
    forall l : list U,
      eval_tree f fv pmap batch_tree i (map from_unit l) = map (fun u => f (from_unit u)) l.
Proof.
  intros U A B from_unit f fv pmap i H1 H2 H3 l.
  rewrite (checker_sound f fv pmap i H1 H2 H3 batch_tree _ batch_tree_ok).
  exact (map_map from_unit f l).
Qed.
Print Assumptions C10_unit_cube.

(* the counter grows by exactly the batch length, once, whatever the number of chunks *)
Theorem C10_counter :
  forall effs, counter_ok effs = true ->
  forall nchunks len c, counter_run nchunks len effs c = c + len.
Proof. exact counter_sound. Qed.
Print Assumptions C10_counter.

(* and the checker raises no false alarm on a single counting statement: whatever it rejects
   (one per call, one per chunk, none) gives the wrong total for some batch *)
Theorem C10_counter_single_complete : forall e : ceff, counter_ok [e] = false ->
  exists nchunks len c, counter_run nchunks len [e] c <> c + len.
Proof. exact counter_single_complete. Qed.
Print Assumptions C10_counter_single_complete.

(* Model.batch_evaluate_log_likelihood / _log_prior / _log_prior_unit_hypercube: for every call table
   accepted by the checker (function, vectorisation flag and pool wrapper all belong to the SAME user
   function), each method returns that function applied to every point, in order *)
Theorem C10_model_calls :
  forall (A B : Type) (fs : fid -> A -> B) (fvs : fid -> list A -> list B) (vect : fid -> bool)
         (pmap : forall X Y, (X -> Y) -> list X -> list Y),
    (forall k, vect k = true -> forall l, fvs k l = map (fs k) l) ->
    (forall X Y (g : X -> Y) l, pmap X Y g l = map g l) ->
    forall cs t, calls_ok cs = true -> tree_ok t no_facts = true ->
    forall want c, In (want, c) cs -> forall pool k np l, (pool = true -> 1 <= np) ->
      eval_mcall fs fvs vect pmap t c pool k np l = map (fs want) l.
Proof. exact @calls_sound. Qed.
Print Assumptions C10_model_calls.

(* a call table that pairs the unit-hypercube prior with the flag of the ordinary prior is rejected *)
Example C10_wrong_flag_rejected :
  calls_ok [(FLik, {| m_func := FLik; m_flag := FLik; m_wrapper := FLik; m_unit_map := true; m_counts := true |});
            (FPrior, {| m_func := FPrior; m_flag := FPrior; m_wrapper := FPrior; m_unit_map := true; m_counts := false |});
            (FPriorUH, {| m_func := FPriorUH; m_flag := FPrior; m_wrapper := FPriorUH; m_unit_map := false; m_counts := false |})]
  = false.
Proof. vm_compute. reflexivity. Qed.

(* non-vacuity: the hypotheses are met by a concrete non-trivial configuration *)
Example C10_nonvacuous :
  let i := {| has_pool := true; vectorised := true; chunksize := 3; n_pool := 2 |} in
  eval_tree (fun x => x * x) (map (fun x => x * x)) (fun X Y g l => map g l) batch_tree i
            [1;2;3;4;5;6;7] = [1;4;9;16;25;36;49]
  /\ chunks 3 [1;2;3;4;5;6;7] = [[1;2;3];[4;5;6];[7]]
  /\ split_n 3 [1;2;3;4;5;6;7] = [[1;2;3];[4;5];[6;7]]
  /\ chunks 3 (@nil nat) = [[]].
Proof. vm_compute. repeat split. Qed.
