(* C20 - property theorems.  Statements, [exact], [Print Assumptions]; nothing else. *)
From Coq Require Import List ZArith Bool String Arith.
Import ListNotations.
From NessaiV Require Import Model.C20_Options Proofs.C20_Options_proofs.
Local Open Scope Z_scope.

(* (i) FlowProposal.populate, rejection-per-batch branch: if every pass through the loop accepts at
   least one point (the progress hypothesis, monitored in real runs) the loop returns within N passes,
   i.e. within N * drawsize proposal draws. *)
Theorem C20_populate_terminates :
  forall N d m s fuel, 0 <= N -> 0 <= d ->
    (forall j, b_empty (s j) = false /\ 1 <= b_acc (s j)) -> (Z.to_nat N <= fuel)%nat ->
    exists k a p, populate0 fuel false N d m s = Done k a p
                  /\ (k <= Z.to_nat N)%nat /\ p = Z.of_nat k * d /\ p <= N * d /\ N <= a.
Proof. exact populate_terminates. Qed.
Print Assumptions C20_populate_terminates.

(* accumulate_weights = True: bounded by the max_samples guard whatever is accepted, provided no pass
   is skipped by the `continue` that precedes the guard *)
Theorem C20_populate_accumulate_bounded :
  forall N d m s fuel, 1 <= d -> 0 <= m -> (forall j, b_empty (s j) = false) -> (Z.to_nat m + 1 <= fuel)%nat ->
    exists k a p, populate0 fuel true N d m s = Done k a p /\ (k <= Z.to_nat m + 1)%nat /\ p <= m + d.
Proof. exact populate_accumulate_bounded. Qed.
Print Assumptions C20_populate_accumulate_bounded.

(* ... and without the hypothesis the loop never ends: a stream of batches in which nothing is
   accepted (NaN weights, everything outside the bounds) exhausts every fuel - no max_samples guard
   exists on the branch taken when accumulate_weights = False *)
Theorem C20_populate_can_spin_refuted :
  forall N d m, 1 <= N -> exists s, forall fuel, populate0 fuel false N d m s = OutOfFuel.
Proof. exact populate_can_spin. Qed.
Print Assumptions C20_populate_can_spin_refuted.

(* even with accumulate_weights = True: a pass in which truncate_log_q discards every sample
   `continue`s before the max_samples test *)
Theorem C20_populate_accumulate_can_spin_refuted :
  forall N d m, 1 <= N -> exists s, forall fuel, populate0 fuel true N d m s = OutOfFuel.
Proof. exact populate_can_spin_accumulate. Qed.
Print Assumptions C20_populate_accumulate_can_spin_refuted.

(* ImportanceFlowProposal.draw: the twin statements *)
Theorem C20_ins_draw_terminates :
  forall n nd s fuel, 0 <= n -> 0 <= nd -> (forall j, 1 <= s j) -> (Z.to_nat n <= fuel)%nat ->
    exists k a p, ins_draw0 fuel n nd s = Done k a p
                  /\ (k <= Z.to_nat n)%nat /\ p = Z.of_nat k * nd /\ p <= n * nd /\ (n <= a \/ nd <= 0).
Proof. exact ins_draw_terminates. Qed.
Print Assumptions C20_ins_draw_terminates.

Theorem C20_ins_draw_can_spin_refuted :
  forall n nd, 1 <= n -> 1 <= nd -> exists s, forall fuel, ins_draw0 fuel n nd s = OutOfFuel.
Proof. exact ins_draw_can_spin. Qed.
Print Assumptions C20_ins_draw_can_spin_refuted.

(* (ii) every event list accepted by the pipeline checker has, for each required pair (validator a,
   event b), an occurrence of a that lies strictly before every occurrence of b (b = the construction
   of the proposal / the first likelihood-evaluating step): the rejecting branches of a have all been
   passed before b is reached *)
Theorem C20_validate_before_sampling :
  forall req l, pipeline_ok req l = true ->
    forall a b, In (a, b) req ->
      exists i, nth_error l i = Some a /\ forall j, nth_error l j = Some b -> (i < j)%nat.
Proof. exact pipeline_sound. Qed.
Print Assumptions C20_validate_before_sampling.

(* what the validators let through *)
Theorem C20_check_configuration :
  forall min_s min_r max_s nlive,
    check_configuration min_s min_r max_s nlive = Accept <->
    (min_s <= nlive /\ min_r <= nlive /\ (max_s = 0 \/ nlive < max_s)).
Proof. exact check_configuration_spec. Qed.
Print Assumptions C20_check_configuration.

Theorem C20_configure_stopping :
  forall aliases req n_tol cc cs b, configure_stopping aliases req n_tol cc = SCok cs b ->
    cs <> [] /\ List.length cs = n_tol /\ ((cc = "any"%string /\ b = true) \/ (cc = "all"%string /\ b = false))
    /\ (forall c, In c cs -> exists r al, In r req /\ In (c, al) aliases /\ In r al).
Proof. exact configure_stopping_spec. Qed.
Print Assumptions C20_configure_stopping.

Theorem C20_get_flow_proposal_class :
  forall base ext s c, get_flow_proposal_class base ext (PCstr s) = PCclass c -> In (s, c) base.
Proof. exact get_flow_proposal_class_spec. Qed.
Print Assumptions C20_get_flow_proposal_class.

(* check_proposal_kwargs: what reaches the constructor contains only names the class takes (and all
   of those the user gave); a rejection exhibits a name the class does not take *)
Theorem C20_check_proposal_kwargs :
  forall class_keys allowed keys strict,
    match check_proposal_kwargs class_keys allowed keys strict with
    | CPKok kept => (forall k, In k kept -> In k class_keys /\ In k keys)
                    /\ (forall k, In k keys -> In k class_keys -> In k kept)
    | CPKerr _ => exists k, In k keys /\ ~ In k class_keys
    end.
Proof. exact check_proposal_kwargs_spec. Qed.
Print Assumptions C20_check_proposal_kwargs.

Theorem C20_training_noise :
  forall tg sk b, update_training_noise tg sk = TCok b ->
    (sk = 0%nat \/ sk = 1%nat) /\ (tg = true -> sk = 1%nat) /\ (b = true <-> (tg = true \/ sk = 1%nat)).
Proof. exact training_noise_spec. Qed.
Print Assumptions C20_training_noise.

(* (iii) soundness of the call-table checker: for every table it accepts, at no modelled call site
   does binding the arguments to any candidate callee raise TypeError (unexpected keyword, too many
   positional arguments, multiple values, missing argument), and no modelled attribute read names an
   attribute bound nowhere in the family of the receiver's class *)
Theorem C20_calls_well_formed_sound :
  forall t, calls_well_formed t = true ->
    (forall c, In c (t_calls t) -> forall i, In i (c_sigs c) ->
        exists s, nth_error (t_sigs t) i = Some s /\ ~ type_error s c)
    /\ (forall c a, In (c, a) (t_reads t) -> attr_bound (t_classes t) (t_ext t) c a).
Proof. exact calls_well_formed_sound. Qed.
Print Assumptions C20_calls_well_formed_sound.

(* the explanation output is exact, and what it reports is a real binding error / unbound name *)
Theorem C20_failing_exact :
  forall t, (failing_calls t = [] /\ failing_reads t = []) <-> calls_well_formed t = true.
Proof. exact failing_exact. Qed.
Print Assumptions C20_failing_exact.

Theorem C20_reported_call_is_type_error : forall s c, bind_ok s c = false -> type_error s c.
Proof. exact bind_ok_complete. Qed.
Print Assumptions C20_reported_call_is_type_error.

Theorem C20_reported_read_is_unbound :
  forall classes ext c a, read_ok classes ext (c, a) = false -> ~ attr_bound classes ext c a.
Proof. exact reported_read_unbound. Qed.
Print Assumptions C20_reported_read_is_unbound.

(* (iv) FlowModel.prep_data: every configuration that is not rejected reaches the two DataLoaders with a
   training batch size >= 2 and a validation batch size that is None or positive - for EVERY
   validation-batch-size expression (the regenerated one is plugged in on each run) *)
Theorem C20_loader_batch_sizes :
  forall vbs n_train n_val s b v, data_loaders vbs n_train n_val s = Some (b, v) ->
    match s with BSint b0 => 1 <= b0 | BSall => 1 <= n_train | BSother => True end ->
    2 <= b /\ loader_ok v.
Proof. exact loader_batch_sizes. Qed.
Print Assumptions C20_loader_batch_sizes.

(* ... and an expression that meets P_val_loader (today lemma) never makes the loader reject a
   configuration that check_batch_size accepted: no failure at the first training *)
Theorem C20_loader_never_rejects :
  forall vbs, P_val_loader vbs -> forall n_train n_val s b,
    resolve_batch_size s n_train = Some b -> 1 <= b -> 0 <= n_val ->
    forall b', check_batch_size n_train b = Some b' -> data_loaders vbs n_train n_val s = Some (b', vbs n_val b').
Proof. exact loader_never_rejects. Qed.
Print Assumptions C20_loader_never_rejects.

Theorem C20_check_batch_size : forall n bs b, check_batch_size n bs = Some b -> 1 <= bs -> 2 <= b /\ b <= bs.
Proof. exact check_batch_size_bounds. Qed.
Print Assumptions C20_check_batch_size.

(* (v) one pass of the population loop: for every set of paths accepted by the checker, whatever the
   sizes left by the shrinking steps (backward pass, truncation), no reduction (max / nanmax ...) is ever
   applied to an empty batch *)
Theorem C20_reductions_guarded :
  forall ps, paths_guarded ps = true -> forall p, In p ps -> forall size o, exec_pass p size o 0%nat <> RError.
Proof. exact reductions_guarded. Qed.
Print Assumptions C20_reductions_guarded.

Theorem C20_unguarded_reduction_refuted : exists o, exec_pass [LShrink; LReduce] 5%nat o 0%nat = RError.
Proof. exact unguarded_fails. Qed.
Print Assumptions C20_unguarded_reduction_refuted.

(* non-vacuity *)
Example C20_nonvacuous_loops :
  populate0 10 false 5 4 100 (stream_of (mkBatch false false 0) [mkBatch false false 2; mkBatch true false 0; mkBatch false false 3]) = Done 3 5 12
  /\ populate0 10 true 5 4 9 (stream_of (mkBatch false false 0) [mkBatch false false 0; mkBatch false true 3; mkBatch false true 4]) = Done 3 4 12
  /\ ins_draw0 10 5 5 (stream_of 0 [2; 0; 4]) = Done 3 6 15
  /\ populate0 1000 false 5 4 100 stuck = OutOfFuel.
Proof. vm_compute. repeat split. Qed.

Example C20_nonvacuous_loaders :
  data_loaders val_batch_size 45 5 (BSint 1000) = Some (100, Some 5)
  /\ data_loaders val_batch_size 50 0 BSall = Some (50, None)
  /\ data_loaders (fun n b => Some (Z.min n b)) 50 0 BSall = None
  /\ check_batch_size 103 100 = Some 93 /\ check_batch_size 10 1 = None
  /\ paths_guarded [[LShrink; LGuard; LReduce]; [LShrink; LShrink; LGuard; LReduce; LReduce]] = true
  /\ paths_guarded [[LShrink; LShrink; LGuard; LReduce]; [LShrink; LReduce]] = false.
Proof. vm_compute. repeat split. Qed.

Local Open Scope string_scope.
Example C20_nonvacuous_calls :
  let s := mkSig ["output"; "flow_config"; "training_config"] 0 [] [] false false in
  bind_ok s (mkCall [0%nat] 0 false ["output"; "config"] false) = false
  /\ bind_ok s (mkCall [0%nat] 0 false ["output"; "flow_config"] false) = true
  /\ read_ok [mkCls "A" ["x"] ["A"; "B"]; mkCls "B" ["y"] ["B"]] [] ("A", "y") = true
  /\ read_ok [mkCls "A" ["x"] ["A"; "B"]; mkCls "B" ["y"] ["B"]] [] ("A", "z") = false
  /\ pipeline_ok [(PValidate "v", PSample "s")] [PValidate "v"; PConstruct "c"; PSample "s"] = true
  /\ pipeline_ok [(PValidate "v", PSample "s")] [PSample "s"; PValidate "v"] = false.
Proof. vm_compute. repeat split. Qed.
