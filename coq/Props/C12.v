(* C12 - property theorems.  Statements, [exact], [Print Assumptions]; nothing else. *)
From Coq Require Import List String Bool ZArith.
Import ListNotations.
From NessaiV Require Import Model.C12_Resume Proofs.C12_Resume_proofs.
Open Scope string_scope.

(* For EVERY class skeleton (fields, dropped keys, overwritten keys, carried objects, re-attached
   and re-derived attributes), every classification accepted by fields_ok, every object, every
   value __getstate__ computes for its own keys, every resuming environment: pickling, unpickling
   and resuming gives back every result-bearing and derived field (derived ones under the
   hypothesis that what resume recomputes is what the object held: the density tables are a
   function of samples and flows). *)
Theorem C12_roundtrip :
  forall (V : Type) (sk : skel) (cls : field -> fclass),
    fields_ok sk cls = true ->
  forall (ov env : field -> option V) (drv : obj V -> field -> option V) (o : obj V),
    (forall f, In f (sk_fields sk) -> cls f = Derived -> fmem f (sk_rederive sk) = true ->
               drv (getstate V sk ov o) f = o f) ->
  forall f, In f (sk_fields sk) ->
    result_view V cls (resume V sk env drv (setstate V (getstate V sk ov o))) f = result_view V cls o f.
Proof. exact roundtrip_view. Qed.
Print Assumptions C12_roundtrip.

(* An invariant that only reads result-bearing / derived fields (C01 live set, C03/C04 sample
   store) and is preserved by running the sampler holds after ANY number of run / checkpoint /
   kill / resume cycles of any lengths. *)
Theorem C12_resumed_valid :
  forall (V : Type) (sk : skel) (cls : field -> fclass)
         (ov : obj V -> field -> option V) (env : field -> option V)
         (drv : obj V -> field -> option V) (run : obj V -> nat -> obj V) (Inv : obj V -> Prop),
    (forall o o', (forall f, In f (sk_fields sk) -> result_view V cls o f = result_view V cls o' f) ->
                  Inv o' -> Inv o) ->
    (forall o n, Inv o -> Inv (run o n)) ->
    (forall o n f, In f (sk_fields sk) -> cls f = Derived -> fmem f (sk_rederive sk) = true ->
                   drv (getstate V sk (ov (run o n)) (run o n)) f = run o n f) ->
    fields_ok sk cls = true ->
  forall (ns : list nat) (o : obj V), Inv o ->
    Inv (fold_left (fun o n => resume V sk env drv (setstate V (getstate V sk (ov (run o n)) (run o n)))) ns o).
Proof.
  intros V sk cls ov env drv run Inv H1 H2 H3 Hok ns o Ho.
  exact (resumed_valid V sk cls ov env drv run Inv H1 H2 (fun o n f a b c => H3 o n f a b c) Hok ns o Ho).
Qed.
Print Assumptions C12_resumed_valid.

(* Evaluation counts and times are cumulative over any chain of processes: each process's model
   object has counted m0 evaluations of its own before the resume and makes d more afterwards;
   the count saved by the last checkpoint is the sum of all of them - neither reset nor doubled -
   for every effect list accepted by counter_ok (exactly one `+= saved`, no assignment). *)
Theorem C12_counters :
  forall effs, counter_ok effs = true ->
  forall segs : list (Z * Z),
    fold_left (fun saved seg => (resume_count effs (fst seg) saved + snd seg)%Z) segs 0%Z
    = fold_left (fun a s => (a + fst s + snd s)%Z) segs 0%Z.
Proof. exact counters. Qed.
Print Assumptions C12_counters.

(* assigning the saved count instead of adding it loses evaluations *)
Theorem C12_counters_assigned_refuted : exists segs, chain [CSetSaved] segs <> total segs.
Proof. exact counters_assigned_refuted. Qed.
Print Assumptions C12_counters_assigned_refuted.

(* the hypothesis "the resuming process starts from a fresh model object" is needed: re-using a
   model object that already carries the count doubles it *)
Theorem C12_counters_reused_model_refuted :
  exists ds, chain_reused counter_today ds <> fold_left Z.add ds 0%Z.
Proof. exact counters_reused_model_refuted. Qed.
Print Assumptions C12_counters_reused_model_refuted.

Theorem C12_today_hand :
  fields_ok sk_base_sampler_today cls_sampler = true
  /\ fields_ok sk_ordered_samples_today cls_samples = true
  /\ counter_ok counter_today = true.
Proof. destruct sk_today_ok as [A B]. exact (conj A (conj B counter_today_ok)). Qed.
Print Assumptions C12_today_hand.

(* The first checkpoint(s) a RESUMED standard sampler writes - in particular one written at loop entry,
   before any new iteration - record the pool flag the checkpoint resumed from had, for EVERY loop
   prologue accepted by prologue_ok (no update_state before the first check_resume), every original
   flag and every pattern of periodic-checkpoint conditions: so a second resume restores the pool. *)
Theorem C12_entry_checkpoint_keeps_pool :
  forall effs, prologue_ok effs = true ->
  forall (orig : bool) (cks : list bool),
    Forall (fun note => note = orig) (p_written (prologue effs cks (after_resume_pool orig))).
Proof. exact prologue_sound. Qed.
Print Assumptions C12_entry_checkpoint_keeps_pool.

(* refuted variant: update_state() issued before check_resume() writes an entry checkpoint that says
   "pool empty" although it is populated; the next resume throws the pool away *)
Theorem C12_entry_checkpoint_swapped_refuted :
  exists cks, p_written (prologue [PSkip; PUpdateState; PCheckResume] cks (after_resume_pool true)) = [false].
Proof. exact prologue_swapped_refuted. Qed.
Print Assumptions C12_entry_checkpoint_swapped_refuted.

(* Re-deriving the density table in batches.  The table is allocated uninitialised; a batch plan is a list of
   row slices.  For EVERY plan accepted by bplan_ok (one call on all rows, or ceil(n / b) batches of b > 0
   rows), every row function, every garbage and every number of rows, evaluating in batches gives exactly
   the row-by-row table - so what resume recomputes is what the writer held (the hypothesis of
   C12_roundtrip for log_q). *)
Theorem C12_batched_rederivation :
  forall bp, bplan_ok bp = true ->
  forall (A B : Type) (d : A) (f : A -> B) (garbage : nat -> B) (l : list A),
    batch_eval d f garbage (plan_of bp (List.length l)) l = map f l.
Proof. exact bplan_sound. Qed.
Print Assumptions C12_batched_rederivation.

(* refuted variant: max(n // b, 1) batches leave the rows after the last full batch unwritten *)
Theorem C12_floor_batches_refuted :
  exists (l : list nat), batch_eval 0 (fun x => x + 100) (fun _ => 0) (plan_of (FloorBatches 2) (List.length l)) l
                         <> map (fun x => x + 100) l.
Proof. exact floor_batches_refuted. Qed.
Print Assumptions C12_floor_batches_refuted.

(* The legs of a run resumed any number of times never replay each other's random stream, for EVERY resume path
   accepted by seeding_ok (it does not seed the generators): with processes whose generator streams differ
   (OS entropy) all draws of all legs are pairwise distinct stream positions. *)
Theorem C12_legs_do_not_replay :
  forall effs, seeding_ok effs = true ->
  forall (seed : nat) (legs : list (nat * nat)), NoDup (map fst legs) -> NoDup (run_draws effs seed legs).
Proof. exact seeding_sound. Qed.
Print Assumptions C12_legs_do_not_replay.

(* refuted variant: seeding the generators from the pickled seed on resume makes every leg draw what the
   previous one drew (duplicate live / nested points in the uninformed phase) *)
Theorem C12_reseeding_refuted :
  exists legs, NoDup (map fst legs) /\ ~ NoDup (run_draws [SReseed] 1 legs).
Proof. exact reseeding_refuted. Qed.
Print Assumptions C12_reseeding_refuted.

(* non-vacuity: a result-bearing field in the exclude set is rejected, with the field named;
   a concrete object round-trips; the counter chain computes *)
Example C12_nonvacuous :
  bad_fields {| sk_fields := sk_fields sk_base_sampler_today;
                sk_excl := "nested_samples" :: sk_excl sk_base_sampler_today;
                sk_over := sk_over sk_base_sampler_today; sk_carried := [];
                sk_reattach := sk_reattach sk_base_sampler_today; sk_rederive := [] |} cls_sampler
    = ["nested_samples"]
  /\ (let o : obj nat := fun f => if String.eqb f "iteration" then Some 7 else
                                  if String.eqb f "model" then Some 1 else None in
      let o' := resume nat sk_base_sampler_today (fun f => if String.eqb f "model" then Some 2 else None)
                       (fun _ _ => None)
                       (setstate nat (getstate nat sk_base_sampler_today (fun _ => Some 99) o)) in
      o' "iteration" = Some 7 /\ o' "model" = Some 2 /\ o' "_previous_likelihood_evaluations" = Some 99)
  /\ chain counter_today [(3, 100); (3, 50); (3, 20)]%Z = 179%Z.
Proof. vm_compute. repeat split. Qed.
