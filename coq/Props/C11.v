(* C11 - property theorems.  Statements, [exact], [Print Assumptions]; nothing else. *)
From Coq Require Import List Arith Bool.
Import ListNotations.
From NessaiV Require Import Lib.FSModel Model.C11_Checkpoint
                            Proofs.C11_FS_proofs Proofs.C11_Checkpoint_proofs.

(* For EVERY op list, every payload type, every byte encoding whose complete serialisations
   decode to themselves and whose proper prefixes (and the empty file) are rejected by the
   loader, every initial directory: whatever a fresh process finds after a kill - n operations
   issued, the file open for writing cut to ANY j bytes - is classified by one of the abstract
   crash states. *)
Theorem C11_abs_sound :
  forall (P B : Type) (bytes : P -> list B) (decode : list B -> option P),
    (forall p, decode (bytes p) = Some p) ->
    (forall p j, j < length (bytes p) -> decode (firstn j (bytes p)) = None) ->
    decode [] = None ->
  forall (ops : list (fsop P)) (c0 : cstate B) (v0 : view P),
    chnd c0 = None -> (forall f, classify decode (cfs c0) f = v0 f) ->
    legal {| afs := v0; ahnd := None |} ops = true ->
  forall n j, exists v, In v (crash_states {| afs := v0; ahnd := None |} ops)
                     /\ forall f, classify decode (crash_exec bytes ops c0 n j) f = v f.
Proof.
  intros P B bytes decode H1 H2 H3 ops c0 v0 Hc Hv Hl.
  exact (abs_sound B bytes decode H1 H2 H3 ops c0 _ (sim_closed B bytes decode c0 {| afs := v0; ahnd := None |} eq_refl Hc Hv) Hl).
Qed.
Print Assumptions C11_abs_sound.

(* Crash-atomicity with respect to the reader, for EVERY op list and every reader configuration:
   if the checker accepts, then for every old and new content, every prefix of the op list and
   every cut length, every possible result of FlowSampler(resume=True) after the kill is a
   possible result of resuming before the writer started or after it finished - and never a
   failure. *)
Theorem C11_checker_sound :
  forall (B : Type) (bytes : payload -> list B) (decode : list B -> option payload),
    (forall p, decode (bytes p) = Some p) ->
    (forall p j, j < length (bytes p) -> decode (firstn j (bytes p)) = None) ->
    decode [] = None ->
  forall (rc : rcfg) (a0 : fstate) (ops : list op),
    atomic_safe rc a0 ops = true ->
  forall c0 : cstate B,
    ahnd a0 = None -> chnd c0 = None -> (forall f, classify decode (cfs c0) f = afs a0 f) ->
  forall n j o, In o (resume rc (classify decode (crash_exec bytes ops c0 n j))) ->
    o <> Fail /\ (In o (resume rc (afs a0)) \/ In o (resume rc (afs (aexec ops a0)))).
Proof. exact atomic_sound_closed. Qed.
Print Assumptions C11_checker_sound.

(* The property text, for EVERY checkpoint writer (a function from the resume-file name and the new
   payload to an op list) accepted by the checker on a family of initial directories: resuming
   after the kill loads the previous checkpoint, or the new one, or starts afresh - the latter only
   when no checkpoint had completed; it never fails and never loads a torn or older file. *)
Theorem C11_pickle_checker_sound :
  forall (B : Type) (bytes : payload -> list B) (decode : list B -> option payload),
    (forall p, decode (bytes p) = Some p) ->
    (forall p j, j < length (bytes p) -> decode (firstn j (bytes p)) = None) ->
    decode [] = None ->
  forall (rc : rcfg) (mk : writer) (scens : list scen),
    pickle_checker rc mk scens = true ->
  forall s, In s scens ->
  forall c0 : cstate B,
    ahnd (s_init s) = None -> chnd c0 = None ->
    (forall f, classify decode (cfs c0) f = afs (s_init s) f) ->
  forall n j o,
    In o (resume rc (classify decode (crash_exec bytes (mk PKL (s_new s)) c0 n j))) ->
    match o with
    | Fresh => prev_pk (afs (s_init s)) = None
    | Loaded pk _ => prev_pk (afs (s_init s)) = Some pk \/ pk = s_new s
    | Fail => False
    end.
Proof. exact pickle_checker_sound_closed. Qed.
Print Assumptions C11_pickle_checker_sound.

(* Two kills.  A kill during the checkpoint of a sampler that writes to the resume file; a fresh process
   resumes (outcome o1, unpickled from file src); the RESUMED sampler checkpoints to the file name it
   holds ([holder rh src]: the pickled name, or - if resume re-assigns it - the file that was loaded);
   a second kill during that checkpoint; a third process resumes (o2).  For EVERY writer, reader
   configuration and holder accepted by two_crash_ok, every content and both kill points: the third
   process finds a complete checkpoint no older than the one the second process found (that one or the
   new one); if nothing had ever completed it starts afresh or finds the new one.  Never a failure,
   never a silent restart. *)
Theorem C11_two_crash_sound :
  forall (B : Type) (bytes : payload -> list B) (decode : list B -> option payload),
    (forall p, decode (bytes p) = Some p) ->
    (forall p j, j < length (bytes p) -> decode (firstn j (bytes p)) = None) ->
    decode [] = None ->
  forall (rc : rcfg) (rh : rholder) (mk : writer) (s : scen) (new2 : payload),
    two_crash_ok rc rh mk s new2 = true ->
    legal (s_init s) (mk PKL (s_new s)) = true ->
  forall c0 : cstate B,
    ahnd (s_init s) = None -> chnd c0 = None -> (forall f, classify decode (cfs c0) f = afs (s_init s) f) ->
  forall n1 j1 o1 src,
    In (o1, src) (resume_src rc (classify decode (crash_exec bytes (mk PKL (s_new s)) c0 n1 j1))) ->
  forall n2 j2 o2,
    In o2 (resume rc (classify decode
            (crash_exec bytes (mk (holder rh src) new2)
               {| cfs := crash_exec bytes (mk PKL (s_new s)) c0 n1 j1; chnd := None |} n2 j2))) ->
    match o1, o2 with
    | Loaded pk1 _, Loaded pk _ => pk = pk1 \/ pk = new2
    | Fresh, Fresh => True
    | Fresh, Loaded pk _ => pk = new2
    | _, _ => False
    end.
Proof. exact two_crash_sound. Qed.
Print Assumptions C11_two_crash_sound.

(* today's hand copies pass it on every scenario of both samplers, with the resumed sampler keeping the
   pickled resume_file *)
Theorem C11_today_hand_two :
  c11_two_ok rc_today KeepPickled (safe_file_dump_ops true) (safe_file_dump_ops false) = true.
Proof. exact today_hand_two. Qed.
Print Assumptions C11_today_hand_two.

(* refuted variant: a resumed sampler that keeps checkpointing to the file it was loaded from.  After a
   resume through the .old fallback its next checkpoint moves the only good checkpoint to .old.old and
   writes .old.temp; a kill there leaves nothing check_resume looks at: silent restart from iteration 0 *)
Theorem C11_follow_loaded_refuted :
  let ops1 := safe_file_dump_ops true PKL (PkP 2 (StdW WT)) in
  let ops2 := safe_file_dump_ops true (holder FollowLoaded (Old PKL)) (PkP 3 (StdW WT)) in
  exists i k,
    i < length (crash_states clean2 ops1)
    /\ In (Loaded (PkP 1 (StdW WT)) [WtP 5], Old PKL) (resume_src rc_today (view_at clean2 ops1 i))
    /\ k < length (crash_states (closed (view_at clean2 ops1 i)) ops2)
    /\ In Fresh (resume rc_today (view_at (closed (view_at clean2 ops1 i)) ops2 k)).
Proof. exact follow_loaded_witness. Qed.
Print Assumptions C11_follow_loaded_refuted.

(* the hand-written copies of today's writers and reader pass every check:
   safe_file_dump with and without save_existing, on the directories of both samplers (resume
   file / .old / stale .temp each absent, torn or complete; weights clean or as a previous kill
   left them), FlowModel.save_weights from clean directories, ImportanceFlowModel.save_weights
   with level n absent, torn or stale *)
Theorem C11_today_hand :
  c11_ok rc_today (safe_file_dump_ops true) (safe_file_dump_ops false)
         save_weights_ops save_weights_ops = true.
Proof. exact today_hand. Qed.
Print Assumptions C11_today_hand.

(* D3, repaired in /repo: with FlowProposal.resume as it was before the fallback to model.pt.old,
   a kill inside torch.save of FlowModel.save_weights leaves a directory whose resume fails *)
Theorem C11_weights_before_fix_refuted :
  exists i, i < length (crash_states clean2 (save_weights_ops WT (WtP 6)))
         /\ In Fail (resume rc_before_fix (view_at clean2 (save_weights_ops WT (WtP 6)) i)).
Proof. exact before_fix_refuted. Qed.
Print Assumptions C11_weights_before_fix_refuted.

(* defect of the reader between the two weights commits (rc_fallback_only_short; repaired in /repo by
   "FlowProposal.resume removes a damaged weights file ... and catches UnpicklingError"; kept as a
   regression witness): torch.load raises UnpicklingError on a model.pt
   of 1-3 bytes (shorter than the zip magic); the fallback only catches EOFError, OSError and
   RuntimeError, so with that exception class in the oracle the same kill fails the resume *)
Theorem C11_weights_short_prefix_refuted :
  exists i, i < length (crash_states clean2 (save_weights_ops WT (WtP 6)))
         /\ In Fail (resume rc_fallback_only_short (view_at clean2 (save_weights_ops WT (WtP 6)) i)).
Proof. exact short_prefix_refuted. Qed.
Print Assumptions C11_weights_short_prefix_refuted.

(* defect of the same intermediate reader (rc_fallback_only; repaired by the same commit, regression
   witness): a kill inside torch.save is survived through
   the fallback, but the torn model.pt stays; the NEXT save_weights rotates it over the only good
   copy, and a second kill inside that torch.save leaves no resumable checkpoint *)
Theorem C11_weights_second_kill_refuted :
  let ops1 := save_weights_ops WT (WtP 6) in
  let ops2 := save_weights_ops WT (WtP 7) in
  exists i k,
    i < length (crash_states clean2 ops1)
    /\ (forall o, In o (resume rc_fallback_only (view_at clean2 ops1 i)) -> o = Loaded (PkP 1 (StdW WT)) [WtP 5])
    /\ k < length (crash_states (closed (view_at clean2 ops1 i)) ops2)
    /\ In Fail (resume rc_fallback_only (view_at (closed (view_at clean2 ops1 i)) ops2 k)).
Proof. exact second_kill_refuted. Qed.
Print Assumptions C11_weights_second_kill_refuted.

(* ... and today's reader (which removes the damaged model.pt once the fallback has loaded) repairs it:
   from EVERY directory a kill inside save_weights can leave, followed by a resume, the next
   save_weights is crash-atomic again *)
Theorem C11_weights_second_kill_repaired :
  forallb (fun v1 => atomic_safe rc_today (closed (after_resume rc_today v1)) (save_weights_ops WT (WtP 7)))
          (crash_states clean2 (save_weights_ops WT (WtP 6))) = true.
Proof. exact second_kill_repaired. Qed.
Print Assumptions C11_weights_second_kill_repaired.

(* "Sampling can continue."  A training = directory creation + weights save (an op list over mkdir with /
   without exist_ok, guarded mkdir, and the file operations).  For EVERY training op list accepted by
   train_reusable, every content, every kill point (n training operations issued, open file cut at j):
   in the directory the kill leaves - stale level / block directory, partial weights file, .old copy -
   every operation of the same training, which the resumed sampler issues again, is enabled. *)
Theorem C11_train_reusable_sound :
  forall (B : Type) (bytes : payload -> list B) (decode : list B -> option payload),
    (forall p, decode (bytes p) = Some p) ->
    (forall p j, j < length (bytes p) -> decode (firstn j (bytes p)) = None) ->
    decode [] = None ->
  forall (tops : list top) (a0 : fstate) (d0 : dset),
    train_reusable a0 d0 tops = true ->
  forall c0 : cstate B,
    ahnd a0 = None -> chnd c0 = None -> (forall f, classify decode (cfs c0) f = afs a0 f) ->
  forall n j, exists v,
    (forall f, classify decode (cview (cexec bytes (tfiles (firstn n tops)) c0) j) f = v f)
    /\ run_ok (closed v) (dexec (firstn n tops) d0) tops = true.
Proof.
  intros B bytes decode H1 H2 H3 tops a0 d0 Hok c0 Ha Hc Hv.
  exact (train_reusable_sound B bytes decode H1 H2 H3 tops a0 d0 Hok c0 (sim_closed B bytes decode c0 a0 Ha Hc Hv)).
Qed.
Print Assumptions C11_train_reusable_sound.

(* today's trainings (guarded makedirs in ImportanceFlowProposal.train / FlowProposal.train, exist_ok in
   FlowModel.train, then save_weights) pass: importance-sampler levels 0..3 with level n absent / torn /
   stale and the directory absent / present, standard-sampler blocks 0..2 *)
Theorem C11_train_today_reusable : train_reusable_all train_ops_today = true.
Proof. exact train_today_reusable. Qed.
Print Assumptions C11_train_today_reusable.

(* refuted variant: a bare os.makedirs(level_output).  The first run is fine; killed once the directory
   exists, the retraining raises FileExistsError - on every later resume too *)
Theorem C11_train_bare_mkdir_refuted :
  let tops := train_ops_bare_mkdir (DLvl 0) (Base (Lvl 0)) (WtP 6) in
  run_ok (closed empty_fs) no_dirs tops = true
  /\ exists i, i < length (tcrash (closed empty_fs) no_dirs tops)
       /\ (let vd := nth i (tcrash (closed empty_fs) no_dirs tops) (empty_fs, no_dirs) in
           run_ok (closed (fst vd)) (snd vd) tops = false).
Proof. exact train_bare_mkdir_refuted. Qed.
Print Assumptions C11_train_bare_mkdir_refuted.

(* non-vacuity: the decoder hypotheses are satisfiable, the families are not empty, and the
   concrete semantics does what one expects on safe_file_dump(save_existing=True) *)
Definition ex_bytes (p : payload) : list (payload + unit) := [inl p; inr tt].
Definition ex_decode (l : list (payload + unit)) : option payload :=
  match l with [inl p; inr tt] => Some p | _ => None end.
Definition ex_c0 : cstate (payload + unit) :=
  {| cfs := fun f => if fname_eqb f PKL then Some (ex_bytes (PkP 1 NoW)) else None; chnd := None |}.
Example C11_nonvacuous :
  (forall p, ex_decode (ex_bytes p) = Some p)
  /\ (forall p j, j < length (ex_bytes p) -> ex_decode (firstn j (ex_bytes p)) = None)
  /\ ex_decode [] = None
  /\ length std_pickle_scens = 117 /\ length ins_pickle_scens = 279
  /\ length std_weights_scens = 30 /\ length ins_weights_scens = 93
  /\ (* kill inside the write of the temp file: old checkpoint is in .old, temp is torn *)
     (let fs := crash_exec ex_bytes (safe_file_dump_ops true PKL (PkP 2 NoW)) ex_c0 3 1 in
      fs PKL = None /\ fs (Old PKL) = Some (ex_bytes (PkP 1 NoW)) /\ fs (Temp PKL) = Some [inl (PkP 2 NoW)]
      /\ resume rc_today (classify ex_decode fs) = [Loaded (PkP 1 NoW) []])
  /\ (* all five operations issued *)
     (let fs := crash_exec ex_bytes (safe_file_dump_ops true PKL (PkP 2 NoW)) ex_c0 5 0 in
      resume rc_today (classify ex_decode fs) = [Loaded (PkP 2 NoW) []]).
Proof.
  split; [reflexivity|]. split.
  - intros p [|[|j]] H; simpl in *; try reflexivity. exfalso.
    apply Nat.succ_lt_mono in H. apply Nat.succ_lt_mono in H. exact (Nat.nlt_0_r _ H).
  - repeat split; vm_compute; reflexivity.
Qed.
