(* C14 - property theorems.  Statements, [exact], [Print Assumptions]; nothing else. *)
From Coq Require Import String.
From Coq Require Import List Arith Bool.
Import ListNotations.
From NessaiV Require Import Model.C10_Batch Proofs.C10_Batch_proofs Model.C14_Repro Proofs.C14_Repro_proofs.

(* Corollary of C10 (C10_batch_eq_map / C10_checker_sound): for every sampler program, both random
   streams, every user function f, and any two parallelisation settings - pool or none, own or
   user-supplied pool (any order-preserving map), any pool size >= 1, any chunk size, vectorised or
   not - every value handed back to the sampler, hence the whole run (output, draws consumed,
   evaluation count), is the same. *)
Theorem C14_par_independent :
  forall (A B Rn Rt Out : Type) (f : A -> B)
         (fv1 : list A -> list B) (pmap1 : forall X Y, (X -> Y) -> list X -> list Y) (i1 : binputs)
         (fv2 : list A -> list B) (pmap2 : forall X Y, (X -> Y) -> list X -> list Y) (i2 : binputs),
    settings_ok A B f fv1 pmap1 i1 -> settings_ok A B f fv2 pmap2 i2 ->
    forall (p : prog A B Rn Rt Out) (sn : list Rn) (st : list Rt),
      run (eval_tree f fv1 pmap1 batch_tree i1) p sn st = run (eval_tree f fv2 pmap2 batch_tree i2) p sn st.
Proof. exact par_independent. Qed.
Print Assumptions C14_par_independent.

(* the same for ANY pair of decision trees accepted by C10's checker (the regenerated tree of today) *)
Theorem C14_par_independent_any_tree :
  forall (A B Rn Rt Out : Type) (f : A -> B) (t1 t2 : dtree)
         (fv1 : list A -> list B) (pmap1 : forall X Y, (X -> Y) -> list X -> list Y) (i1 : binputs)
         (fv2 : list A -> list B) (pmap2 : forall X Y, (X -> Y) -> list X -> list Y) (i2 : binputs),
    tree_ok t1 no_facts = true -> tree_ok t2 no_facts = true ->
    settings_ok A B f fv1 pmap1 i1 -> settings_ok A B f fv2 pmap2 i2 ->
    forall (p : prog A B Rn Rt Out) (sn : list Rn) (st : list Rt),
      run (eval_tree f fv1 pmap1 t1 i1) p sn st = run (eval_tree f fv2 pmap2 t2 i2) p sn st.
Proof. exact par_independent_tree. Qed.
Print Assumptions C14_par_independent_any_tree.

(* the run is a function of (program, evaluator, streams); more precisely of the PREFIXES of the two
   streams that it consumes: two executions whose generators agree that far are equal *)
Theorem C14_function_of_seed_stream :
  forall (A B Rn Rt Out : Type) (ev : list A -> list B) (p : prog A B Rn Rt Out)
         (sn : list Rn) (st : list Rt) (o : Out) (a b e : nat),
    run ev p sn st = Some (o, a, b, e) ->
    forall (sn' : list Rn) (st' : list Rt),
      firstn a sn' = firstn a sn -> firstn b st' = firstn b st ->
      length sn' >= a -> length st' >= b ->
      run ev p sn' st' = Some (o, a, b, e).
Proof. exact run_prefix. Qed.
Print Assumptions C14_function_of_seed_stream.

(* seeded runs: the generators are functions of the seed (oracles gn, gt); same seed, any two
   parallelisation settings -> same run *)
Theorem C14_seeded_runs_equal :
  forall (A B Rn Rt Out Seed : Type) (gn : Seed -> list Rn) (gt : Seed -> list Rt) (f : A -> B)
         (fv1 : list A -> list B) (pmap1 : forall X Y, (X -> Y) -> list X -> list Y) (i1 : binputs)
         (fv2 : list A -> list B) (pmap2 : forall X Y, (X -> Y) -> list X -> list Y) (i2 : binputs),
    settings_ok A B f fv1 pmap1 i1 -> settings_ok A B f fv2 pmap2 i2 ->
    forall (p : prog A B Rn Rt Out) (s : Seed),
      run (eval_tree f fv1 pmap1 batch_tree i1) p (gn s) (gt s)
      = run (eval_tree f fv2 pmap2 batch_tree i2) p (gn s) (gt s).
Proof.
  intros A B Rn Rt Out Seed gn gt f fv1 pmap1 i1 fv2 pmap2 i2 H1 H2 p s.
  exact (par_independent A B Rn Rt Out f fv1 pmap1 i1 fv2 pmap2 i2 H1 H2 p (gn s) (gt s)).
Qed.
Print Assumptions C14_seeded_runs_equal.

(* the usage-table checker is sound: an accepted table has only seeded-global (or explicitly seeded)
   randomness, seeds both generators in configure_random_seed (called by the constructor), iterates over
   sets only into order-insensitive sinks, and reads the parallelisation attributes only inside the
   modelled call sites *)
Theorem C14_rng_confined_sound :
  forall (allowed : list string) (seed_s init_s : string) (t : list entry),
    rng_confined allowed seed_s init_s t = true -> Confined allowed seed_s init_s t.
Proof. exact rng_confined_sound. Qed.
Print Assumptions C14_rng_confined_sound.

(* non-vacuity: a two-step program; settings with / without pool agree; an unseeded default_rng is rejected *)
Example C14_nonvacuous :
  let p : prog nat nat nat nat (list nat) :=
    DrawNp (fun r => Eval [r; r + 1; r + 2] (fun l1 => DrawTorch (fun q => Eval [q] (fun l2 => Ret (l1 ++ l2))))) in
  let f := fun x => x * x in
  let i1 := {| has_pool := false; vectorised := false; chunksize := 0; n_pool := 0 |} in
  let i2 := {| has_pool := true; vectorised := true; chunksize := 2; n_pool := 3 |} in
  run (eval_tree f (map f) (fun X Y g l => map g l) batch_tree i1) p [3; 9] [5] = Some ([9; 16; 25; 25], 1, 1, 4)
  /\ run (eval_tree f (map f) (fun X Y g l => map g l) batch_tree i2) p [3; 9] [5] = Some ([9; 16; 25; 25], 1, 1, 4)
  /\ rng_confined pool_sites seed_site init_site
       [ERand seed_site SeedNumpy; ERand seed_site SeedTorch; ESeedCall init_site;
        ERand "proposal/x.py::P.draw"%string NumpyGlobal] = true
  /\ rng_confined pool_sites seed_site init_site
       [ERand seed_site SeedNumpy; ERand seed_site SeedTorch; ESeedCall init_site;
        ERand "proposal/x.py::P.draw"%string (DefaultRng false)] = false
  /\ rng_confined pool_sites seed_site init_site
       [ESeedGuard seed_site GIsNone; ERand seed_site SeedFromNumpy; ERand seed_site SeedNumpy;
        ERand seed_site SeedTorch; ESeedCall init_site] = true
  /\ rng_confined pool_sites seed_site init_site
       [ESeedGuard seed_site GTruthiness; ERand seed_site SeedFromNumpy; ERand seed_site SeedNumpy;
        ERand seed_site SeedTorch; ESeedCall init_site] = false
  /\ rng_confined pool_sites seed_site init_site
       [ERand seed_site SeedNumpy; ERand seed_site SeedTorch; ESeedCall init_site;
        EEnvGuardedDraw "proposal/x.py::P.plot"%string "os.path.exists"%string] = false.
Proof. vm_compute. repeat split. Qed.
