(* C05 - property theorems.  Statements, [exact], [Print Assumptions]; nothing else. *)
From Coq Require Import Reals ZArith List Bool Arith Permutation.
From NessaiV Require Model.C03_Meta.
From NessaiV Require Import Lib.Enclose Lib.Effects Model.C01_LiveSet Proofs.C01_LiveSet_proofs
     Model.C02_Quadrature Model.C05_Results
     Proofs.C05_Results_proofs Proofs.C05_Counts_proofs Proofs.C05_InsCount_proofs Proofs.C05_Info_proofs.
Import ListNotations.

(* ---- standard sampler: number, order and birth likelihoods of the returned samples ---------- *)
(* a run of k iterations that is finalised returns k + nlive samples in ascending order without
   duplicates; one cut short by the iteration cap (never finalised) returns k *)
Theorem C05_count_std : forall n cs s0 r0 k s r,
  (1 <= n)%nat -> NoDup (ids cs) -> init n cs = Some (s0, r0) -> run k s0 r0 = Some (s, r) ->
  length (dead s) = k
  /\ length (dead (finalise s)) = (k + n)%nat
  /\ sorted (map key (dead (finalise s)))
  /\ NoDup (map pid (dead (finalise s))).
Proof.
  intros n cs s0 r0 k s r Hn Hnd Hi Hr.
  destruct (init_spec n cs s0 r0 Hn Hnd Hi) as (HI0 & _ & Hd0 & Hit0 & _).
  destruct (run_inv_full n k s0 r0 s r HI0 Hr) as (HI & _ & _ & Hlen & _ & _ & _ & (more & Hm & _ & Hiter)).
  destruct HI as [I _]. destruct (finalise_spec n s I) as (_ & _ & Hs & Hn' & Hl & _).
  rewrite Hit0 in Hiter. cbn in Hiter. rewrite Hiter in *.
  repeat split; assumption.
Qed.
Print Assumptions C05_count_std.

(* birth likelihoods (state.logLs[it]) lie strictly below their sample's likelihood, for every
   returned sample of every run, finalised or not *)
Theorem C05_birth_below : forall n cs s0 r0 k s r,
  (1 <= n)%nat -> NoDup (ids cs) -> init n cs = Some (s0, r0) -> run k s0 r0 = Some (s, r) ->
  Forall (born_below (logLs s)) (dead s)
  /\ Forall (born_below (logLs (finalise s))) (dead (finalise s)).
Proof.
  intros n cs s0 r0 k s r Hn Hnd Hi Hr.
  destruct (init_spec n cs s0 r0 Hn Hnd Hi) as (HI0 & _).
  pose proof (birth_run n k s0 r0 s r HI0 (birth_init n cs s0 r0 Hn Hnd Hi) Hr) as HB.
  split.
  - unfold Birth in HB. apply Forall_app in HB. exact (proj2 HB).
  - pose proof (birth_finalise s HB) as HF. unfold Birth in HF. apply Forall_app in HF. exact (proj2 HF).
Qed.
Print Assumptions C05_birth_below.

(* ---- importance sampler: number of returned samples = sum of the draws of every level --------- *)
Theorem C05_count_ins : forall (pt : Type) (q : nat -> pt -> xlog) (logU : pt -> R) pt_t pt_i batches,
  length (C03_Meta.train pt (C03_Meta.run pt q logU pt_t pt_i batches))
  = C03_Meta.total (C03_Meta.counts pt (C03_Meta.run pt q logU pt_t pt_i batches))
  /\ (length pt_i = length pt_t -> Forall (fun b => length (snd b) = length (fst b)) batches ->
      length (C03_Meta.iid pt (C03_Meta.run pt q logU pt_t pt_i batches))
      = C03_Meta.total (C03_Meta.counts pt (C03_Meta.run pt q logU pt_t pt_i batches))).
Proof. intros. split; [apply run_count|apply run_count_iid]. Qed.
Print Assumptions C05_count_ins.

(* ---- recomputing the estimators from the returned samples alone ------------------------------ *)
(* importance sampler: the interval twins enclose log Z = lse(logL + logW) - ln n, the posterior
   weights logL + logW - log Z and the uncertainty; the coded uncertainty (exp of the raw weights,
   long double) is the same real number as the overflow-free form the twin evaluates *)
Theorem C05_recompute_ins : forall p wi ws,
  has_finite ws -> Forall2 xencl wi ws ->
  encl (ins_lnZ_I p wi) (ins_lnZ ws)
  /\ Forall2 xencl (ins_lpw_I p wi) (ins_lpw ws)
  /\ ((2 <= length ws)%nat -> encl (ins_err_I p wi) (ins_err ws)).
Proof.
  intros p wi ws Hf H. split; [now apply ins_lnZ_encl|split; [now apply ins_lpw_encl|]].
  intros Hn. rewrite (ins_err_scaled_eq ws Hf Hn). now apply ins_err_encl.
Qed.
Print Assumptions C05_recompute_ins.

(* standard sampler: the reported uncertainty sqrt(info / nlive) is the information recurrence of
   increment evaluated on the returned likelihoods and the live-count schedule *)
Theorem C05_recompute_std_err : forall p md li ls ns nlive,
  Forall2 xencl li ls -> encl (std_err_I p md li ns nlive) (std_err md ls ns nlive).
Proof. intros p md li ls ns nlive. apply std_err_encl. Qed.
Print Assumptions C05_recompute_std_err.
(* ... and that recurrence is, in closed form, H = (W_k0 ln W_k0 + sum_{i > k0} W_i ln L_i) / Z - ln Z with
   W_i = L_i (X_{i-1} - X_i) the rectangle weights, k0 the first sample of finite likelihood and Z the
   rectangle evidence: the estimator is a function of the returned likelihoods and the live-count schedule
   alone (the exact information has ln L_k0 in place of ln W_k0) *)
Theorem C05_info_closed_form : forall md (ls : list xlog) (ns : list positive),
  let s := h_run md ls ns in
  let g := snd (hg_run md h_init 0%R (combine ls ns)) in
  hseen s = true -> (0 < hZ s)%R /\ hH s = (g / hZ s - ln (hZ s))%R.
Proof. exact info_closed_form. Qed.
Print Assumptions C05_info_closed_form.
(* (log Z and the posterior weights of the standard sampler are C02's functions of the returned
   samples: theorems C02_state_eq_compute_weights, C02_encl, C02_check_sound; the check below feeds
   the returned samples of real runs through C02's verified evaluator) *)

(* ---- tie A: result dictionary and FlowSampler attributes read one and the same store ---------- *)
Theorem C05_dict_same_fields : forall f, fields_consistent f = true ->
  forall k, reachable f k = true ->
  exists s, s <> SNone
    /\ Forall (fun c => resolve k c = s) (f_dict f)
    /\ (has_redraw k = false -> Forall (fun c => resolve k c = s) (f_sampler f))
    /\ (has_redraw k = true -> Forall (fun c => resolve k c = s) (f_sampler_redraw f)).
Proof. exact fields_sound. Qed.
Print Assumptions C05_dict_same_fields.

(* the property chains as they were before the repair (final_* fall back to None without an
   independent store while the sampler object reads the training store): rejected *)
Definition fields_before_fix : ins_fields :=
  let final := {| c_branches := [(CHasRedraw, SRedraw); (CHasIid, SIid)]; c_else := SNone |} in
  let main := {| c_branches := [(CDrawIid, SIid)]; c_else := STrain |} in
  {| f_dict := [final; final; final; final]; f_sampler := [main; main; main];
     f_sampler_redraw := [final; final]; f_iid_iff_draw := true |}.
Theorem C05_fields_before_fix_refuted : fields_consistent fields_before_fix = false.
Proof. vm_compute. reflexivity. Qed.
Print Assumptions C05_fields_before_fix_refuted.
