(* C03 - property theorems.  Statements, [exact], [Print Assumptions]; nothing else. *)
From Coq Require Import Reals List Bool Arith.
From NessaiV Require Import Lib.Enclose Model.C03_Meta Proofs.C03_Meta_proofs.
From NessaiV Require Proofs.C03_Unbiased_proofs.
Import ListNotations.
Local Open Scope R_scope.

(* mixture weights = fraction of samples drawn from each proposal: they sum to one, each in [0,1] *)
Theorem C03_weights_sum_one : forall cs, (0 < total cs)%nat ->
  sum_R (weights cs) = 1 /\ Forall (fun w => 0 <= w <= 1) (weights cs) /\ length (weights cs) = length cs.
Proof. intros cs H. exact (conj (weights_sum_one cs H) (conj (weights_in_unit cs H) (weights_length cs))). Qed.
Print Assumptions C03_weights_sum_one.

(* one iteration preserves: every row of both stores holds q_j(point) for every proposal so far,
   logQ is the mixture with the CURRENT weights, logW = logU - logQ *)
Theorem C03_step_inv : forall (pt : Type) (q : nat -> pt -> xlog) (logU : pt -> R) s nt ni,
  Inv pt q logU s -> Inv pt q logU (iteration pt q logU s nt ni).
Proof. exact iteration_inv. Qed.
Print Assumptions C03_step_inv.

(* ... hence at the end of every iteration of every run, for any oracles, any initial points, any
   number of iterations and any batches (training and independent store) *)
Theorem C03_run_inv : forall (pt : Type) (q : nat -> pt -> xlog) (logU : pt -> R) pt_t pt_i batches,
  Inv pt q logU (run pt q logU pt_t pt_i batches)
  /\ length (counts pt (run pt q logU pt_t pt_i batches)) = S (length batches).
Proof. intros. split; [apply run_inv|apply run_counts]. Qed.
Print Assumptions C03_run_inv.

(* recomputing logQ before the weights are updated breaks the invariant *)
Theorem C03_stale_weights_refuted :
  exists (q : nat -> unit -> xlog) (logU : unit -> R) (s : state unit),
    Inv unit q logU s /\ ~ Inv unit q logU (iteration_stale unit q logU s [tt] []).
Proof. exact stale_refuted. Qed.
Print Assumptions C03_stale_weights_refuted.

(* tie A: EVERY order of the bookkeeping effects accepted by the checker re-establishes the row
   invariant for the new counts on both stores (for any oracles, stores, drawn points) *)
Theorem C03_order_checker_sound :
  forall (pt : Type) (q : nat -> pt -> xlog) (logU : pt -> R) (n_new : nat) (pts_train pts_iid : list pt)
         (cs0 : list nat) (with_iid : bool) (effs : list eff) (train0 iid0 : list (row pt)),
    order_ok with_iid effs = true ->
    Forall (row_ok pt q logU cs0) train0 -> Forall (row_ok pt q logU cs0) iid0 ->
    let c := cexec pt q logU n_new pts_train pts_iid
               {| c_counts := cs0; c_train := {| c_rows := train0; c_pending := [] |};
                  c_iid := {| c_rows := iid0; c_pending := [] |} |} effs in
    c_counts pt c = cs0 ++ [n_new]
    /\ Forall (row_ok pt q logU (cs0 ++ [n_new])) (c_rows pt (c_train pt c))
    /\ (with_iid = true -> Forall (row_ok pt q logU (cs0 ++ [n_new])) (c_rows pt (c_iid pt c))).
Proof. intros pt q logU n_new ptt pti cs0 wi effs t0 i0. exact (order_ok_sound pt q logU n_new ptt pti cs0 wi effs t0 i0). Qed.
Print Assumptions C03_order_checker_sound.

(* what an accepted row of the correspondence means: the float64 logQ of the implementation is
   within tol of the real mixture of the recorded per-proposal densities with weights counts/total *)
Theorem C03_row_check_sound :
  forall p (cs : list nat) (c0 : nat) (cr : list nat) (d0 : Z * Z) (lr : list (option (Z * Z)))
         (y : Z * Z) (tol : I.type) (t : R),
    cs = c0 :: cr -> (0 < c0)%nat -> encl tol t ->
    close_to p (mix_I p (weights_I p cs) (map (dyo p) (Some d0 :: lr))) y tol = true ->
    Rabs (mix_R (weights cs) (map dyoR (Some d0 :: lr)) - dyR (fst y) (snd y)) <= t.
Proof. exact row_check_sound. Qed.
Print Assumptions C03_row_check_sound.

Example C03_nonvacuous : order_ok true order_today = true /\ order_ok false order_today = true
  /\ order_ok true [EDraw Train; EUpdateWeights; EAppendCol Train; ERecomputeQ Train; ERecomputeW Train; EInsert Train;
                    EDraw Iid; EAppendCol Iid; ERecomputeQ Iid; ERecomputeW Iid; EInsert Iid] = false
  /\ order_ok true [EUpdateWeights; EDraw Train; EAppendCol Train; ERecomputeQ Train; ERecomputeW Train; EInsert Train;
                    EDraw Iid; EInsert Iid] = false.
Proof. vm_compute. repeat split. Qed.

(* ---- what the bookkeeping buys (link to the calibration property C06, which is otherwise not decidable by proof):
   over a finite sample space, with the meta-proposal Q = sum_j (c_j / N) q_j that the sampler maintains, the expectation
   of the importance estimator (1/N) sum_j sum_{i <= c_j} f(x_ji) / Q(x_ji), x_ji ~ q_j, is sum_x f(x) - for any
   proposals and counts, provided Q > 0 wherever f <> 0. *)
Theorem C03_estimator_unbiased :
  forall (pt : Type) (xs : list pt) (q : nat -> pt -> R) (f : pt -> R) (cs : list nat),
    (forall x, In x xs -> f x <> 0 -> C03_Unbiased_proofs.Qmix pt q cs x <> 0) ->
    C03_Unbiased_proofs.EZhat pt xs q f cs = C03_Unbiased_proofs.sumX pt xs f.
Proof. exact C03_Unbiased_proofs.estimator_unbiased. Qed.
Print Assumptions C03_estimator_unbiased.

(* the hypothesis is satisfiable: two points, a flat initial proposal and one concentrated on the first point *)
Example C03_unbiased_nonvacuous :
  let q := fun (j : nat) (x : bool) => match j with O => 1 / 2 | _ => if x then 1 else 0 end in
  forall x, In x [true; false] -> (if x then 3 else 5) <> 0 -> C03_Unbiased_proofs.Qmix bool q [2%nat; 6%nat] x <> 0.
Proof.
  intros q x Hx _. unfold C03_Unbiased_proofs.Qmix, C03_Unbiased_proofs.sumJ, C03_Unbiased_proofs.total, q.
  cbn [fold_right plus]. destruct x; simpl INR; apply Rgt_not_eq; Lra.lra.
Qed.
