(* C01 - property theorems.  Statements, [exact], [Print Assumptions]; nothing else.
   Model: Model/C01_LiveSet.v (NestedSampler.populate_live_points / yield_sample /
   insert_live_point / consume_sample / finalise over integer order keys).                 *)
From Coq Require Import ZArith List Bool Permutation Lia.
From NessaiV Require Import Lib.Effects Model.C01_LiveSet Proofs.C01_LiveSet_proofs.
Import ListNotations.
Local Open Scope Z_scope.

(* populate_live_points: exactly n points, ascending, finite logL and logP, it = 0, distinct,
   taken from the consumed prefix of the proposal stream                                    *)
Theorem C01_init_sorted : forall n cs s0 r,
  (1 <= n)%nat -> NoDup (ids cs) -> init n cs = Some (s0, r) ->
  InvD n s0 r
  /\ Forall (fun p => pit p = 0%nat /\ okP p = true /\ finP p = true /\ finL p = true) (live s0)
  /\ dead s0 = [] /\ iter s0 = 0%nat
  /\ exists pre, cs = pre ++ r.
Proof. exact init_spec. Qed.
Print Assumptions C01_init_sorted.

(* one consume_sample from ANY state satisfying the invariant, for ANY proposal stream:
   the invariant is kept (n points, ascending, no duplicates, counts agree) and the step is
   exactly "remove the minimum, record it, insert one strictly better fresh draw at its rank,
   touch nothing else"  (StepSpec spells the clauses out)                                   *)
Theorem C01_step_inv : forall n s ds s' r,
  InvD n s ds -> step s ds = Some (s', r) ->
  InvD n s' r /\ StepSpec s s' ds r
  /\ length (live s') = n /\ sorted (map key (live s')).
Proof. exact step_inv_full. Qed.
Print Assumptions C01_step_inv.

(* every run of any length: discarded likelihoods non-decreasing, each discarded point
   recorded exactly once, |dead| = |idxs| = iteration, |logLs| = iteration + 1, every recorded
   index inside the live set, exactly one point recorded per iteration                      *)
Theorem C01_run_inv : forall n k s ds s' r,
  InvD n s ds -> run k s ds = Some (s', r) ->
  InvD n s' r
  /\ sorted (map key (dead s'))
  /\ NoDup (map pid (dead s'))
  /\ length (dead s') = iter s' /\ length (idxs s') = iter s' /\ length (logLs s') = S (iter s')
  /\ Forall (fun i => (i < n)%nat) (idxs s')
  /\ (exists more, dead s' = dead s ++ more /\ length more = k /\ iter s' = (iter s + k)%nat).
Proof. exact run_inv_full. Qed.
Print Assumptions C01_run_inv.

(* at EVERY iteration j of EVERY run the step taken is one likelihood-constrained replacement
   (so every recorded insertion index is the position the new point occupies when recorded)  *)
Theorem C01_every_iteration : forall n j s ds sj dj sj' dj',
  InvD n s ds -> run j s ds = Some (sj, dj) -> step sj dj = Some (sj', dj') ->
  InvD n sj dj /\ InvD n sj' dj' /\ StepSpec sj sj' dj dj'.
Proof. exact run_every. Qed.
Print Assumptions C01_every_iteration.

(* finalise: dead ++ live in order is non-decreasing, without duplicates, of length
   iteration + n; the evidence state has one entry per recorded point; counts n, n-1, .., 1 *)
Theorem C01_finalise : forall n s,
  Inv n s ->
  live (finalise s) = []
  /\ dead (finalise s) = dead s ++ live s
  /\ sorted (map key (dead (finalise s)))
  /\ NoDup (map pid (dead (finalise s)))
  /\ length (dead (finalise s)) = (iter s + n)%nat
  /\ logLs (finalise s) = (- kinf) :: map key (dead (finalise s))
  /\ nls (finalise s) = repeat n (iter s) ++ countdown n n
  /\ idxs (finalise s) = idxs s /\ iter (finalise s) = iter s.
Proof. exact finalise_spec. Qed.
Print Assumptions C01_finalise.

(* the invariant reads only the pickled fields: a resumed state that agrees with the
   checkpointed one on them (C12) satisfies it, and the run theorems apply from there       *)
Theorem C01_resume : forall n s s', tracked s = tracked s' -> Inv n s -> Inv n s'.
Proof. exact Inv_tracked. Qed.
Print Assumptions C01_resume.

(* tie A: EVERY regenerated skeleton (operators of the two filters, searchsorted side, effect
   list of consume_sample with insert_live_point inlined) accepted by the checker performs
   exactly the replacement of [step] on every invariant state and every stream              *)
Theorem C01_checker_sound : forall sk : skeleton,
  one_replace_per_iteration sk = true ->
  forall n s ds, InvD n s ds ->
  forall m, run_effs (sk_params sk) (sk_effs sk) (inject s ds) = Some m ->
  exists s' r, step s ds = Some (s', r) /\ tracked (ms m) = tracked s' /\ rs m = r /\ InvD n s' r.
Proof. exact checker_sound. Qed.
Print Assumptions C01_checker_sound.

(* non-vacuity: ties among the live points; a draw equal to logLmin is rejected; a draw
   equal to another live key is inserted before it; a pool that runs empty hands back the
   old point and the loop goes on; logL = 0.0 (key 0) is re-evaluated                       *)
Definition ex_pt (i k : Z) : pt := mkpt i k 0 true true false true.
Definition ex_state : state :=
  mkstate [ex_pt 1 5; ex_pt 2 5; ex_pt 3 7; ex_pt 4 7] [] [] 0 (- kinf) [- kinf] [] 4 0 1.
Definition ex_stream : list draw :=
  [ (ex_pt 10 5, 0, true);        (* = logLmin: rejected (strict)                     *)
    (ex_pt 11 4, 0, false);       (* below, and the pool is now empty: old point back *)
    (ex_pt 12 0, 7, true);        (* logL == 0.0: re-evaluated to 7, accepted         *)
    (ex_pt 13 9, 0, true) ].
Example C01_nonvacuous :
  InvD 4 ex_state ex_stream
  /\ (match step ex_state ex_stream with
      | Some (s', r) => (map pid (live s'), idxs s', map pid (dead s'), rej s', evals s', length r)
      | None => ([], [], [], 0%nat, 0%nat, 0%nat)
      end) = ([2; 12; 3; 4], [1%nat], [1], 2%nat, 1%nat, 1%nat).
Proof.
  split; [|vm_compute; reflexivity].
  split.
  - constructor; try reflexivity; try (cbn; lia).
    all: cbn [ex_state live dead idxs map key ex_pt sorted app].
    all: try (repeat constructor; cbn; lia).
  - cbn. repeat constructor; cbn; intuition lia.
Qed.
