(* C13 - property theorems.  Statements, [exact], [Print Assumptions]; nothing else.
   Model: Model/C13_Signal.v on top of Model/C01_LiveSet.v (effect list of one iteration of the
   standard sampler, interruption before effect k, resume from the loop top).                  *)
From Coq Require Import String ZArith List Bool.
From NessaiV Require Import Lib.Effects Model.C01_LiveSet Proofs.C01_LiveSet_proofs
                            Model.C13_Signal Proofs.C13_Signal_proofs.
Import ListNotations.

(* For EVERY effect list, every boundary k whose prefix is balanced (none or all of the six
   mutations of one replacement done), every consistent start state and every proposal stream:
   the checkpoint written by a signal before effect k is a consistent state (C01's invariant:
   live set full and duplicate-free, no point both live and recorded, |dead| = |logLs|-1 = |idxs| =
   iteration), equal on the tracked fields to the state before or after the iteration, and every
   resumed run - any number of further iterations, then finalise - ends consistent: no point
   recorded or integrated twice, none lost, counts agree.                                        *)
Theorem C13_classify_sound : forall n effs k s ds s' r,
  InvD n s ds ->
  classify effs k = Some true ->
  interrupt canon effs k s ds = Some (s', r) ->
  InvD n s' r
  /\ (tracked s' = tracked s
      \/ exists s1 r1, step s ds = Some (s1, r1) /\ tracked s' = tracked s1 /\ r = r1)
  /\ forall j s'' r'', run j s' r = Some (s'', r'') ->
       InvD n s'' r'' /\ final_ok_b n (finalise s'') = true.
Proof. exact classify_sound. Qed.
Print Assumptions C13_classify_sound.

(* The property is FALSE of today's iteration: every unbalanced boundary (3..14 of the 21, i.e. from
   after state.increment up to before insertion_indices.append has completed) has a consistent start
   state and a stream for which the interrupted-and-resumed run ends inconsistent (witness evaluated
   by vm_compute: 4 live points with ties; the worst point is recorded twice / counts disagree).
   All of them lie in the window recorded as known finding D2; none outside it.                   *)
Theorem C13_unsafe_today_refuted : forall k, In k (unsafe_boundaries iteration_today) ->
  exists s ds, InvD 4 s ds /\ classify iteration_today k = Some false
               /\ match resume_run canon iteration_today k 2 s ds with
                  | Some f => final_ok_b 4 f = false
                  | None => False
                  end.
Proof. exact unsafe_today. Qed.
Print Assumptions C13_unsafe_today_refuted.

Theorem C13_today_window :
  unsafe_boundaries iteration_today = [3; 4; 5; 6; 7; 8; 9; 10; 11; 12; 13; 14]
  /\ outside_known_window iteration_today = [].
Proof. exact (proj2 unsafe_today_refuted). Qed.
Print Assumptions C13_today_window.

(* a signal inside finalise, after j >= 1 of the remaining live points have been recorded: for EVERY
   consistent state the resumed run (finalise runs again) records a point twice - the second
   unsafe window of the standard sampler (known finding D2b)                                      *)
Theorem C13_finalise_refuted : forall n s j,
  Inv n s -> (1 <= j)%nat -> final_ok_b n (resume_finalise j s) = false.
Proof. exact finalise_refuted. Qed.
Print Assumptions C13_finalise_refuted.

(* the handler: for every statement list accepted by the checker (one forced checkpoint that reaches
   the dump, then exit with the configured code; closing the pool before or after it; logging
   anywhere) exactly one checkpoint of the CURRENT state is written and the process exits with the
   configured code                                                                               *)
Theorem C13_handler : forall (S : Type) (cur : S) (conf other : Z) (effs : list heff) (w : hworld S) (npw : bool),
  handler_ok npw effs = true -> exit_code w = None ->
  written (hrun cur conf other npw effs w) = written w ++ [cur]
  /\ exit_code (hrun cur conf other npw effs w) = Some conf
  /\ dirty (hrun cur conf other npw effs w) = dirty w.
Proof. exact @handler_sound. Qed.
Print Assumptions C13_handler.

(* the handler ends the process by raising SystemExit in the interrupted frame.  For EVERY table of
   guarded constructs (try/except, finally-with-return, contextlib.suppress) accepted by the checker
   and every nesting of constructs from it around the interrupted statement, the exit reaches the
   top: the process terminates with the configured code after exactly one checkpoint.  A single
   intercepting construct on the path (e.g. `except BaseException:` without re-raise) defeats it.  *)
Theorem C13_exit_reaches_top : forall (S : Type) (cur : S) (conf other : Z) (effs : list heff) (w : hworld S)
    (npw : bool) (table path : list xentry),
  handler_ok npw effs = true -> exit_code w = None ->
  no_swallow table = true -> incl path table ->
  process_exit (hrun cur conf other npw effs w) path = Some conf
  /\ written (hrun cur conf other npw effs w) = written w ++ [cur].
Proof. exact @exit_reaches_top. Qed.
Print Assumptions C13_exit_reaches_top.

Theorem C13_swallowed_refuted : forall (S : Type) (w : hworld S) (e : xentry) (path : list xentry),
  intercepts e = true -> process_exit w (e :: path) = None.
Proof. exact @swallowed_no_exit. Qed.
Print Assumptions C13_swallowed_refuted.

(* which sampler's handler runs: for every list of registrations accepted by the checker (each of
   SIGTERM / SIGINT / SIGALRM registered, none of them under a condition) and any number of
   FlowSamplers created one after the other in one process, the installed handler is the safe_exit
   of the sampler created LAST - the one that is running.  A registration that only fires on a
   default handler keeps the first sampler's handler (refuted by computation).                    *)
Theorem C13_handler_is_current : forall regs : list reg,
  regs_ok regs = true -> forall n s, after_samplers regs (S n) s = Some n.
Proof. exact regs_sound. Qed.
Print Assumptions C13_handler_is_current.

Theorem C13_stale_handler_refuted :
  after_samplers [mkreg STERM true; mkreg SINT true; mkreg SALRM true] 2 STERM = Some 0.
Proof. exact stale_handler_refuted. Qed.
Print Assumptions C13_stale_handler_refuted.

(* resume and the random generators: for EVERY regenerated list of seeding calls on the resume path
   accepted by the checker (none), every history of pool refills and resumes, and every family of
   pools that are internally distinct and pairwise disjoint (fresh draws), nothing is offered twice -
   so C01's freshness hypothesis, under which the run theorems hold, survives any number of resumes.
   A resume path that seeds is refuted: after the second resume the first refill is replayed and
   C01's model ends with duplicated live points (vm_compute witness).                             *)
Theorem C13_resume_keeps_draws_fresh : forall (A : Type) (calls : list seedcall) (pool : nat * nat -> list A) (h : list hev),
  resume_seed_ok calls = true ->
  (forall k, NoDup (pool k)) ->
  (forall k k' x, k <> k' -> In x (pool k) -> In x (pool k') -> False) ->
  NoDup (offered pool (reseeds calls) h).
Proof. exact @resume_seed_sound. Qed.
Print Assumptions C13_resume_keeps_draws_fresh.

Theorem C13_reseed_on_resume_refuted :
  resume_seed_ok [SeedConfigure] = false
  /\ pools_from true 0 0 rs_history = [(0, 0); (1, 0); (1, 0)]%nat
  /\ rs_live_after true = [20; 20; 21; 21]%Z /\ nodupb (rs_live_after true) = false
  /\ nodupb (rs_live_after false) = true.
Proof. exact reseed_refuted. Qed.
Print Assumptions C13_reseed_on_resume_refuted.

(* a signal inside the proposal's draw / populate path: the resumed run re-enters populate without
   retraining, so what populate reads must survive.  For EVERY regenerated triple (attributes
   __getstate__ drops, attributes the path reads, attributes resume restores / populate re-derives)
   accepted by the checker, every attribute the path reads that was available before the signal is
   available after pickle + resume.  Refuted for a dropped, read, unrestored attribute.            *)
Theorem C13_proposal_fields_survive : forall dropped read restored : list string,
  fields_ok dropped read restored = true ->
  forall (st : fstore) f, In f read -> st f = true -> pickle_resume dropped restored st f = true.
Proof. exact fields_sound. Qed.
Print Assumptions C13_proposal_fields_survive.

Theorem C13_dropped_field_refuted :
  fields_ok ["training_data"%string] ["training_data"%string] [] = false
  /\ pickle_resume ["training_data"%string] [] (fun _ => true) "training_data"%string = false.
Proof. exact fields_refuted. Qed.
Print Assumptions C13_dropped_field_refuted.

(* importance sampler: a forced (non-periodic) checkpoint returns before any file operation, so the
   last iteration-boundary checkpoint is left intact - for every statement list whose first
   non-logging statement is the `periodic is False -> return` guard                              *)
Theorem C13_ins_intact : forall (FS : Type) (write touch : FS -> FS) (effs : list ieff) (fs : FS),
  ins_ckpt_ok effs = true -> irun write touch effs false fs = fs.
Proof. exact @ins_intact. Qed.
Print Assumptions C13_ins_intact.

(* non-vacuity: a balanced boundary of today's list that is neither the first nor the last,
   and the two cases of the theorem both occur                                                   *)
Example C13_nonvacuous :
  classify iteration_today 2 = Some true /\ classify iteration_today 15 = Some true
  /\ classify iteration_today 9 = Some false
  /\ (match interrupt canon iteration_today 15 wstate wstream with
      | Some (s', _) => (map pid (live s'), map pid (dead s'), idxs s', iter s')
      | None => ([], [], [], 0) end) = ([2%Z; 11%Z; 3%Z; 4%Z], [1%Z], [1], 1)
  /\ witness_ok iteration_today 15 = true /\ witness_ok iteration_today 9 = false.
Proof. vm_compute. repeat split. Qed.
