(* C07 - property theorems.  Statements, [exact], [Print Assumptions]; nothing else. *)
From Coq Require Import Reals ZArith List Bool.
From Coquelicot Require Import Coquelicot.
From Interval Require Import Xreal Interval.
From NessaiV Require Import Lib.C07_Interval Model.C07_Maps Proofs.C07_Maps_proofs Run.C07_run Proofs.C07_run_proofs.
Import ListNotations.
Local Open Scope R_scope.

(* cm_ok m : on dom m, bwd (fwd x) = x, ljg (fwd x) = - ljf x, fwd differentiable with
   |fwd' x| = exp (ljf x + c) for one constant c.  Composition of any list of certified maps
   (RescaleToBounds = pre ; offset ; rescale ; post,  CombinedReparameterisation over any number). *)
Theorem C07_compose_ok : forall l : list cmap, List.Forall cm_ok l -> cm_ok (cm_compose l).
Proof. exact cm_compose_ok. Qed.
Print Assumptions C07_compose_ok.

Theorem C07_zero_one_ok : forall a b, a < b -> cm_ok (cm_zero_one a b).
Proof. exact zero_one_ok. Qed.
Print Assumptions C07_zero_one_ok.

Theorem C07_minus_one_one_ok : forall a b, a < b -> cm_ok (cm_minus_one_one a b).
Proof. exact minus_one_one_ok. Qed.
Print Assumptions C07_minus_one_one_ok.

Theorem C07_to_bounds_ok : forall a b lo fac, a < b -> 0 < fac -> cm_ok (cm_to_bounds a b lo fac).
Proof. exact to_bounds_ok. Qed.
Print Assumptions C07_to_bounds_ok.

Theorem C07_shift_ok : forall o, cm_ok (cm_shift o).
Proof. exact shift_ok. Qed.
Print Assumptions C07_shift_ok.

Theorem C07_logit_ok : cm_ok cm_logit.
Proof. exact logit_ok. Qed.
Print Assumptions C07_logit_ok.

Theorem C07_sigmoid_ok : cm_ok cm_sigmoid.
Proof. exact sigmoid_ok. Qed.
Print Assumptions C07_sigmoid_ok.

Theorem C07_logit_eps_ok : forall eps, 0 < eps -> cm_ok (cm_logit_eps eps).
Proof. exact logit_eps_ok. Qed.
Print Assumptions C07_logit_eps_ok.

Theorem C07_log_ok : cm_ok cm_log.
Proof. exact log_ok. Qed.
Print Assumptions C07_log_ok.

Theorem C07_exp_ok : cm_ok cm_exp.
Proof. exact exp_ok. Qed.
Print Assumptions C07_exp_ok.

Theorem C07_scale_shift_ok : forall s t, s <> 0 -> cm_ok (cm_scale_shift s t).
Proof. exact scale_shift_ok. Qed.
Print Assumptions C07_scale_shift_ok.

Theorem C07_powerlaw_ok : forall p s, 0 < p -> 0 < s -> cm_ok (cm_powerlaw p s).
Proof. exact powerlaw_ok. Qed.
Print Assumptions C07_powerlaw_ok.

Theorem C07_fold_ok : forall sgn, sgn = 1 \/ sgn = -1 -> cm_ok (cm_fold sgn).
Proof. exact fold_ok. Qed.
Print Assumptions C07_fold_ok.

Theorem C07_flip_ok : cm_ok cm_flip.
Proof. exact flip_ok. Qed.
Print Assumptions C07_flip_ok.

(* every RescaleToBounds configuration (pre/post rescaling, offset, rescale bounds, inversion off / no edge /
   lower / upper with either sign), for ANY constants b0 < b1: the prior bounds or the bounds after update(x)
   with non-degenerate data (min = max is what determine_rescaled_bounds raises on) *)
Theorem C07_update_ok : forall c o b0 b1 lo fac sgn,
  (match r_pre c with PrePower p s => 0 < dyR p /\ 0 < dyR s | _ => True end) ->
  b0 < b1 -> 0 < fac -> (sgn = 1 \/ sgn = -1) ->
  cm_ok (cm_compose (rtb_cmaps c o b0 b1 lo fac sgn)).
Proof. exact rtb_cfg_ok. Qed.
Print Assumptions C07_update_ok.

(* the expression pipeline evaluated by the tie denotes exactly these certified maps *)
Theorem C07_rtb_denotes : forall c sgn pa pb o b0 b1 lo hi fac,
  List.Forall2 (stage_den (sgn :: [pa; pb; o; b0; b1; lo; hi; fac])) (rtb_stages c) (rtb_cmaps c o b0 b1 lo fac sgn).
Proof. exact rtb_stages_den. Qed.
Print Assumptions C07_rtb_denotes.

Theorem C07_rtb_roundtrip : forall c sgn pa pb o b0 b1 lo hi fac x,
  (match r_pre c with PrePower p s => 0 < dyR p /\ 0 < dyR s | _ => True end) ->
  b0 < b1 -> 0 < fac -> (sgn = 1 \/ sgn = -1) ->
  dom (cm_compose (rtb_cmaps c o b0 b1 lo fac sgn)) x ->
  let tl := sgn :: [pa; pb; o; b0; b1; lo; hi; fac] in
  let fw := fwdR (rtb_stages c) tl x 0 in
  let bw := bwdR (rev (rtb_stages c)) tl (fst fw) 0 in
  fst bw = x /\ snd bw = - snd fw.
Proof. exact rtb_pipeline_roundtrip. Qed.
Print Assumptions C07_rtb_roundtrip.

(* the domains are not vacuous: open box for logit, closed box (bounds included) for affine maps,
   the data-side half line for a folded edge *)
Theorem C07_domain_logit : forall o b0 b1 x, b0 < b1 -> b0 + o < x < b1 + o ->
  dom (cm_compose (rtb_maps [] [cm_logit] o b0 b1 0 1 false ENone 1)) x.
Proof. exact rtb_logit_domain. Qed.
Print Assumptions C07_domain_logit.

Theorem C07_domain_affine : forall o b0 b1 lo fac x,
  dom (cm_compose (rtb_maps [] [] o b0 b1 lo fac false ENone 1)) x.
Proof. exact rtb_affine_domain. Qed.
Print Assumptions C07_domain_affine.

Theorem C07_domain_fold_lower : forall o b0 b1 sgn x, b0 < b1 -> b0 + o <= x ->
  dom (cm_compose (rtb_maps [] [] o b0 b1 0 1 true ELower sgn)) x.
Proof. exact rtb_fold_domain_lower. Qed.
Print Assumptions C07_domain_fold_lower.

(* REFUTED for points of the prior box below the updated bound of a folded edge: two different points share
   a prime value (replayed on the real code: known finding C07:inversion-fold-outside-updated-bounds) *)
Theorem C07_fold_outside_refuted : forall b0 b1 d, b0 < b1 -> 0 < d ->
  fwd (cm_compose (rtb_maps [] [] 0 b0 b1 0 1 true ELower (-1))) (b0 - d)
  = fwd (cm_compose (rtb_maps [] [] 0 b0 b1 0 1 true ELower 1)) (b0 + d).
Proof. exact rtb_fold_not_injective. Qed.
Print Assumptions C07_fold_outside_refuted.

(* Angle / ToCartesian: explicit partial derivatives, det = - s r, |det| = exp (ln r + ln s) *)
Theorem C07_polar_jacobian : forall s th r,
  is_derive (fun t => polar_x s t r) th (- s * r * sin (s * th)) /\
  is_derive (fun q => polar_x s th q) r (cos (s * th)) /\
  is_derive (fun t => polar_y s t r) th (s * r * cos (s * th)) /\
  is_derive (fun q => polar_y s th q) r (sin (s * th)) /\
  (- s * r * sin (s * th)) * sin (s * th) - cos (s * th) * (s * r * cos (s * th)) = - (s * r).
Proof. exact polar_jacobian. Qed.
Print Assumptions C07_polar_jacobian.

Theorem C07_polar_logdet : forall s r, 0 < s -> 0 < r -> Rabs (- (s * r)) = exp (ln r + ln s).
Proof. exact polar_logdet. Qed.
Print Assumptions C07_polar_logdet.

Theorem C07_polar_roundtrip : forall s th r, 0 < s -> 0 < r ->
  radiusR (polar_x s th r) (polar_y s th r) = r /\
  (- PI < s * th < PI -> atan2R (polar_y s th r) (polar_x s th r) / s = th) /\
  (0 < s * th < 2 * PI -> atan2pR (polar_y s th r) (polar_x s th r) / s = th).
Proof. exact polar_roundtrip. Qed.
Print Assumptions C07_polar_roundtrip.

Theorem C07_to_cartesian_roundtrip : forall a b sc sgn x r,
  a < b -> 0 < sc <= PI -> (sgn = 1 \/ sgn = -1) -> 0 < r -> a < x < b ->
  let u := (x - a) / (b - a) in
  let th := sgn * u * sc in
  (b - a) * Rabs (atan2R (r * sin th) (r * cos th) / sc) + a = x.
Proof. exact to_cartesian_roundtrip. Qed.
Print Assumptions C07_to_cartesian_roundtrip.

(* REFUTED off the supported range of the Angle inverse (lower bound <> 0 and scaled angle beyond pi):
   the point comes back one period lower (known finding C07:angle-inverse-wrap) *)
Theorem C07_angle_wrap_refuted : exists th r, 0 < r /\ 0 < 1 * th < 2 * PI /\
  atan2R (polar_y 1 th r) (polar_x 1 th r) / 1 = th - 2 * PI /\
  atan2R (polar_y 1 th r) (polar_x 1 th r) / 1 <> th.
Proof. exact angle_wrap. Qed.
Print Assumptions C07_angle_wrap_refuted.

(* AnglePair: nine partial derivatives and the 3x3 determinant, both conventions *)
Theorem C07_azzen_jacobian : forall a z r,
  is_derive (fun t => azzen_x t z r) a (- r * sin z * sin a) /\
  is_derive (fun t => azzen_x a t r) z (r * cos z * cos a) /\
  is_derive (fun t => azzen_x a z t) r (sin z * cos a) /\
  is_derive (fun t => azzen_y t z r) a (r * sin z * cos a) /\
  is_derive (fun t => azzen_y a t r) z (r * cos z * sin a) /\
  is_derive (fun t => azzen_y a z t) r (sin z * sin a) /\
  is_derive (fun t => azzen_z t z r) a 0 /\
  is_derive (fun t => azzen_z a t r) z (- r * sin z) /\
  is_derive (fun t => azzen_z a z t) r (cos z) /\
  det3 (- r * sin z * sin a) (r * cos z * cos a) (sin z * cos a)
       (r * sin z * cos a) (r * cos z * sin a) (sin z * sin a)
       0 (- r * sin z) (cos z) = - (r * r * sin z).
Proof. exact azzen_jacobian. Qed.
Print Assumptions C07_azzen_jacobian.

Theorem C07_radec_jacobian : forall a d r,
  is_derive (fun t => radec_x t d r) a (- r * cos d * sin a) /\
  is_derive (fun t => radec_x a t r) d (- r * sin d * cos a) /\
  is_derive (fun t => radec_x a d t) r (cos d * cos a) /\
  is_derive (fun t => radec_y t d r) a (r * cos d * cos a) /\
  is_derive (fun t => radec_y a t r) d (- r * sin d * sin a) /\
  is_derive (fun t => radec_y a d t) r (cos d * sin a) /\
  is_derive (fun t => radec_z t d r) a 0 /\
  is_derive (fun t => radec_z a t r) d (r * cos d) /\
  is_derive (fun t => radec_z a d t) r (sin d) /\
  det3 (- r * cos d * sin a) (- r * sin d * cos a) (cos d * cos a)
       (r * cos d * cos a) (- r * sin d * sin a) (cos d * sin a)
       0 (r * cos d) (sin d) = r * r * cos d.
Proof. exact radec_jacobian. Qed.
Print Assumptions C07_radec_jacobian.

Theorem C07_spherical_logdet : forall r t, 0 < r -> 0 < t ->
  Rabs (- (r * r * t)) = exp (2 * ln r + ln t) /\ Rabs (r * r * t) = exp (2 * ln r + ln t).
Proof. exact spherical_logdet. Qed.
Print Assumptions C07_spherical_logdet.

(* prime priors: support equality for the uniform case, all `invert` cases of determine_rescaled_bounds *)
Theorem C07_prime_support_affine : forall pmin pmax xmin xmax off lo hi x,
  xmin < xmax -> lo < hi ->
  let F := fwd (cm_compose [cm_shift off; cm_to_bounds xmin xmax lo (hi - lo)]) in
  let b := rescaled_bounds pmin pmax xmin xmax false None off lo hi in
  (pmin <= x <= pmax <-> fst b <= F x <= snd b).
Proof. exact prime_support_affine. Qed.
Print Assumptions C07_prime_support_affine.

Theorem C07_prime_support_noedge : forall pmin pmax xmin xmax off lo hi x,
  xmin < xmax ->
  let F := fwd (cm_compose [cm_shift off; cm_minus_one_one xmin xmax]) in
  let b := rescaled_bounds pmin pmax xmin xmax true (Some ENone) off lo hi in
  (pmin <= x <= pmax <-> fst b <= F x <= snd b).
Proof. exact prime_support_noedge. Qed.
Print Assumptions C07_prime_support_noedge.

Theorem C07_prime_support_lower : forall pmin pmax xmin xmax off lo hi sgn x,
  xmin < xmax -> (sgn = 1 \/ sgn = -1) -> xmin + off <= x ->
  let F := fwd (cm_compose [cm_shift off; cm_zero_one xmin xmax; cm_fold sgn]) in
  let b := rescaled_bounds pmin pmax xmin xmax true (Some ELower) off lo hi in
  (x <= pmax <-> fst b <= F x <= snd b).
Proof. exact prime_support_lower. Qed.
Print Assumptions C07_prime_support_lower.

Theorem C07_prime_support_upper : forall pmin pmax xmin xmax off lo hi sgn x,
  xmin < xmax -> (sgn = 1 \/ sgn = -1) -> x <= xmax + off ->
  let F := fwd (cm_compose [cm_shift off; cm_zero_one xmin xmax; cm_flip; cm_fold sgn]) in
  let b := rescaled_bounds pmin pmax xmin xmax true (Some EUpper) off lo hi in
  (pmin <= x <-> fst b <= F x <= snd b).
Proof. exact prime_support_upper. Qed.
Print Assumptions C07_prime_support_upper.

Theorem C07_prime_prior : forall pmin pmax xmin xmax off lo hi x,
  xmin < xmax -> lo < hi ->
  let m := cm_compose [cm_shift off; cm_to_bounds xmin xmax lo (hi - lo)] in
  0 = - ln (pmax - pmin) - ljf m x + (ln (pmax - pmin) + (- ln (xmax - xmin) + ln (hi - lo))).
Proof. exact prime_prior_uniform_const. Qed.
Print Assumptions C07_prime_prior.

Theorem C07_prime_prior_polar : forall s th r kk,
  - ln kk - ((polar_x s th r) * (polar_x s th r) + (polar_y s th r) * (polar_y s th r)) / 2
  = (ln r - r * r / 2) - ln r - ln kk.
Proof. exact prime_prior_polar. Qed.
Print Assumptions C07_prime_prior_polar.

Theorem C07_prime_prior_spherical : forall a v r,
  azzen_x a v r * azzen_x a v r + azzen_y a v r * azzen_y a v r + azzen_z a v r * azzen_z a v r = r * r /\
  radec_x a v r * radec_x a v r + radec_y a v r * radec_y a v r + radec_z a v r * radec_z a v r = r * r.
Proof. exact prime_prior_spherical. Qed.
Print Assumptions C07_prime_prior_spherical.

(* the enclosure theorems of the tie: the interval twin contains the real model at the exact dyadic inputs *)
Theorem C07_enclosure : forall prec k ienv env e,
  (0 <= k)%Z -> List.Forall2 enclR ienv env -> enclR (evalI prec k ienv e) (evalR env e).
Proof. exact evalI_sound. Qed.
Print Assumptions C07_enclosure.

Theorem C07_check_forward_sound : forall blocks ins auxs,
  let fwI := combI_fwd prec ulps (zip3 blocks (map (map ptI) ins) (map ptI auxs)) I.zero in
  let fwR := combR_fwd (zip3 blocks (map (map dyR) ins) (map dyR auxs)) 0 in
  List.Forall2 (List.Forall2 enclR) (fst fwI) (fst fwR) /\ enclR (snd fwI) (snd fwR).
Proof. exact check_forward_sound. Qed.
Print Assumptions C07_check_forward_sound.

Theorem C07_check_backward_sound : forall blocks ys auxs,
  let bwI := combI_bwd prec ulps (rev (zip3 blocks (map (map ptI) ys) (map ptI auxs))) I.zero in
  let bwR := combR_bwd (rev (zip3 blocks (map (map dyR) ys) (map dyR auxs))) 0 in
  List.Forall2 (List.Forall2 enclR) (fst bwI) (fst bwR) /\ enclR (snd bwI) (snd bwR).
Proof. exact check_backward_sound. Qed.
Print Assumptions C07_check_backward_sound.

Theorem C07_judge_sound : forall m e E,
  (judge (Some (m, e)) E = 1%nat \/ judge (Some (m, e)) E = 2%nat) -> enclR E (dyR (m, e)).
Proof. exact judge_sound. Qed.
Print Assumptions C07_judge_sound.

Theorem C07_accepted_close : forall m e E l u v,
  (judge (Some (m, e)) E = 1%nat \/ judge (Some (m, e)) E = 2%nat) ->
  I.convert E = Ibnd (Xreal l) (Xreal u) -> enclR E v -> Rabs (dyR (m, e) - v) <= u - l.
Proof. exact accepted_close. Qed.
Print Assumptions C07_accepted_close.

(* tie A: the proven-sound checker over the regenerated registry (name -> class, kwargs).  kind_ok k is the
   certified-map / determinant statement of the model kind k (MKdelta: not modelled, True). *)
Theorem C07_registry_sound : forall l : list rentry, forallb classified l = true ->
  List.Forall (fun e => exists k, classify e = Some k /\ kind_ok k) l.
Proof. exact registry_sound. Qed.
Print Assumptions C07_registry_sound.

(* ToCartesian: partial derivatives, determinant, |det| = exp (reported + ln sc) *)
Theorem C07_to_cartesian_jacobian : forall a b sc sgn x r, a < b ->
  let th := fun t => sgn * ((t - a) / (b - a)) * sc in
  let k := sgn * sc / (b - a) in
  is_derive (fun t => r * cos (th t)) x (- k * r * sin (th x)) /\
  is_derive (fun q => q * cos (th x)) r (cos (th x)) /\
  is_derive (fun t => r * sin (th t)) x (k * r * cos (th x)) /\
  is_derive (fun q => q * sin (th x)) r (sin (th x)) /\
  (- k * r * sin (th x)) * sin (th x) - cos (th x) * (k * r * cos (th x)) = - (k * r).
Proof. exact to_cartesian_jacobian. Qed.
Print Assumptions C07_to_cartesian_jacobian.

Theorem C07_to_cartesian_logdet : forall a b sc sgn r, a < b -> 0 < sc -> (sgn = 1 \/ sgn = -1) -> 0 < r ->
  Rabs (- (sgn * sc / (b - a) * r)) = exp ((- ln (b - a) + ln r) + ln sc).
Proof. exact to_cartesian_logdet. Qed.
Print Assumptions C07_to_cartesian_logdet.

(* the log-Jacobian expressions evaluated by the tie for the 2-d / 3-d blocks are the quantities of the
   determinant theorems (for the 1-d pipelines this is C07_rtb_denotes) *)
Theorem C07_angle_pair_lj_denotes : forall a v r aux,
  evalR [a; v; r; aux] (Rnd (Add (Rnd (Mul c2 (Rnd (Ln (V 2))))) (Rnd (Ln (Rnd (Sin (V 1))))))) = 2 * ln r + ln (sin v) /\
  evalR [a; v; r; aux] (Rnd (Add (Rnd (Mul c2 (Rnd (Ln (V 2))))) (Rnd (Ln (Rnd (Cos (V 1))))))) = 2 * ln r + ln (cos v).
Proof. exact angle_pair_lj_den. Qed.
Print Assumptions C07_angle_pair_lj_denotes.

Theorem C07_to_cartesian_lj_denotes : forall x r sgn a b sc,
  evalR [x; r; sgn; a; b; sc] (Rnd (Add (Rnd (Neg (Rnd (Ln (Rnd (Sub (V 4) (V 3))))))) (Rnd (Ln (V 1))))) = - ln (b - a) + ln r.
Proof. exact to_cartesian_lj_den. Qed.
Print Assumptions C07_to_cartesian_lj_denotes.

(* reported log_j minus the enclosure of the true value, at two points: separated intervals prove that the
   difference is not one constant *)
Theorem C07_offs_sound : forall m e E D v,
  offs (Some (m, e)) E = Some D -> enclR E v -> enclR D (dyR (m, e) - v).
Proof. exact offs_sound. Qed.
Print Assumptions C07_offs_sound.

Theorem C07_separated_sound : forall Dj Dk dj dk,
  separated Dj Dk = true -> enclR Dj dj -> enclR Dk dk -> dj < dk.
Proof. exact separated_sound. Qed.
Print Assumptions C07_separated_sound.

Theorem C07_scale_shift_denotes : forall x0 s t tl,
  stage_den (x0 :: s :: t :: tl) (st_scale_shift (P 0) (P 1) true) (cm_scale_shift s t).
Proof. exact den_scale_shift. Qed.
Print Assumptions C07_scale_shift_denotes.

(* prime priors of Angle / ToCartesian / AnglePair: the densities of the original space are the derivatives of their
   distribution functions; the formulas of nessai/priors.py at the image of a point equal log p(x) - log_J (+ constant);
   the expressions evaluated by the tie denote log p(x) - log_J *)
Theorem C07_chi2_is_density : forall r, 0 < r ->
  is_derive (fun t => 1 - exp (- (t * t) / 2)) r (exp (chi2_logpdf r)).
Proof. exact chi2_is_density. Qed.
Print Assumptions C07_chi2_is_density.

Theorem C07_sine_is_density : forall a, 0 < a < PI ->
  is_derive (fun t => (1 - cos t) / 2) a (exp (sine_logpdf a)) /\ (1 - cos 0) / 2 = 0 /\ (1 - cos PI) / 2 = 1.
Proof. exact sine_is_density. Qed.
Print Assumptions C07_sine_is_density.

Theorem C07_prime_prior_polar_uniform : forall s th r k,
  prior2d (polar_x s th r) (polar_y s th r) k = chi2_logpdf r - ln r - ln k.
Proof. exact prime_prior_polar_uniform. Qed.
Print Assumptions C07_prime_prior_polar_uniform.

Theorem C07_prime_prior_polar_sine : forall s th r, 0 < r -> 0 < sin (s * th) ->
  prior2d_sine (polar_x s th r) (polar_y s th r) = (sine_logpdf (s * th) + chi2_logpdf r) - ln r.
Proof. exact prime_prior_polar_sine. Qed.
Print Assumptions C07_prime_prior_polar_sine.

Theorem C07_prime_prior_sphere : forall a v r, 0 < r ->
  (0 < sin v -> prior3d (azzen_x a v r) (azzen_y a v r) (azzen_z a v r)
                = (iso_logpdf (sin v) + chi3_logpdf r) - (2 * ln r + ln (sin v))) /\
  (0 < cos v -> prior3d (radec_x a v r) (radec_y a v r) (radec_z a v r)
                = (iso_logpdf (cos v) + chi3_logpdf r) - (2 * ln r + ln (cos v))).
Proof. exact prime_prior_sphere. Qed.
Print Assumptions C07_prime_prior_sphere.

Theorem C07_pp_polar_denotes : forall a r s,
  evalR [a; r] (pp_polar_uniform (V 1)) = chi2_logpdf r - ln r /\
  evalR [a; r; s] (pp_polar_sine (V 0) (V 1) (V 2)) = (sine_logpdf (a * s) + chi2_logpdf r) - ln r.
Proof. intros a r s. split; [exact (pp_polar_uniform_den a r)|exact (pp_polar_sine_den a r s)]. Qed.
Print Assumptions C07_pp_polar_denotes.

Theorem C07_pp_sphere_denotes : forall a v r,
  evalR [a; v; r] (pp_sphere true (V 1) (V 2)) = (iso_logpdf (sin v) + chi3_logpdf r) - (2 * ln r + ln (sin v)) /\
  evalR [a; v; r] (pp_sphere false (V 1) (V 2)) = (iso_logpdf (cos v) + chi3_logpdf r) - (2 * ln r + ln (cos v)).
Proof. exact pp_sphere_den. Qed.
Print Assumptions C07_pp_sphere_denotes.
