(* C15 - property theorems.  Statements, [exact], [Print Assumptions]; nothing else. *)
From Coq Require Import String.
From Coq Require Import List ZArith Bool Reals.
Import ListNotations.
From NessaiV Require Import Lib.Enclose Model.C15_Stop Proofs.C15_Stop_proofs
                            Model.C15_Criteria Proofs.C15_Criteria_proofs.
Local Open Scope Z_scope.

(* ---- the standard sampler stops at the FIRST iteration whose condition is at or below the tolerance,
   or at the iteration cap (tested after the body).  For every skeleton whose tests satisfy the
   predicates (re-proved on every run for the tests regenerated from /repo), every tolerance, cap
   (None = no cap), start state and oracle stream.  cond_at c0 stream k = the condition after k bodies. *)
Theorem C15_std_first_stop :
  forall (sk : sskel) (cfg : scfg) (st : sst) (stream : list (Z * Z)) (s : sst) (n : nat) (oof : bool),
    P_spre (k_spre sk) -> P_post (k_spost sk) ->
    sloop sk cfg st stream = (s, n, oof) ->
    (n <= length stream)%nat /\
    s_cond s = cond_at (s_cond st) stream n /\ s_it s = s_it st + Z.of_nat n /\
    (forall j, (j < n)%nat ->
       sc_tol cfg < cond_at (s_cond st) stream j /\
       ((1 <= j)%nat -> xle (sc_cap cfg) (Some (s_it st + Z.of_nat j)) = false)) /\
    (oof = false ->
       cond_at (s_cond st) stream n <= sc_tol cfg \/
       ((1 <= n)%nat /\ xle (sc_cap cfg) (Some (s_it st + Z.of_nat n)) = true)) /\
    (oof = true -> n = length stream /\ sc_tol cfg < cond_at (s_cond st) stream n).
Proof. exact std_first_stop. Qed.
Print Assumptions C15_std_first_stop.

(* ---- the importance sampler stops at the first iteration at or beyond min_iteration at which the
   criteria, combined by any/all, meet their tolerances - or at its cap *)
Theorem C15_ins_first_stop :
  forall (sk : iskel) (cfg : icfg) (st : ist) (stream : list (list Z * nat * list Z)) (s : ist) (n : nat) (oof : bool),
    P_ipre (k_ipre sk) -> P_post (k_ipost sk) -> P_reached (k_reached sk) ->
    iloop sk cfg st stream = (s, n, oof) ->
    (n <= length stream)%nat /\
    i_crit s = crit_at (i_crit st) stream n /\ i_it s = i_it st + Z.of_nat n /\
    (forall j, (j < n)%nat ->
       ins_stop_now cfg (crit_at (i_crit st) stream j) (i_it st + Z.of_nat j) = false /\
       ((1 <= j)%nat -> xle (ic_cap cfg) (Some (i_it st + Z.of_nat j)) = false)) /\
    (oof = false ->
       ins_stop_now cfg (crit_at (i_crit st) stream n) (i_it st + Z.of_nat n) = true \/
       ((1 <= n)%nat /\ xle (ic_cap cfg) (Some (i_it st + Z.of_nat n)) = true)) /\
    (oof = true -> n = length stream /\
       ins_stop_now cfg (crit_at (i_crit st) stream n) (i_it st + Z.of_nat n) = false).
Proof. exact ins_first_stop. Qed.
Print Assumptions C15_ins_first_stop.

(* any / all in logical terms *)
Theorem C15_reached_any :
  forall crit tol, reached true crit tol = true <->
    exists i, (i < length crit)%nat /\ (i < length tol)%nat /\ nth i crit 0 <= nth i tol 0.
Proof. exact reached_any_spec. Qed.
Print Assumptions C15_reached_any.
Theorem C15_reached_all :
  forall crit tol, reached false crit tol = true <->
    forall i, (i < length crit)%nat -> (i < length tol)%nat -> nth i crit 0 <= nth i tol 0.
Proof. exact reached_all_spec. Qed.
Print Assumptions C15_reached_all.

(* every alias table in which no alias is listed twice (the table is regenerated data): the i-th
   configured criterion is the canonical name of the i-th name given, so tolerance i meets criterion i *)
Theorem C15_alias_sound :
  forall (t : atable) (names ks : list string),
    atable_ok t = true ->
    Forall2 (fun a k => exists al, In (k, al) t /\ In a al) names ks ->
    resolve t names = ks.
Proof. exact alias_sound. Qed.
Print Assumptions C15_alias_sound.

(* ---- finalise: every remaining live point is consumed exactly once ----------------------------- *)
Theorem C15_finalise_checker_sound :
  forall effs st l, fin_ok effs = true -> s_live st = Some l ->
    finalise effs st = finalised_state st l.
Proof. exact fin_ok_sound. Qed.
Print Assumptions C15_finalise_checker_sound.

Theorem C15_consume_all_once :
  forall (sk : sskel) (cfg : scfg) (st : sst) (stream : list (Z * Z)) (st1 : sst) (n : nat) (oof : bool) (l0 : list Z),
    P_std sk -> sc_prior cfg = false ->
    s_fin st = false -> s_live st = Some l0 ->
    s_loop sk cfg st stream = (st1, n, oof) -> s_cond st1 <= sc_tol cfg ->
    s_live st1 = None /\ s_fin st1 = true /\ s_err st1 = s_err st /\
    s_ns st1 = s_ns st ++ l0 ++ map snd (firstn n stream).
Proof. exact std_consume_all_once. Qed.
Print Assumptions C15_consume_all_once.

Theorem C15_consume_all_once_ins :
  forall (sk : iskel) (cfg : icfg) (st : ist) stream (st1 : ist) (n : nat) (oof : bool) (l0 : list Z),
    P_entry (k_ientry sk) -> k_ifin_always sk = true ->
    i_fin st = false -> i_live st = Some l0 ->
    i_run sk cfg st stream = (st1, n, oof) ->
    i_live st1 = None /\ i_fin st1 = true /\
    i_dead st1 = i_dead st ++ l0 ++ List.concat (map snd (firstn n stream)).
Proof. exact ins_consume_all_once. Qed.
Print Assumptions C15_consume_all_once_ins.

(* ---- idempotence ------------------------------------------------------------------------------- *)
(* standard sampler, a run that ended with the condition at or below the tolerance (however it ended):
   running again / resuming executes no body and returns the same state, for every oracle *)
Theorem C15_idempotent :
  forall (sk : sskel) (cfg : scfg) (st : sst) (fresh : list Z) (stream : list (Z * Z)) (st1 : sst) (n1 : nat) (oof1 : bool),
    P_std sk -> sc_prior cfg = false ->
    s_run sk cfg st fresh stream = (st1, n1, oof1) -> s_cond st1 <= sc_tol cfg ->
    forall fresh' stream', s_run sk cfg st1 fresh' stream' = (st1, 0%nat, false).
Proof. exact std_idempotent. Qed.
Print Assumptions C15_idempotent.

(* importance sampler: for EVERY way the loop can end *)
Theorem C15_idempotent_ins :
  forall (sk : iskel) (cfg : icfg) (st : ist) stream (st1 : ist) (n : nat) (oof : bool),
    P_entry (k_ientry sk) -> k_ifin_always sk = true ->
    i_run sk cfg st stream = (st1, n, oof) ->
    forall stream', i_run sk cfg st1 stream' = (st1, 0%nat, false).
Proof. exact ins_idempotent. Qed.
Print Assumptions C15_idempotent_ins.

(* D4: the full-strength reading is FALSE for a standard run stopped by max_iteration ... *)
Theorem C15_idempotent_cap_refuted :
  exists (cfg : scfg) (st : sst) (stream stream' : list (Z * Z)) (st1 st2 : sst),
    sc_prior cfg = false /\
    s_run std_sk cfg st [] stream = (st1, 3%nat, false) /\       (* the first run ends at the cap *)
    s_run std_sk cfg st1 [] stream' = (st2, 1%nat, false) /\     (* running again executes a body *)
    s_it st2 = s_it st1 + 1 /\ s_ns st2 <> s_ns st1.
Proof.
  exists {| sc_tol := 10; sc_cap := Some 3; sc_prior := false |},
         {| s_cond := 1000; s_it := 0; s_fin := false; s_live := Some [1; 2]; s_ns := []; s_err := false |},
         [(900, 3); (800, 4); (700, 5)], [(600, 6)].
  eexists. eexists. split; [reflexivity|]. split; [vm_compute; reflexivity|].
  split; [vm_compute; reflexivity|]. split; [reflexivity|]. cbn. discriminate.
Qed.
Print Assumptions C15_idempotent_cap_refuted.

(* ... and in general: at or beyond the cap with the condition above the tolerance, EVERY further
   run / resume executes exactly one more body *)
Theorem C15_cap_rerun_one_more :
  forall (sk : sskel) (cfg : scfg) (st : sst) (fresh : list Z) (o : Z * Z) (r : list (Z * Z)) (l : list Z),
    P_std sk -> sc_prior cfg = false ->
    s_fin st = false -> s_live st = Some l -> sc_tol cfg < s_cond st ->
    xle (sc_cap cfg) (Some (s_it st)) = true ->
    exists st2, s_run sk cfg st fresh (o :: r) = (st2, 1%nat, false) /\ s_it st2 = s_it st + 1.
Proof. exact std_cap_rerun_one_more. Qed.
Print Assumptions C15_cap_rerun_one_more.

(* a prior-sampling run is finalised with the condition still infinite: the next run() clears the
   flag, finalises again and iterates over live points that are None (TypeError in the real code) *)
Theorem C15_idempotent_prior_refuted :
  exists (cfg : scfg) (st st1 : sst) (fresh : list Z),
    sc_prior cfg = true /\
    s_run std_sk cfg st fresh [] = (st1, 0%nat, false) /\ s_fin st1 = true /\ s_err st1 = false /\
    s_err (fst (fst (s_run std_sk cfg st1 fresh []))) = true.
Proof.
  exists {| sc_tol := 10; sc_cap := None; sc_prior := true |},
         {| s_cond := 1000; s_it := 0; s_fin := false; s_live := None; s_ns := []; s_err := false |}.
  eexists. exists [1; 2; 3]. split; [reflexivity|]. split; [vm_compute; reflexivity|].
  repeat split.
Qed.
Print Assumptions C15_idempotent_prior_refuted.

(* ---- the criteria equal their definitions recomputed from the samples --------------------------- *)
(* a case of the correspondence that evaluates to true is a statement about real numbers:
   |definition(samples) - reported float| <= 2^-30 (1 + |definition|) *)
Theorem C15_criteria_defs :
  forall (p : prec) (c : ccase), run_ccase p c = true -> ccase_ok c.
Proof. exact ccase_sound. Qed.
Print Assumptions C15_criteria_defs.

(* Z_err as coded is exp(u / Zhat) >= 1 for every sample set: with a tolerance below one the
   "evidence error" criterion is never met (finding D10) *)
Theorem C15_Zerr_never_below_one :
  forall (l : list xlog) (tol : R), has_finite l -> (tol < 1)%R -> ~ (zerr_code_R l <= tol)%R.
Proof. exact zerr_code_never_met. Qed.
Print Assumptions C15_Zerr_never_below_one.

(* the standard sampler's condition ln(Z + Lmax X_it) - ln Z is positive in every state and, for a fixed
   evidence and largest likelihood, strictly decreasing in the iteration count *)
Theorem C15_stdcond_positive_decreasing :
  forall (z l : R) (it it' nlive : Z),
    (0 < stdcond_R z l it nlive)%R
    /\ ((0 < nlive)%Z -> (it < it')%Z -> (stdcond_R z l it' nlive < stdcond_R z l it nlive)%R).
Proof. intros z l it it' nlive. split; [apply stdcond_pos|apply stdcond_decreasing]. Qed.
Print Assumptions C15_stdcond_positive_decreasing.

(* ... and it depends on the state only through logLmax - it / nlive - logZ: ln(1 + Lmax X_it / Z) *)
Theorem C15_stdcond_closed_form : forall (z l : R) (it nlive : Z),
  stdcond_R z l it nlive = ln (1 + exp (l - IZR it / IZR nlive - z)).
Proof. exact stdcond_closed. Qed.
Print Assumptions C15_stdcond_closed_form.

(* ---- non-vacuity --------------------------------------------------------------------------------- *)
Example C15_hand_skeletons_ok : P_std std_sk /\ P_ins ins_sk.
Proof. split; [exact std_sk_ok|exact ins_sk_ok]. Qed.

Example C15_nonvacuous :
  (* tolerance reached at the third body; equality counts as reached *)
  sloop std_sk {| sc_tol := 10; sc_cap := None; sc_prior := false |}
        {| s_cond := 1000; s_it := 0; s_fin := false; s_live := Some [1]; s_ns := []; s_err := false |}
        [(30, 2); (20, 3); (10, 4); (5, 5)]
  = ({| s_cond := 10; s_it := 3; s_fin := false; s_live := Some [4]; s_ns := [1; 2; 3]; s_err := false |}, 3%nat, false)
  /\ reached true [5; 1] [0; 1] = true /\ reached false [5; 1] [0; 1] = false
  /\ resolve [("ratio", ["ratio"; "ratio_all"]); ("Z_err", ["Z_err"; "evidence_error"])]%string
             ["evidence_error"; "ratio_all"]%string = ["Z_err"; "ratio"]%string
  /\ fin_ok std_effs = true.
Proof. vm_compute. repeat split. Qed.
