(* C02 - property theorems.  Statements, [exact], [Print Assumptions]; nothing else.
   Model: Model/C02_Quadrature.v (reals, likelihoods in the linear domain L = exp logL, 0 for -inf). *)
From Coq Require Import Reals ZArith List Bool.
From NessaiV Require Import Lib.Enclose Model.C02_Quadrature Proofs.C02_Quadrature_proofs
  Run.C02_run Proofs.C02_Encl_proofs.
Import ListNotations.
Local Open Scope R_scope.

(* log prior volumes start at 0 and strictly decrease; volumes start at 1, strictly decrease and stay
   positive - for every schedule of live counts n_i >= 1 (positive), in both expectation modes *)
Theorem C02_vols : forall (md : mode) (ns : list positive),
  hd 0 (lvols md ns) = 0 /\ strict_dec (lvols md ns) /\ length (lvols md ns) = S (length ns) /\
  hd 0 (vols md ns) = 1 /\ strict_dec (vols md ns) /\ Forall (fun x => 0 < x) (vols md ns).
Proof. exact vols_spec. Qed.
Print Assumptions C02_vols.

(* the two expectations are the documented ones: t = exp(-1/n)  and  t = n/(n+1) *)
Theorem C02_shrinkage : forall n : positive,
  exp (logt LogT n) = exp (- / nR n) /\ exp (logt TT n) = nR n / (nR n + 1).
Proof. intro n. split; [exact (logt_LogT_exp n)|exact (logt_TT_ratio n)]. Qed.
Print Assumptions C02_shrinkage.

(* the state after any sequence of increment calls holds the one-pass rectangle sum, the cumulative
   log-volumes and the likelihood history *)
Theorem C02_incremental_eq_onepass : forall (md : mode) (ls : list xlog) (ns : list positive),
  length ls = length ns ->
  let s := ns_run md ls ns in
  sZ s = Zrect md ls ns /\ st_log_vols s = lvols md ns /\ sLs s = ls /\ slogw s = last (lvols md ns) 0.
Proof. exact incremental_eq_onepass. Qed.
Print Assumptions C02_incremental_eq_onepass.

(* finalise() and log_posterior_weights of the state are the same functions of (logL, n) as
   compute_weights: trapezoid with the point (L = 0, X = 1) in front and the closing point
   (L_m, X = 0) at the end, rectangle weights L_i (X_{i-1} - X_i) / Z *)
Theorem C02_state_eq_compute_weights : forall (md : mode) (ls : list xlog) (ns : list positive),
  length ls = length ns ->
  let s := ns_run md ls ns in
  st_Z s = cw_Z md ls ns /\ st_w s = cw_w md ls ns.
Proof. exact state_eq_compute_weights. Qed.
Print Assumptions C02_state_eq_compute_weights.

(* ... in particular for a sampler run: [iters] increments with the default nlive followed by the
   nlive - i increments of NestedSampler.finalise give compute_weights(samples, nlive : int) *)
Theorem C02_sampler_eq_compute_weights_int : forall (md : mode) (n iters : nat) (ls : list xlog),
  length ls = (iters + n)%nat -> (1 <= n)%nat ->
  let s := ns_run md ls (sampler_schedule n iters) in
  st_Z s = cw_Z md ls (cw_schedule n (length ls)) /\ st_w s = cw_w md ls (cw_schedule n (length ls)).
Proof.
  intros md n iters ls Hl Hn. rewrite sampler_schedule_eq, Hl.
  apply state_eq_compute_weights. rewrite cw_schedule_length; [exact Hl|apply PeanoNat.Nat.le_add_l].
Qed.
Print Assumptions C02_sampler_eq_compute_weights_int.

(* some likelihood is non-zero -> both evidences are positive (their logarithms are meaningful) *)
Theorem C02_evidence_positive : forall (md : mode) (ls : list xlog) (ns : list positive),
  length ls = length ns -> has_finite ls -> 0 < cw_Z md ls ns /\ 0 < Zrect md ls ns.
Proof. intros md ls ns Hl Hf. split; [exact (Z_pos md ls ns Hl Hf)|exact (Zrect_pos md ls ns Hl Hf)]. Qed.
Print Assumptions C02_evidence_positive.

(* multiplying every likelihood by c = exp a > 0 multiplies Z by c; adding a to every log-likelihood
   shifts log Z by exactly a and leaves linear and logarithmic weights unchanged *)
Theorem C02_shift : forall (md : mode) (ls : list xlog) (ns : list positive) (a : R),
  cw_Z md (map (shift a) ls) ns = exp a * cw_Z md ls ns /\
  (length ls = length ns -> has_finite ls ->
   cw_lnZ md (map (shift a) ls) ns = cw_lnZ md ls ns + a
   /\ cw_w md (map (shift a) ls) ns = cw_w md ls ns
   /\ cw_lnw md (map (shift a) ls) ns = cw_lnw md ls ns).
Proof. intros md ls ns a. split; [exact (Z_shift md ls ns a)|exact (shift_thm md ls ns a)]. Qed.
Print Assumptions C02_shift.

(* the log-weights the code returns are the logarithms of the rectangle weights (-inf for L = 0) *)
Theorem C02_log_weights : forall (md : mode) (ls : list xlog) (ns : list positive),
  length ls = length ns -> has_finite ls -> map xexp (cw_lnw md ls ns) = cw_w md ls ns.
Proof. exact lnw_spec. Qed.
Print Assumptions C02_log_weights.

(* none of the above assumes the log-likelihoods sorted: ties, leading -inf and even decreasing
   sequences are covered (all statements together, no order hypothesis) *)
Theorem C02_monotone_needed_nowhere : forall (md : mode) (ls : list xlog) (ns : list positive) (a : R),
  length ls = length ns -> has_finite ls ->
  sZ (ns_run md ls ns) = Zrect md ls ns
  /\ st_Z (ns_run md ls ns) = cw_Z md ls ns /\ st_w (ns_run md ls ns) = cw_w md ls ns
  /\ cw_lnZ md (map (shift a) ls) ns = cw_lnZ md ls ns + a
  /\ cw_lnw md (map (shift a) ls) ns = cw_lnw md ls ns.
Proof.
  intros md ls ns a Hl Hf.
  destruct (incremental_eq_onepass md ls ns Hl) as (H1 & _).
  destruct (state_eq_compute_weights md ls ns Hl) as (H2 & H3).
  destruct (shift_thm md ls ns a Hl Hf) as (H4 & _ & H5).
  repeat split; assumption.
Qed.
Print Assumptions C02_monotone_needed_nowhere.

(* the interval twins enclose the real quadrature and its tolerance *)
Theorem C02_encl : forall (p : prec) (md : mode) (li : list (option I.type)) (ls : list xlog) (ns : list positive),
  Forall2 xencl li ls -> length ls = length ns -> has_finite ls ->
  let q := quad_I p md li ns in
  Forall2 encl (q_lv q) (lvols md ns)
  /\ encl (q_lnZrect q) (ln (Zrect md ls ns))
  /\ encl (q_lnZ q) (cw_lnZ md ls ns)
  /\ Forall2 xencl (q_lnw q) (cw_lnw md ls ns)
  /\ encl (q_tol q) (tol_q md ls ns).
Proof. exact quad_encl. Qed.
Print Assumptions C02_encl.

(* what an empty answer of the correspondence check means: every float64 output of the implementation
   (an exact dyadic) is within the stated tolerance of the real quadrature at the exact dyadic inputs *)
Theorem C02_check_sound : forall (p : prec) (md : mode) (lsd : list (option dyad)) (ns : list positive) (gs : list group),
  check_case p (md, lsd, ns, gs) = [] -> Forall (group_ok md (map dyoR lsd) ns) gs.
Proof. exact check_case_sound. Qed.
Print Assumptions C02_check_sound.

(* tie A: every accepted spelling of the shrinkage expression denotes the model's; the schedule passed by
   NestedSampler.finalise continues a constant schedule into compute_weights' n,..,n,n-1,..,1 *)
Theorem C02_shrink_checker_sound : forall (md : mode) (e : sexp) (n : positive),
  shrink_ok md e = true -> sden e (nR n) = logt md n.
Proof. exact shrink_ok_sound. Qed.
Print Assumptions C02_shrink_checker_sound.

Theorem C02_schedule_checker_sound : forall e : zexp, sched_ok e = true ->
  forall n iters : nat, (1 <= n)%nat ->
  repeat (Z.of_nat n) iters ++ final_schedule e n = map Zpos (cw_schedule n (iters + n)).
Proof. exact sched_ok_sound. Qed.
Print Assumptions C02_schedule_checker_sound.

(* non-vacuity: outputs of the real code for logL = [-inf, -1.5, 0.25, 0.25], nlive = 3 (schedule 3,3,2,1)
   pass the check; a log-evidence off by 1e-6 does not *)
Example C02_nonvacuous :
  check_case P100
    (LogT, [None; Some (-3, -1)%Z; Some (1, -2)%Z; Some (1, -2)%Z], [3; 3; 2; 1]%positive,
     [(0%nat, [Some (0, 0)%Z; Some (-6004799503160661, -54)%Z; Some (-6004799503160661, -53)%Z;
               Some (-2627099782632789, -51)%Z; Some (-4878899596318037, -51)%Z]);
      (1%nat, [Some (-2631702948491077, -52)%Z]);
      (2%nat, [Some (-2494236645628953, -52)%Z]);
      (3%nat, [None; Some (-2859960444070915, -50)%Z; Some (-1791502671128291, -51)%Z;
               Some (-3699752226643371, -52)%Z])]) = []
  /\ check_case P100
    (LogT, [None; Some (-3, -1)%Z; Some (1, -2)%Z; Some (1, -2)%Z], [3; 3; 2; 1]%positive,
     [(2%nat, [Some (-2494236645628953 + 4503599627, -52)%Z])]) = [0%nat]
  /\ cw_schedule 3 4 = [3; 3; 2; 1]%positive /\ sampler_schedule 3 1 = [3; 3; 2; 1]%positive.
Proof. vm_compute. repeat split. Qed.
