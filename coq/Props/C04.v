(* C04 - property theorems.  Statements, [exact], [Print Assumptions]; nothing else. *)
From Coq Require Import List ZArith Bool Arith Sorting.Sorted Sorting.Permutation.
Import ListNotations.
From NessaiV Require Import Lib.ListOps Lib.ListOps_proofs Model.C04_Store Proofs.C04_Store_proofs Proofs.C04_Status_proofs.

(* A history: initial insertion, then any sequence (no depth bound) of batch insertions,
   threshold updates, removals and finalisation, in any of the four modes.  If every call
   returns (no call raises), the resulting store is sorted by likelihood, has one log_q row
   per sample, its live and discarded index lists are strictly increasing and together
   contain every stored sample exactly once. *)
Theorem C04_history_inv :
  forall (st rp : bool) (b : list (srow * qrow)) (ops : list op) (s' : store),
    forallb (fun o => negb (is_init o)) ops = true ->
    steps (add_initial (empty_store st rp) b) ops = Some s' ->
    ksorted key (rows s')
    /\ length (lq s') = length (rows s')
    /\ sincr (dead s') /\ sincr (live_list s')
    /\ Permutation (dead s' ++ live_list s') (seq 0 (length (rows s'))).
Proof.
  intros st rp b ops s' Hn H.
  destruct (steps_inv ops _ s' (add_initial_inv (empty_store st rp) b eq_refl) Hn H) as [H1 H2 H3 H4 H5].
  exact (conj H1 (conj H2 (conj H3 (conj H4 H5)))).
Qed.
Print Assumptions C04_history_inv.

(* Every sample ever added is still present, unmodified, with its own log_q row attached:
   the multiset of (sample, row) pairs is exactly the initial batch plus all added batches. *)
Theorem C04_history_content :
  forall (st rp : bool) (b : list (srow * qrow)) (ops : list op) (s' : store),
    forallb (fun o => negb (is_init o)) ops = true ->
    steps (add_initial (empty_store st rp) b) ops = Some s' ->
    Permutation (combine (rows s') (lq s')) (b ++ added ops).
Proof.
  intros st rp b ops s' Hn H.
  pose proof (steps_content ops _ s' (add_initial_inv (empty_store st rp) b eq_refl) Hn H) as Hc.
  eapply Permutation_trans; [exact Hc|]. apply Permutation_app_tail.
  cbn. rewrite combine_fst_snd'. apply sort_samples_perm.
Qed.
Print Assumptions C04_history_content.

(* Strict threshold: after add_samples the live set is exactly the samples at or above the
   threshold and the discarded set exactly those strictly below. *)
Theorem C04_strict_live_exact :
  forall (s s' : store) (b : list (srow * qrow)) (t : Z),
    Inv s -> strict s = true -> thr s = Some t -> add_samples s b = Some s' ->
    forall i, i < length (rows s') ->
      (In i (live_list s') <-> (t <= key (nth i (rows s') dflt_row))%Z) /\
      (In i (dead s') <-> (key (nth i (rows s') dflt_row) < t)%Z).
Proof. intros s s' b t HI. exact (add_samples_strict s b HI s' t). Qed.
Print Assumptions C04_strict_live_exact.

(* remove_samples reports exactly the number of live samples strictly below the threshold,
   removes exactly that many, and leaves no live sample below the threshold. *)
Theorem C04_removed_count :
  forall (s s' : store) (n : nat) (t : Z),
    Inv s -> repl s = false -> thr s = Some t -> remove_samples s = Some (s', n) ->
    n = length (filter (fun i => (key (nth i (rows s) dflt_row) <? t)%Z) (live_list s))
    /\ (forall i, In i (live_list s') -> (t <= key (nth i (rows s) dflt_row))%Z)
    /\ length (live_list s') = length (live_list s) - n.
Proof. exact remove_count. Qed.
Print Assumptions C04_removed_count.

Theorem C04_removed_count_replace_all :
  forall (s s' : store) (n : nat),
    repl s = true -> remove_samples s = Some (s', n) -> n = length (live_list s) /\ live s' = None.
Proof. exact remove_count_all. Qed.
Print Assumptions C04_removed_count_replace_all.

(* Each single call preserves the invariant (this is what C12 uses after a resume). *)
Theorem C04_step_inv :
  forall s o s' n, Inv s -> is_init o = false -> step s o = Some (s', n) -> Inv s'.
Proof. exact step_inv. Qed.
Print Assumptions C04_step_inv.

(* Statuses are preserved (soft threshold): after add_samples every discarded index points at the very
   sample it pointed at before, every previously live index likewise, the new live indices point at the
   batch; old_indices / new_indices are exactly the positions of the old samples / of the batch in the
   new store.  Hypothesis: samples are distinguishable (no two stored or added samples are identical). *)
Theorem C04_status_preserved :
  forall (s s' : store) (b : list (srow * qrow)),
    Inv s -> NoDup (rows s ++ map fst b) -> strict s = false -> add_samples s b = Some s' ->
    take dflt_row (rows s') (dead s') = take dflt_row (rows s) (dead s)
    /\ Permutation (take dflt_row (rows s') (live_list s')) (take dflt_row (rows s) (live_list s) ++ map fst b).
Proof. intros s s' b HI Hd. exact (status_preserved s b HI Hd s'). Qed.
Print Assumptions C04_status_preserved.

Theorem C04_index_remap :
  forall (s : store) (b : list (srow * qrow)),
    Inv s -> NoDup (rows s ++ map fst b) ->
    let new := add_arange 0 (a_idx s b) in
    take dflt_row (a_rows s b) new = a_bs b
    /\ take dflt_row (a_rows s b) (inverse_indices (length (a_rows s b)) new) = rows s.
Proof. intros s b HI Hd new. split; [exact (new_positions s b)|exact (old_positions s b Hd)]. Qed.
Print Assumptions C04_index_remap.

(* Refuted variant (defect D6, repaired in /repo by a fix: commit): locating the threshold with
   argmax of the mask reports 0 removed samples when the threshold is above every live sample. *)
Theorem C04_argmax_variant_refuted :
  exists (l : list srow) (t : Z),
    argmax_ge l t <> length (filter (fun r => (key r <? t)%Z) l).
Proof.
  exists [{| key := 1; sid := 0 |}; {| key := 2; sid := 1 |}], 5%Z. vm_compute. discriminate.
Qed.
Print Assumptions C04_argmax_variant_refuted.

(* non-vacuity: a history with ties, a batch below the lowest discarded sample, a threshold equal to
   stored likelihoods, in soft mode; every call returns *)
Example C04_nonvacuous :
  let mk k i := ({| key := k; sid := i |}, i) in
  let ops := [OThr 2%Z; ORemove; OAdd [mk 0%Z 4; mk 2%Z 5; mk 2%Z 6; mk 9%Z 7]; OThr 3%Z; ORemove;
              OAdd [mk (-5)%Z 8]; OFinalise] in
  match steps (add_initial (empty_store false false) [mk 2%Z 0; mk 1%Z 1; mk 2%Z 2; mk 7%Z 3]) ops with
  | Some s => map sid (rows s) = [8; 4; 1; 5; 6; 0; 2; 3; 7] /\ lq s = map sid (rows s)
              /\ dead s = seq 0 9 /\ live s = None
  | None => False
  end.
Proof. vm_compute. repeat split. Qed.
