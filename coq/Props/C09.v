(* C09 - property theorems.  Statements, [exact], [Print Assumptions]; nothing else.
   [sub] is the float subtraction of two finite numbers: the discrete theorems hold for EVERY such function.
   NOT proved: "the pool is distributed as the prior restricted to the contour" (statistical; the code normalises by the
   maximum weight of the batch).  C09_rejection_identity is the exact finite identity behind that clause. *)
From Coq Require Import List ZArith Bool Arith Permutation Reals QArith.
Import ListNotations.
From NessaiV Require Import Model.C09_Pool Model.C09_Radial Proofs.C09_Pool_proofs Proofs.C09_Radial_proofs.
Local Open Scope nat_scope.

(* FlowProposal.populate (plain): every pool point is one of the candidates the flow produced, lies inside the prior
   bounds, has a finite log-prior and a finite flow log-density - whatever the prior returns elsewhere (-inf, NaN, +inf). *)
Theorem C09_pool_in_support : forall sub strict minlq N bs pool k,
  flow_populate sub strict minlq N bs = Done (pool, k) ->
  Forall (fun c => In c (concat (map cands bs)) /\ inb c = true /\ is_fin (lp c) = true /\ is_fin (lq c) = true) pool.
Proof. exact pool_in_support_plain. Qed.
Print Assumptions C09_pool_in_support.

(* accumulate_weights: the same, for priors that never return +inf (see C09_acc_needs_prior_not_pinf) *)
Theorem C09_pool_in_support_acc : forall sub strict minlq N maxs bs fus pool normal k,
  acc_populate sub strict minlq N maxs bs fus = Done (pool, normal, k) ->
  (forall c, In c (concat (map cands bs)) -> lp c <> PInf) ->
  Forall (fun c => In c (concat (map cands bs)) /\ inb c = true /\ is_fin (lp c) = true /\ is_fin (lq c) = true) pool.
Proof. exact pool_in_support_acc. Qed.
Print Assumptions C09_pool_in_support_acc.

Theorem C09_acc_needs_prior_not_pinf :
  exists pool k, acc_populate exact_sub true None 1 1000 witness_batches [] = Done (pool, true, k) /\
                 exists c, In c pool /\ lp c = PInf.
Proof. exact acc_needs_prior_not_pinf. Qed.
Print Assumptions C09_acc_needs_prior_not_pinf.

(* the code before the fix: commit (z not masked with isfinite(log_prob), strict = true) aborts with IndexError a
   population that the repaired code (strict = false) completes - replayed on a repo copy with the fix reverted *)
Theorem C09_backward_pass_z_unmasked_refuted :
  flow_populate exact_sub true None 1 z_unmasked_witness = Raised /\
  flow_populate exact_sub false None 1 z_unmasked_witness = Done ([w_cand 0 (Fin (-2) 0)], 0).
Proof. exact backward_pass_z_unmasked_refuted. Qed.
Print Assumptions C09_backward_pass_z_unmasked_refuted.

(* RejectionProposal.populate: accepted points have a finite log-prior; at most N of them *)
Theorem C09_pool_in_support_rejection : forall sub cs us pool,
  rej_populate sub cs us = Some pool ->
  Forall (fun c => In c cs /\ is_fin (lp c) = true) pool /\ length pool <= length cs.
Proof. exact rej_populate_spec. Qed.
Print Assumptions C09_pool_in_support_rejection.

(* Model.new_point (N > 1), AnalyticProposal.populate, ImportanceNestedSampler.populate_live_points: exactly N points, all
   drawn candidates with a finite log-prior *)
Theorem C09_prior_draws : forall N bs out k, new_points N bs = Some (out, k) ->
  length out = N /\ Forall (fun c => is_fin (lp c) = true /\ In c (concat bs)) out.
Proof. exact new_points_spec. Qed.
Print Assumptions C09_prior_draws.

(* ImportanceFlowProposal.draw: exactly n points, inside the unit hypercube with a finite log-prior *)
Theorem C09_ins_draw : forall N bs out k, ins_draw N bs = Some (out, k) ->
  length out = N /\ Forall (fun c => (inb c = true /\ is_fin (lp c) = true) /\ In c (concat bs)) out.
Proof. exact ins_draw_spec. Qed.
Print Assumptions C09_ins_draw.

(* ImportanceFlowProposal.draw_from_flows (whose output draw_final_samples hands to the likelihood): only candidates inside
   the unit hypercube with a finite log-prior are returned *)
Theorem C09_draw_from_flows : forall cs,
  Forall (fun c => (inb c = true /\ is_fin (lp c) = true) /\ In c cs) (ins_from_flows cs).
Proof. exact ins_from_flows_spec. Qed.
Print Assumptions C09_draw_from_flows.

(* AugmentedFlowProposal._marginalise_augment (marginalise_augment=True): the points are repeated n_marg times consecutively
   and the terms are reduced over consecutive blocks of n_marg, so the value returned for a point is the reduction over the
   terms of THAT point's own augment draws - for every batch, every n_marg >= 1 and every reduction (logsumexp oracle) ... *)
Theorem C09_marginalise_own_point : forall (X A B : Type) (reduce : list A -> B) (n : nat) (g : X -> list A) (l : list X),
  0 < n -> (forall x, length (g x) = n) ->
  marginalise reduce n (flat_map g l) = map (fun x => reduce (g x)) l.
Proof. exact @marginalise_own_point. Qed.
Print Assumptions C09_marginalise_own_point.

(* ... and the transposed grouping (reshape(n_marg, -1) reduced along axis 0) is refuted: two points, two draws *)
Theorem C09_marginalise_strided_refuted : exists (n : nat) (l : list nat),
  let terms := flat_map (fun x => map (fun k => 10 * x + k) (seq 0 n)) l in
  blocks n terms = map (fun x => map (fun k => 10 * x + k) (seq 0 n)) l /\
  strided 0 n terms <> map (fun x => map (fun k => 10 * x + k) (seq 0 n)) l.
Proof. exact strided_refuted. Qed.
Print Assumptions C09_marginalise_strided_refuted.

(* AugmentedFlowProposal (marginalise_augment = False): the log-prior in the rejection weights is the model's log-prior plus
   the Gaussian log-density of EVERY augment parameter: changing any one factor by d changes it by d ... *)
Theorem C09_augmented_prior_every_factor : forall (m : Z) (es1 : list Z) (e : Z) (es2 : list Z) (d : Z),
  full_prior Z.add 0%Z m (es1 ++ (e + d)%Z :: es2) = (full_prior Z.add 0%Z m (es1 ++ e :: es2) + d)%Z.
Proof. exact full_prior_every_factor. Qed.
Print Assumptions C09_augmented_prior_every_factor.

(* ... and the variant that keeps only the last augment parameter's factor is refuted *)
Theorem C09_augmented_prior_last_only_refuted : exists (m e1 e2 d : Z), d <> 0%Z /\
  last_only_prior Z.add 0%Z m [(e1 + d)%Z; e2] = last_only_prior Z.add 0%Z m [e1; e2] /\
  full_prior Z.add 0%Z m [(e1 + d)%Z; e2] <> full_prior Z.add 0%Z m [e1; e2].
Proof. exact last_only_prior_refuted. Qed.
Print Assumptions C09_augmented_prior_last_only_refuted.

(* a flow pool has exactly the requested size when the loop ends *)
Theorem C09_pool_size : forall sub strict minlq N bs pool k,
  flow_populate sub strict minlq N bs = Done (pool, k) -> length pool = N.
Proof. exact pool_size_plain. Qed.
Print Assumptions C09_pool_size.

(* accumulate_weights: at most N, exactly N unless the max_samples break ended the loop *)
Theorem C09_pool_size_acc : forall sub strict minlq N maxs bs fus pool normal k,
  acc_populate sub strict minlq N maxs bs fus = Done (pool, normal, k) ->
  length pool <= N /\ (normal = true -> length pool = N).
Proof. exact pool_size_acc. Qed.
Print Assumptions C09_pool_size_acc.

(* between two populations the pool rows handed out are pairwise distinct rows of the pool, as many as asked for (at most
   the pool size), and `populated` turns False exactly at the draw that empties the pool *)
Theorem C09_each_once : forall n perm k, Permutation perm (seq 0 n) ->
  NoDup (map fst (draws k perm)) /\ (forall i, In i (map fst (draws k perm)) -> i < n) /\
  length (draws k perm) = Nat.min k n /\
  forall j i p, nth_error (draws k perm) j = Some (i, p) -> p = negb (S j =? n).
Proof. exact draws_perm_spec. Qed.
Print Assumptions C09_each_once.

(* what is handed to the likelihood oracle is a list of in-support candidates, for the modelled evaluation sites *)
Theorem C09_lik_only_in_support : forall sub strict minlq N bs pool k,
  flow_populate sub strict minlq N bs = Done (pool, k) ->
  Forall (fun c => In c (concat (map cands bs)) /\ inb c = true /\ is_fin (lp c) = true /\ is_fin (lq c) = true)
         (lik_batch pool).
Proof. exact pool_in_support_plain. Qed.
Print Assumptions C09_lik_only_in_support.

Theorem C09_lik_only_in_support_acc : forall sub strict minlq N maxs bs fus pool normal k,
  acc_populate sub strict minlq N maxs bs fus = Done (pool, normal, k) ->
  (forall c, In c (concat (map cands bs)) -> lp c <> PInf) ->
  Forall (fun c => In c (concat (map cands bs)) /\ inb c = true /\ is_fin (lp c) = true /\ is_fin (lq c) = true)
         (lik_batch pool).
Proof. exact pool_in_support_acc. Qed.
Print Assumptions C09_lik_only_in_support_acc.

(* the standard sampler's loop only (re)evaluates the point it was handed, and never one whose prior is -inf *)
Theorem C09_yield_evaluates : forall c f x, In x (yield_evaluates c f) -> x = c /\ lp c <> NInf.
Proof. exact yield_evaluates_sub. Qed.
Print Assumptions C09_yield_evaluates.

(* tie A: every list of call sites accepted by the checker hands only in-support points to the likelihood, for every
   source batch satisfying the source's guarantee and every selection made by the masks *)
Theorem C09_sites_sound : forall sk, sites_ok sk = true ->
  forall s, In s sk -> s_flagged s = false ->
  forall sel l, Forall (fun c => src_guarantee (s_src s) c = true) l ->
  Forall (fun c => in_support c = true) (apply_masks (s_masks s) sel l).
Proof. exact sites_sound. Qed.
Print Assumptions C09_sites_sound.

(* radial samplers: |z| <= r * fuzz for every monotone gammaincinv oracle that inverts gammainc at the contour *)
Theorem C09_radius : forall (ginv : R -> R) (umax u rf : R) (g : list R),
  (0 <= rf)%R -> (0 <= umax)%R -> (0 <= u <= 1)%R ->
  (forall x y, (x <= y)%R -> (ginv x <= ginv y)%R) ->
  ginv umax = (rf * rf / 2)%R ->
  norm g <> 0%R ->
  (norm (radial_point (tg_radius ginv umax u) g) <= rf)%R.
Proof. exact tg_radius_bounded. Qed.
Print Assumptions C09_radius.

(* successive populations of one proposal object with radii rs: the k-th population's latent points lie inside the k-th
   contour, because the sampler is rebuilt for the current radius ... *)
Theorem C09_radius_each_population : forall (ginv : R -> R) (umax u fuzz : R) (rs : list R) (k : nat) (g : list R),
  (0 <= sampler_radius rs k)%R -> (0 <= fuzz)%R -> (0 <= umax)%R -> (0 <= u <= 1)%R ->
  (forall x y, (x <= y)%R -> (ginv x <= ginv y)%R) ->
  ginv umax = ((sampler_radius rs k * fuzz) * (sampler_radius rs k * fuzz) / 2)%R ->
  norm g <> 0%R ->
  (norm (radial_point (tg_radius ginv umax u) g) <= sampler_radius rs k * fuzz)%R.
Proof. exact radius_each_population. Qed.
Print Assumptions C09_radius_each_population.

(* ... and the variant that keeps the first population's sampler is refuted (radii 2 then 1: a point at radius 2) *)
Theorem C09_stale_sampler_refuted : exists (rs : list R) (k : nat) (z : list R),
  (norm z <= stale_sampler_radius rs k * 1)%R /\ ~ (norm z <= sampler_radius rs k * 1)%R.
Proof. exact stale_sampler_refuted. Qed.
Print Assumptions C09_stale_sampler_refuted.

Theorem C09_radius_ppf : forall (ppf : R -> R) (sigma umax u rf : R) (g : list R),
  (0 < sigma)%R -> (u <= umax)%R -> (0 <= ppf u)%R ->
  (forall x y, (x <= y)%R -> (ppf x <= ppf y)%R) ->
  ppf umax = (rf / sigma)%R ->
  norm g <> 0%R ->
  (norm (radial_point (tg2_radius ppf sigma u) g) <= rf)%R.
Proof. exact tg2_radius_bounded. Qed.
Print Assumptions C09_radius_ppf.

Theorem C09_radius_ball : forall (root : R -> R) (r fuzz u : R) (g : list R),
  (0 <= r)%R -> (0 <= fuzz)%R -> (0 <= root u <= 1)%R -> norm g <> 0%R ->
  (norm (radial_point (ball_radius root r fuzz u) g) <= fuzz * r)%R.
Proof. exact ball_radius_bounded. Qed.
Print Assumptions C09_radius_ball.

(* draw_surface_nsphere (z = r * g / |g|): every point lies exactly ON the sphere of radius r, and the direction of the
   Gaussian draw is kept (z is a non-negative multiple of g) *)
Theorem C09_surface_radius : forall (r : R) (g : list R),
  (0 <= r)%R -> norm g <> 0%R ->
  norm (radial_point r g) = r /\ exists c : R, (0 <= c)%R /\ radial_point r g = scale c g.
Proof. exact surface_radius. Qed.
Print Assumptions C09_surface_radius.

(* finite rejection sampling: drawing from q and keeping with probability w / wmax yields p, normalised.
   HYPOTHESIS made explicit: the candidates ARE drawn with mass q, i.e. the latent draws follow the density whose log-density
   populate uses as log_q (truncated Gaussian, uniform n-ball / n-sphere via alt_dist, Gaussian, uniform, the flow's base).
   That is an oracle about numpy / scipy / the latent samplers; it is validated on every run by exact binomial bounds on the
   real draw functions (harness: latent_predicate), not proved. *)
Theorem C09_rejection_identity : forall (wmax : Q) (l : list (Q * Q)) (x : Q * Q),
  ~ (wmax == 0)%Q -> Forall (fun y => ~ (fst y == 0)%Q) l -> In x l -> ~ (qsum snd l == 0)%Q ->
  (acc_mass wmax x / qsum (acc_mass wmax) l == snd x / qsum snd l)%Q.
Proof. exact rejection_identity. Qed.
Print Assumptions C09_rejection_identity.

(* non-vacuity: a population that filters (strict = false is today's code, strict = true the pre-fix variant), rejects and fills *)
Example C09_nonvacuous :
  let c i q b p := {| cid := i; lq := q; lj := Fin 0 0; inb := b; lp := p |} in
  let b1 := {| cands := [c 0%nat (Fin (-1) 0) true (Fin (-2) 0); c 1%nat NaN true (Fin (-2) 0);
                         c 2%nat (Fin (-1) 0) false (Fin (-2) 0); c 3%nat (Fin (-1) 0) true NInf;
                         c 4%nat (Fin (-3) 0) true (Fin (-2) 0)];
               us := [Fin (-1) (-1); Fin (-1) (-1); Fin (-1) (-1)]; attempt := false |} in
  flow_populate exact_sub false None 2 [b1; b1] = Done ([c 4%nat (Fin (-3) 0) true (Fin (-2) 0);
                                                          c 4%nat (Fin (-3) 0) true (Fin (-2) 0)], 0%nat)
  /\ flow_populate exact_sub true None 2 [b1; b1] = Raised
  /\ flow_populate exact_sub false None 3 [b1; b1] = Starved
  /\ draws 3 [2; 0; 1]%nat = [(1, true); (0, true); (2, false)]%nat.
Proof. vm_compute. repeat split. Qed.
