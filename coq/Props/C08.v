(* C08 - property theorems.  Statements, [exact], [Print Assumptions]; nothing else.
   The carrier is Coq's real numbers (the standard axioms of the reals show in Print Assumptions).  glasflow transforms, base
   distributions and reparameterisations are oracles constrained only by [layer_ok].
   NOT proved: "in two dimensions the density integrates to one" (a change-of-variables theorem about torch functions;
   numeric validation in the thorough tier only) and the layers themselves (glasflow is out of scope; each real layer is
   validated against layer_ok numerically on every run). *)
From Coq Require Import List Reals.
Import ListNotations.
From NessaiV Require Import Model.C08_Flow Proofs.C08_Flow_proofs.
Local Open Scope R_scope.

(* a composite of any number of invertible layers is an invertible layer whose log-determinants are opposite *)
Theorem C08_composite_ok : forall (X : Type) (ls : list (layer R X X)),
  Forall layer_ok ls -> layer_ok (composite R Rplus 0 X ls).
Proof. exact composite_ok. Qed.
Print Assumptions C08_composite_ok.

(* forward followed by inverse returns the input (and conversely), for any number of layers *)
Theorem C08_roundtrip : forall (X : Type) (ls : list (layer R X X)), Forall layer_ok ls ->
  (forall x, fst (comp_inv R Rplus 0 X ls (fst (comp_fwd R Rplus 0 X ls x))) = x) /\
  (forall z, fst (comp_fwd R Rplus 0 X ls (fst (comp_inv R Rplus 0 X ls z))) = z).
Proof. exact composite_roundtrip. Qed.
Print Assumptions C08_roundtrip.

(* the log-density reported when a sample is generated equals the log-density evaluated at that sample *)
Theorem C08_sample_logprob : forall (X : Type) (f : flow R X) (z : X), layer_ok (transform R X f) ->
  log_prob R Rplus X f (fst (sample_and_log_prob R Rminus X f (base R X f) z))
  = snd (sample_and_log_prob R Rminus X f (base R X f) z).
Proof. exact sample_logprob. Qed.
Print Assumptions C08_sample_logprob.

(* with an alternative latent distribution (alt_dist) the two differ by exactly base(z) - alt(z) *)
Theorem C08_sample_logprob_alt : forall (X : Type) (f : flow R X) (latent : X -> R) (z : X), layer_ok (transform R X f) ->
  log_prob R Rplus X f (fst (sample_and_log_prob R Rminus X f latent z))
  = snd (sample_and_log_prob R Rminus X f latent z) + (base R X f z - latent z).
Proof. exact sample_logprob_general. Qed.
Print Assumptions C08_sample_logprob_alt.

(* forward_and_log_prob agrees with log_prob and forward *)
Theorem C08_forward_and_log_prob : forall (X : Type) (f : flow R X) (x : X),
  snd (forward_and_log_prob R Rplus X f x) = log_prob R Rplus X f x /\
  fst (forward_and_log_prob R Rplus X f x) = fst (fwd (transform R X f) x).
Proof. exact forward_and_log_prob_agrees. Qed.
Print Assumptions C08_forward_and_log_prob.

(* the density a flow proposal attaches to the physical point it generates equals the density it computes when the same
   point is passed forwards, plus the explicit correction base(z) - latent(z) (zero when the latent prior is the base
   density; the constant log-volume term for uniform_nball) *)
Theorem C08_proposal_consistent : forall (X Pt : Type) (rp : layer R Pt X) (f : flow R X) (latent : X -> R) (z : X),
  layer_ok rp -> layer_ok (transform R X f) ->
  snd (forward_pass R Rplus X Pt rp f (fst (backward_pass R Rminus X Pt rp f latent z)))
  = snd (backward_pass R Rminus X Pt rp f latent z) + (base R X f z - latent z)
  /\ fst (forward_pass R Rplus X Pt rp f (fst (backward_pass R Rminus X Pt rp f latent z))) = z.
Proof. exact proposal_consistent. Qed.
Print Assumptions C08_proposal_consistent.

(* importance proposal: the row of log q attached in draw is the row update_log_q / compute_meta_proposal_samples computes
   for the same physical point *)
Theorem C08_ins_consistent : forall (X Pt : Type) (rp : layer R Pt X) (flows : list (flow R X)) (xp : X),
  layer_ok rp ->
  ins_row_at_draw R Rplus X Pt rp flows xp = ins_row_recomputed R Rplus X Pt rp flows (fst (inv rp xp)).
Proof. exact ins_consistent. Qed.
Print Assumptions C08_ins_consistent.

(* the composite's log-determinant is the sum of the layers' (what the harness recomputes from recorded values) *)
Theorem C08_composite_total : forall (X : Type) (ls : list (layer R X X)) (x : X),
  exists lds, length lds = length ls /\ snd (comp_fwd R Rplus 0 X ls x) = g_total R Rplus 0 lds.
Proof. exact comp_fwd_total. Qed.
Print Assumptions C08_composite_total.

(* array level: evaluating a batch in chunks (any chunking, including a last partial chunk) gives exactly one density per
   input row, in order - what log_prob_ith / log_prob_all / FlowModel.log_prob must return for arrays of any size *)
Theorem C08_batched_rows : forall (X T : Type) (f : X -> T) (chunks : list (list X)),
  batched_eval f chunks = map f (concat chunks) /\ length (batched_eval f chunks) = length (concat chunks).
Proof. intros. split; [apply batched_eval_rows | apply batched_eval_length]. Qed.
Print Assumptions C08_batched_rows.

(* ImportanceFlowProposal.draw: the points and their rows of per-proposal densities are filtered by the same mask, concatenated
   and trimmed alike, so every returned row is the row of the sample it is returned with, and the returned samples are the
   first n accepted points ... *)
Theorem C08_draw_rows_aligned : forall (A B : Type) (f : A -> B) (n : nat) (bs : list (draw_batch A B)),
  Forall (fun b => snd b = map f (snd (fst b))) bs ->
  Forall (fun p => snd p = f (fst p)) (draw_aligned n bs) /\
  map fst (draw_aligned n bs) = firstn n (concat (map (fun b => keep_by (fst (fst b)) (snd (fst b))) bs)).
Proof. intros A B f n bs H. split; [exact (draw_aligned_rows A B f n bs H) | exact (draw_aligned_length A B f n bs H)]. Qed.
Print Assumptions C08_draw_rows_aligned.

(* ... and the variant "rows appended unfiltered, then trimmed" is refuted: one rejected point shifts every later row *)
Theorem C08_draw_rows_unfiltered_refuted : exists (f : nat -> nat) (n : nat) (bs : list (draw_batch nat nat)),
  Forall (fun b => snd b = map f (snd (fst b))) bs /\
  ~ Forall (fun p => snd p = f (fst p)) (draw_rows_unfiltered n bs).
Proof. exact draw_rows_unfiltered_refuted. Qed.
Print Assumptions C08_draw_rows_unfiltered_refuted.

(* non-vacuity: two affine layers on R *)
Example C08_nonvacuous :
  let l (a b : R) : layer R R R := {| fwd := fun x => (a * x + b, ln a); inv := fun y => ((y - b) / a, - ln a) |} in
  forall a b c d, 0 < a -> 0 < c ->
  layer_ok (composite R Rplus 0 R [l a b; l c d]).
Proof.
  intros l a b c d Ha Hc. apply composite_ok. repeat constructor; unfold l; simpl; intros; try field; try ring;
    apply Rgt_not_eq; assumption.
Qed.
