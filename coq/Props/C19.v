(* C19 - property theorems.  Statements, [exact], [Print Assumptions]; nothing else. *)
From Coq Require Import Ascii String.
From Coq Require Import List ZArith Bool Arith.
Import ListNotations.
From NessaiV Require Import Model.C19_Results Proofs.C19_Results_proofs.
Local Open Scope Z_scope.

(* JSON: for EVERY isinstance ladder accepted by the checker and EVERY value tree (any nesting
   depth, any mix of None / bool / int / float incl. NaN and infinities / str / numpy scalars /
   arrays / structured arrays / lists / tuples / dicts / opaque objects) without np.bool_ scalars,
   what json.load returns is the value itself up to the representation changes of [jview]. *)
Theorem C19_json_roundtrip : forall l : ladder, ladder_ok l = true ->
  forall t : tree, no_npbool t = true -> enc_json l t = Ok (jview t).
Proof. exact json_roundtrip. Qed.
Print Assumptions C19_json_roundtrip.

(* config.json: whatever the keyword arguments contain (classes, pools, callbacks, numpy values,
   at any depth), a parseable JSON value is written - no branch of the encoder raises *)
Theorem C19_config_always_loads : forall l : ladder, ladder_total l = true ->
  forall t : tree, exists j, enc_json l t = Ok j.
Proof. exact json_always_loads. Qed.
Print Assumptions C19_config_always_loads.

Theorem C19_ladder_ok_total : forall l : ladder, ladder_ok l = true -> ladder_total l = true.
Proof. exact ladder_ok_total. Qed.
Print Assumptions C19_ladder_ok_total.

Theorem C19_ladder_today : ladder_ok ladder_today = true /\ h5_ok h5_today = true.
Proof. split; [exact ladder_today_ok|exact h5_today_ok]. Qed.
Print Assumptions C19_ladder_today.

(* HDF5: for every writer skeleton accepted by the checker and every nested dictionary (any depth)
   with usable, distinct keys and no empty sub-dictionary: whenever the write succeeds, the file
   holds exactly one dataset per leaf, at the path of its keys, no two leaves share a path, and
   every dataset is equivalent to the in-memory value ([hequiv]: None <-> "__none__",
   list / tuple <-> array under numpy's promotion, 0-d array <-> scalar, everything else equal). *)
Theorem C19_h5_roundtrip : forall sk : h5_sk, h5_ok sk = true ->
  forall (d : list (string * tree)) (f : hfile),
  top_ok d = true -> no_marker (TDict d) = true -> enc_h5 sk d = Ok f ->
  Forall2 (fun e lf => fst e = fst lf /\ hequiv (snd lf) (snd e) = true) f (top_leaves d)
  /\ NoDup (map fst f).
Proof. exact h5_roundtrip. Qed.
Print Assumptions C19_h5_roundtrip.

(* in the file a dataset is named by its keys joined with "/": because no key contains "/" or is
   empty, distinct leaves also get distinct *names* (no dataset overwrites another) *)
Theorem C19_h5_names_distinct : forall sk : h5_sk, h5_ok sk = true ->
  forall (d : list (string * tree)) (f : hfile),
  top_ok d = true -> no_marker (TDict d) = true -> enc_h5 sk d = Ok f ->
  NoDup (map (fun e => join (fst e)) f).
Proof. exact h5_names_distinct. Qed.
Print Assumptions C19_h5_names_distinct.

(* ... and for result-shaped dictionaries (scalars, None, strings, numpy scalars, numeric arrays,
   structured arrays, lists of scalars of one kind, nested dictionaries of these) it does succeed *)
Theorem C19_h5_result_writes : forall sk : h5_sk, h5_ok sk = true ->
  forall d : list (string * tree), result_shaped (TDict d) = true -> exists f, enc_h5 sk d = Ok f.
Proof. exact result_dict_writes. Qed.
Print Assumptions C19_h5_result_writes.

(* the posterior in the JSON file: one named column per field, values in row order *)
Theorem C19_json_posterior : forall (f : list (string * akind)) (rows : list (list Z)),
  jview (struct_to_dict f rows)
  = JDict (map (fun p => (fst (snd p), JList (map (jnum (snd (snd p))) (column (fst p) rows))))
               (combine (seq 0 (length f)) f)).
Proof. exact posterior_json. Qed.
Print Assumptions C19_json_posterior.

(* the three extension spellings, in the file name or as argument, select the documented writer *)
Theorem C19_extension : forall stem : string,
  choose_writer stem "json" None = Ok (WJson, (stem ++ ".json")%string)
  /\ choose_writer stem "hdf5" None = Ok (WHdf5, (stem ++ ".hdf5")%string)
  /\ choose_writer stem "h5" None = Ok (WHdf5, (stem ++ ".h5")%string)
  /\ choose_writer stem "" (Some "json"%string) = Ok (WJson, (stem ++ ".json")%string)
  /\ choose_writer stem "" (Some "hdf5"%string) = Ok (WHdf5, (stem ++ ".hdf5")%string)
  /\ choose_writer stem "" (Some "h5"%string) = Ok (WHdf5, (stem ++ ".h5")%string)
  /\ choose_writer stem "" None = Err
  /\ (forall e, e <> "json"%string -> e <> "hdf5"%string -> e <> "h5"%string -> e <> ""%string ->
        choose_writer stem e None = Err /\ choose_writer stem "" (Some e) = Err).
Proof. exact extension_spec. Qed.
Print Assumptions C19_extension.

(* ... and the extension is looked for in the LAST path component only: an output directory whose
   name contains dots ("runs/analysis_v1.2", "./outdir", "a.b/c") changes nothing - the requested
   extension is appended and the file <dir>/<stem>.<extension> is the one written *)
Theorem C19_path_ext : forall dir stem e : string, plain stem = true -> plain e = true ->
  path_ext (dir ++ "/" ++ stem ++ "." ++ e) = e /\ path_ext (dir ++ "/" ++ stem) = ""%string
  /\ path_ext (stem ++ "." ++ e) = e /\ path_ext stem = ""%string.
Proof. exact path_ext_spec. Qed.
Print Assumptions C19_path_ext.

Theorem C19_extension_paths : forall dir stem e : string, plain stem = true ->
  e = "json"%string \/ e = "hdf5"%string \/ e = "h5"%string ->
  let target := (dir ++ "/" ++ stem)%string in
  choose_writer_p target (Some e) = Ok (writer_of e, (target ++ "." ++ e)%string)
  /\ choose_writer_p (target ++ "." ++ e) None = Ok (writer_of e, (target ++ "." ++ e)%string)
  /\ choose_writer_p (target ++ "." ++ e) (Some e) = Ok (writer_of e, (target ++ "." ++ e)%string)
  /\ choose_writer_p target None = Err.
Proof. exact extension_paths. Qed.
Print Assumptions C19_extension_paths.

(* what the formats do not keep - the boundary of the theorems above, by computation *)
Theorem C19_limits :
  enc_json ladder_today (TNp KBool 1) = Ok (JStr "True")
  /\ enc_h5 h5_today [("a"%string, TDict [])] = Ok []
  /\ enc_h5 h5_today [("a"%string, TStr "__none__")] = enc_h5 h5_today [("a"%string, TNone)]
  /\ enc_h5 h5_today [("a"%string, TList [TNone; TFloat 0])] = Err
  /\ enc_h5 h5_today [("a"%string, TList [TList [TInt 1; TInt 2]; TList [TInt 3]])] = Err
  /\ enc_h5 h5_today [("a"%string, TOpaque "obj")] = Err
  /\ enc_h5 h5_today [("a"%string, TList [TInt 1; TFloat 4612811918334230528; TBool true])]
     = Ok [(["a"%string], HArr [3%nat] KFloat [4607182418800017408; 4612811918334230528; 4607182418800017408])].
Proof. exact limits. Qed.
Print Assumptions C19_limits.

(* non-vacuity: a nested result-like dictionary through both writers *)
Example C19_nonvacuous :
  let post := TStruct [("x"%string, KFloat); ("it"%string, KInt)] [[4607182418800017408; 3]; [9221120237041090560; (-1)]]%Z in
  let d := [("log_evidence"%string, TFloat 13830554455654793216);
            ("bootstrap"%string, TNone);
            ("history"%string, TDict [("logZ"%string, TList [TFloat 9218868437227405312; TFloat 9221120237041090560]);
                                      ("stop"%string, TDict [("n"%string, TList [TInt 1; TInt 2])])]);
            ("posterior_samples"%string, post)] in
  enc_json ladder_today (TDict (prep_json d))
  = Ok (JDict [("log_evidence"%string, JFloat 13830554455654793216); ("bootstrap"%string, JNull);
               ("history"%string, JDict [("logZ"%string, JList [JFloat 9218868437227405312; JFloat 9221120237041090560]);
                                         ("stop"%string, JDict [("n"%string, JList [JInt 1; JInt 2])])]);
               ("posterior_samples"%string,
                JDict [("x"%string, JList [JFloat 4607182418800017408; JFloat 9221120237041090560]);
                       ("it"%string, JList [JInt 3; JInt (-1)])])])
  /\ enc_h5 h5_today d
     = Ok [(["log_evidence"%string], HNum KFloat 13830554455654793216);
           (["bootstrap"%string], HStr "__none__");
           (["history"; "logZ"]%string, HArr [2%nat] KFloat [9218868437227405312; 9221120237041090560]);
           (["history"; "stop"; "n"]%string, HArr [2%nat] KInt [1; 2]%Z);
           (["posterior_samples"%string], HStruct [("x"%string, KFloat); ("it"%string, KInt)]
                                            [[4607182418800017408; 3]; [9221120237041090560; (-1)]]%Z)]
  /\ top_ok d = true /\ result_shaped (TDict d) = true /\ no_npbool (TDict d) = true.
Proof. vm_compute. repeat split. Qed.
