(* C16 - property theorems.  Statements, [exact], [Print Assumptions]; nothing else.
   Model: Model/C16_Resample.v (log-weights are extended logs, None = -inf; the uniform stream and
   np.random.choice are oracles). *)
From Coq Require Import Reals ZArith List Bool.
From NessaiV Require Import Lib.Enclose Model.C16_Resample Proofs.C16_Resample_proofs
  Run.C16_run Proofs.C16_Encl_proofs.
Import ListNotations.
Local Open Scope R_scope.

(* rejection sampling returns a strictly increasing list of valid indices; whatever is taken at valid
   indices (both methods) is an element of the nested samples *)
Theorem C16_subset : forall (lw : list xlog) (us : list R),
  length us = length lw ->
  strictly_increasing (rejection lw us) /\ Forall (fun i => (i < length lw)%nat) (rejection lw us).
Proof. exact rejection_subset. Qed.
Print Assumptions C16_subset.

Theorem C16_taken_are_elements : forall (A : Type) (d : A) (samples : list A) (idx : list nat),
  Forall (fun i => (i < length samples)%nat) idx -> Forall (fun s => In s samples) (take d samples idx).
Proof. exact @take_in. Qed.
Print Assumptions C16_taken_are_elements.

(* sample i is kept iff u_i < w_i / w_max  (u_i >= 0; also u_i = 0, whose logarithm is -inf) *)
Theorem C16_keep_iff : forall (lw : list xlog) (us : list R) (M : R) (i : nat),
  xmaxo lw = Some M -> length us = length lw -> (i < length lw)%nat -> 0 <= nth i us 0 ->
  (In i (rejection lw us) <-> nth i us 0 < xexp (nth i lw None) / exp M).
Proof. exact keep_iff. Qed.
Print Assumptions C16_keep_iff.

(* the acceptance probability w_i / w_max is in (0, 1] for every finite weight; the maximum is attained *)
Theorem C16_ratio : forall (lw : list xlog) (M : R),
  xmaxo lw = Some M -> In (Some M) lw /\ forall x, In (Some x) lw -> 0 < exp x / exp M <= 1.
Proof. intros lw M H. split; [exact (xmaxo_attained lw M H)|intros x; exact (ratio_le_1 lw M x H)]. Qed.
Print Assumptions C16_ratio.

(* a maximum-weight sample is kept for every u in [0, 1) *)
Theorem C16_max_always : forall (lw : list xlog) (us : list R) (M : R) (i : nat),
  xmaxo lw = Some M -> length us = length lw -> (i < length lw)%nat ->
  nth i lw None = Some M -> 0 <= nth i us 0 < 1 -> In i (rejection lw us).
Proof. exact max_always. Qed.
Print Assumptions C16_max_always.

(* a sample of weight -inf is never kept, for every u (including u = 0) and every other weight *)
Theorem C16_zero_never : forall (lw : list xlog) (us : list R) (i : nat),
  nth i lw None = None -> ~ In i (rejection lw us).
Proof. exact zero_never. Qed.
Print Assumptions C16_zero_never.

(* with no finite weight nothing is kept; with at least one and uniforms in [0, 1) the posterior is never empty *)
Theorem C16_empty_iff_no_weight : forall (lw : list xlog) (us : list R),
  (xmaxo lw = None -> rejection lw us = []) /\
  (has_finite lw -> length us = length lw -> Forall (fun u => 0 <= u < 1) us -> rejection lw us <> []).
Proof. intros lw us. split; [exact (rejection_none lw us)|exact (rejection_nonempty lw us)]. Qed.
Print Assumptions C16_empty_iff_no_weight.

(* only weight RATIOS matter: a common offset of all log-weights (the unknown evidence) keeps exactly the same samples *)
Theorem C16_rejection_shift : forall (lw : list xlog) (us : list R) (c : R),
  rejection (map (fun l => xsub l c) lw) us = rejection lw us.
Proof. exact rejection_shift. Qed.
Print Assumptions C16_rejection_shift.

(* multinomial resampling returns exactly the requested number of indices, all valid; the default is
   int(ESS), which is the floor of the ESS and lies in 1..len *)
Theorem C16_multinomial_n : forall (choice : nat -> nat -> list R -> list nat),
  (forall a n ps, length (choice a n ps) = n) ->
  (forall a n ps, Forall (fun i => (i < a)%nat) (choice a n ps)) ->
  forall (lw : list xlog) (n : option nat),
    length (multinomial choice lw n) = match n with Some k => k | None => default_n lw end
    /\ Forall (fun i => (i < length lw)%nat) (multinomial choice lw n).
Proof. exact multinomial_n. Qed.
Print Assumptions C16_multinomial_n.

Theorem C16_default_n : forall lw : list xlog, has_finite lw ->
  INR (default_n lw) <= ess lw < INR (default_n lw) + 1 /\ (1 <= default_n lw <= length lw)%nat.
Proof. exact default_n_spec. Qed.
Print Assumptions C16_default_n.

(* the vector handed to np.random.choice sums to one, lies in [0,1] and is proportional to the weights *)
Theorem C16_p_normalised : forall lw : list xlog, has_finite lw ->
  sum_R (probs lw) = 1 /\ Forall (fun q => 0 <= q <= 1) (probs lw) /\
  (forall l l', xexp (xsub l (lse_R lw)) * xexp l' = xexp (xsub l' (lse_R lw)) * xexp l).
Proof. exact probs_normalised. Qed.
Print Assumptions C16_p_normalised.

(* Kish's ESS in log space is (sum w)^2 / sum w^2 and lies between 1 and the number of samples *)
Theorem C16_ess_bounds : forall lw : list xlog, has_finite lw ->
  ess lw = kish (map xexp lw) /\ 1 <= ess lw <= INR (length lw).
Proof. intros lw H. split; [exact (ess_kish lw H)|exact (ess_bounds lw H)]. Qed.
Print Assumptions C16_ess_bounds.

(* shifting every log-weight by a constant leaves the ESS unchanged *)
Theorem C16_ess_shift : forall (lw : list xlog) (c : R), has_finite lw ->
  ess (map (fun l => xsub l c) lw) = ess lw.
Proof. exact ess_shift. Qed.
Print Assumptions C16_ess_shift.

(* enclosures *)
Theorem C16_encl : forall (p : prec) (li : list (option I.type)) (lw : list xlog),
  Forall2 xencl li lw -> has_finite lw ->
  encl (ess_I p li) (ess lw) /\ Forall2 encl (probs_I p li) (probs lw) /\ xencl (xmaxo_I p li) (xmaxo lw).
Proof.
  intros p li lw H Hf. split; [exact (ess_encl p li lw H Hf)|].
  split; [exact (probs_encl p li lw H Hf)|exact (xmaxo_encl p li lw H)].
Qed.
Print Assumptions C16_encl.

(* what the answers of the correspondence checks mean, as statements about reals *)
Theorem C16_check_sound : forall (p : prec) (lwd : list (option dyad)),
  (forall y, check_ess p lwd y = true -> ess_ok (map dyoR lwd) y)
  /\ (forall n, check_default_n p lwd n = true -> default_n_ok (map dyoR lwd) n)
  /\ (forall ps, check_probs p lwd ps = true -> probs_ok (map dyoR lwd) ps)
  /\ (forall us idx, check_rej p lwd us idx = (true, []) -> rej_ok (map dyoR lwd) (map dyv us) idx).
Proof.
  intros p lwd. split; [exact (check_ess_sound p lwd)|]. split; [exact (check_default_n_sound p lwd)|].
  split; [exact (check_probs_sound p lwd)|exact (check_rej_sound p lwd)].
Qed.
Print Assumptions C16_check_sound.

(* non-vacuity: outputs of the real code for log_w = [0, -1.5, -inf, -0.25], u = [0.5, 0.3, 0, 1-2^-53]
   pass; keeping the -inf sample (u = 0), dropping the maximum, or n = int(ESS) + 1 do not *)
Example C16_nonvacuous :
  let lw := [Some (0, 0)%Z; Some (-3, -1)%Z; None; Some (-1, -2)%Z] in
  let us := [(1, -1)%Z; (5404319552844595, -54)%Z; (0, 0)%Z; (9007199254740991, -53)%Z] in
  check_rej P100 lw us [0%nat] = (true, [])
  /\ check_rej P100 lw us [0%nat; 2%nat] = (true, [2%nat])
  /\ check_rej P100 lw us [] = (true, [0%nat])
  /\ check_ess P100 lw (2724296156468653, -50)%Z = true
  /\ check_probs P100 lw [(2249627861851751, -52)%Z; (8031357201429615, -56)%Z; (0, 0)%Z; (7008047761717575, -54)%Z] = true
  /\ check_default_n P100 lw 2 = true /\ check_default_n P100 lw 3 = false
  /\ check_subset true 4 [0%nat] [0%nat; 1%nat; 2%nat; 3%nat] [0%nat] = true.
Proof. vm_compute. repeat split. Qed.
