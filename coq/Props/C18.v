(* C18 - property theorems.  Statements, [exact], [Print Assumptions]; nothing else. *)
From Coq Require Import String.
From Coq Require Import List ZArith Bool Arith.
Import ListNotations.
From NessaiV Require Import Model.C18_Livepoint Proofs.C18_Livepoint_proofs.

(* ---- the registry --------------------------------------------------------------------- *)
(* For EVERY configuration skeleton accepted by the checker and EVERY sequence of
   add / reset / read operations: what get_dtype and the converters see afterwards is
   core ++ the fields registered since the last reset (first registration wins, in order),
   their defaults and dtypes stay aligned with the names, no name is duplicated, and the
   cached properties never serve stale lists. *)
Theorem C18_registry : forall sk, cfg_ok sk = true -> forall ops : list rop,
  let r := run sk ops reg0 in
  let e := spec_run sk ops [] in
  vis_names sk r = ["logP"; "logL"; "it"]%string ++ map fst e
  /\ vis_defs sk r = [vnan; vnan; VI 0] ++ map snd e
  /\ vis_kinds sk r = [F8; F8; I4] ++ repeat F8 (length e)
  /\ NoDup (map fst e)
  /\ aligned (view_of sk r) = true.
Proof. exact cfg_ok_sound. Qed.
Print Assumptions C18_registry.

(* ... and for ANY configured core fields, dtypes and default values (a user may change
   config.livepoints.default_float_dtype, it_default, ...): every add / reset / read history changes
   the EXTRA fields only - the core part of what the converters see is the configured one, always *)
Theorem C18_registry_any_config : forall sk, cfg_struct_ok sk = true -> forall ops : list rop,
  let r := run sk ops reg0 in
  let e := spec_run sk ops [] in
  vis_names sk r = k_core_names sk ++ map fst e
  /\ vis_defs sk r = k_core_defs sk ++ map snd e
  /\ vis_kinds sk r = k_core_kinds sk ++ repeat (k_fkind sk) (length e)
  /\ NoDup (map fst e).
Proof. exact registry_gen. Qed.
Print Assumptions C18_registry_any_config.

Theorem C18_registry_today : cfg_ok cfg_today = true.
Proof. exact cfg_today_ok. Qed.
Print Assumptions C18_registry_today.

Theorem C18_registry_reset : forall sk, cfg_ok sk = true -> forall ops : list rop,
  let r := run sk (ops ++ [RReset]) reg0 in
  vis_names sk r = ["logP"; "logL"; "it"]%string /\ vis_defs sk r = [vnan; vnan; VI 0]
  /\ vis_kinds sk r = [F8; F8; I4].
Proof. exact reset_restores. Qed.
Print Assumptions C18_registry_reset.

(* ---- names, order, dtypes and defaults of every array built after any history ----------- *)
Theorem C18_defaults : forall sk, cfg_ok sk = true ->
  forall (ops : list rop) (names : list string) (a : list (list val)) (x : sarr),
  let v := view_of sk (run sk ops reg0) in
  let e := spec_run sk ops [] in
  lp_of names true v a x ->
  s_names x = names ++ ["logP"; "logL"; "it"]%string ++ map fst e
  /\ s_kinds x = repeat F8 (length names) ++ [F8; F8; I4] ++ repeat F8 (length e)
  /\ s_rows x = map (fun r => r ++ [vnan; vnan; VI 0] ++ map snd e) a
  /\ aligned v = true.
Proof. exact defaults_after_history. Qed.
Print Assumptions C18_defaults.

Theorem C18_empty_defaults : forall (names : list string) (nsp : bool) (v : nsview),
  aligned v = true -> NoDup (dt_names names nsp v) ->
  forall n : nat, exists x, empty_sa n names nsp v = Ok x
    /\ lp_of names nsp v (repeat (repeat (ns_fill v) (length names)) n) x.
Proof. exact empty_sa_ok. Qed.
Print Assumptions C18_empty_defaults.

(* ---- round trips: any duplicate-free field list, any registry view, 0 / 1 / n rows ----- *)
Theorem C18_roundtrip_array : forall (names : list string) (nsp : bool) (v : nsview),
  aligned v = true -> NoDup (dt_names names nsp v) -> names <> [] ->
  forall a : list (list val), wf_rows names a ->
  exists x, np_to_lp a names nsp v = Ok x /\ lp_of names nsp v a x
            /\ lp_to_array x names = Ok a
            /\ (forall y, lp_of names nsp v a y -> np_to_lp a names nsp v = Ok y).
Proof. exact roundtrip_array. Qed.
Print Assumptions C18_roundtrip_array.

Theorem C18_roundtrip_frame : forall (names : list string) (nsp : bool) (v : nsview),
  aligned v = true -> NoDup (dt_names names nsp v) ->
  forall a : list (list val), wf_rows names a ->
  exists x, df_to_lp (names, a) nsp v = Ok x /\ lp_of names nsp v a x
            /\ lp_to_df x names = Ok (names, a).
Proof. intros names nsp v H1 H2. exact (roundtrip_frame names nsp v H1 H2). Qed.
Print Assumptions C18_roundtrip_frame.

Theorem C18_roundtrip_point : forall (names : list string) (nsp : bool) (v : nsview),
  aligned v = true -> NoDup (dt_names names nsp v) ->
  forall ps : list val, ps <> [] -> length ps = length names ->
  exists x, params_to_lp ps names nsp v = Ok x /\ lp_of names nsp v [ps] x
            /\ lp_to_array x names = Ok [ps].
Proof. intros names nsp v H1 H2. exact (roundtrip_point names nsp v H1 H2). Qed.
Print Assumptions C18_roundtrip_point.

Theorem C18_point_empty : forall (names : list string) (nsp : bool) (v : nsview),
  aligned v = true -> NoDup (dt_names names nsp v) ->
  exists x, params_to_lp [] names nsp v = Ok x /\ lp_of names nsp v [] x.
Proof. exact params_to_lp_empty. Qed.
Print Assumptions C18_point_empty.

(* dictionary of columns of common length N.  Today's code (lenient = false) needs N <> 1;
   the repaired code (lenient = true) does not. *)
Theorem C18_roundtrip_dict : forall (names : list string) (nsp : bool) (v : nsview),
  aligned v = true -> NoDup (dt_names names nsp v) -> names <> [] ->
  forall (lenient : bool) (cols : list (list val)) (N : nat),
  length cols = length names -> Forall (fun c => length c = N) cols ->
  (lenient = true \/ N <> 1) ->
  exists x, dict_to_lp lenient (combine names (map DSeq cols)) nsp v = Ok x
            /\ lp_of names nsp v (rows_of_cols N cols) x
            /\ lp_to_dict x names = Ok (combine names cols).
Proof. exact roundtrip_dict. Qed.
Print Assumptions C18_roundtrip_dict.

Theorem C18_roundtrip_dict_scalars : forall (names : list string) (nsp : bool) (v : nsview),
  aligned v = true -> NoDup (dt_names names nsp v) -> names <> [] ->
  forall (lenient : bool) (ps : list val), length ps = length names ->
  exists x, dict_to_lp lenient (combine names (map DScalar ps)) nsp v = Ok x
            /\ lp_of names nsp v [ps] x
            /\ lp_to_dict x names = Ok (combine names (map (fun p => [p]) ps)).
Proof. exact roundtrip_dict_scalars. Qed.
Print Assumptions C18_roundtrip_dict_scalars.

(* REFUTED for today's code: a one-point array does not survive array -> dict -> array
   (replayed on the real code: corpus/C18/dict_one_point.json); the repaired code returns it *)
Theorem C18_roundtrip_dict_one_point_refuted :
  let v := view_of cfg_today reg0 in
  let names := ["x"]%string in
  exists x d, np_to_lp [[VF 0]] names true v = Ok x
              /\ lp_to_dict x names = Ok d
              /\ dict_to_lp false (map (fun p => (fst p, DSeq (snd p))) d) true v = Err
              /\ dict_to_lp true (map (fun p => (fst p, DSeq (snd p))) d) true v = Ok x.
Proof. exact dict_one_point_witness. Qed.
Print Assumptions C18_roundtrip_dict_one_point_refuted.

(* the same data through any of the converters gives the same live points *)
Theorem C18_converters_agree : forall (names : list string) (nsp : bool) (v : nsview),
  aligned v = true -> NoDup (dt_names names nsp v) -> names <> [] ->
  forall (lenient : bool) (a : list (list val)), wf_rows names a ->
  (lenient = true \/ length a <> 1) ->
  exists x, np_to_lp a names nsp v = Ok x
            /\ df_to_lp (names, a) nsp v = Ok x
            /\ dict_to_lp lenient (combine names (map DSeq (columns (length names) a))) nsp v = Ok x
            /\ (forall r, a = [r] -> params_to_lp r names nsp v = Ok x
                                  /\ dict_to_lp lenient (combine names (map DScalar r)) nsp v = Ok x).
Proof. exact converters_agree. Qed.
Print Assumptions C18_converters_agree.

(* ---- BY NAME: `names` in any order / any subset, dtypes with fields in any order ------------------- *)
(* any structured array, any list of existing field names: column j of live_points_to_array / entry j of
   live_points_to_dict is the column stored under names[j] *)
Theorem C18_to_array_by_name : forall (x : sarr) (qn : list string),
  (forall n, In n qn -> In n (s_names x)) ->
  exists idx, lp_to_array x qn = Ok (map (fun r => map (fun i => nth i r vnan) idx) (s_rows x))
              /\ lp_to_dict x qn = Ok (combine qn (map (fun i => col_at i (s_rows x)) idx))
              /\ Forall2 (fun n i => nth i (s_names x) EmptyString = n /\ i < length (s_names x)) qn idx.
Proof. exact to_array_by_name. Qed.
Print Assumptions C18_to_array_by_name.

(* the default names=None of live_points_to_array / live_points_to_dict: ALL fields in storage order *)
Theorem C18_to_array_default_names : forall x : sarr,
  NoDup (s_names x) -> Forall (fun r => length r = length (s_names x)) (s_rows x) ->
  lp_to_array x (s_names x) = Ok (s_rows x)
  /\ lp_to_array_all x = Ok (map (map to_f8) (s_rows x))
  /\ lp_to_dict x (s_names x) = Ok (combine (s_names x) (map (fun i => col_at i (s_rows x)) (seq 0 (length (s_names x))))).
Proof. exact to_array_all_fields. Qed.
Print Assumptions C18_to_array_default_names.

(* live points holding the data a, read back under ANY order / subset qn of the parameter names:
   column j is the data column of qn[j] (value under name k after = value under k before) *)
Theorem C18_roundtrip_by_name : forall (names : list string) (nsp : bool) (v : nsview)
    (a : list (list val)) (x : sarr) (qn : list string),
  NoDup (dt_names names nsp v) -> wf_rows names a -> lp_of names nsp v a x ->
  (forall n, In n qn -> In n names) ->
  lp_to_array x qn
  = Ok (map (fun r => map (fun n => match index_of n names with Some i => nth i r vnan | None => vnan end) qn) a).
Proof. exact roundtrip_by_name. Qed.
Print Assumptions C18_roundtrip_by_name.

(* empty_structured_array(n, dtype=...) with the fields in ANY order: every non-sampling field gets ITS
   default, every other field the default float value; with get_dtype's order this is the positional row *)
Theorem C18_empty_dtype_by_name : forall (n : nat) (fields : list (string * kind)) (v : nsview),
  aligned v = true -> NoDup (map fst fields) -> NoDup (ns_names v) ->
  (forall k, In k (ns_names v) -> In k (map fst fields)) ->
  empty_sa_dtype n fields v
  = Ok {| s_names := map fst fields; s_kinds := map snd fields;
          s_rows := repeat (map (fun f => field_default v (fst f)) fields) n |}
  /\ (forall k d, In (k, d) (combine (ns_names v) (ns_defs v)) -> field_default v k = d)
  /\ (forall k, ~ In k (ns_names v) -> field_default v k = ns_fill v).
Proof. exact empty_dtype_by_name. Qed.
Print Assumptions C18_empty_dtype_by_name.

Theorem C18_empty_dtype_standard_order : forall (n : nat) (names : list string) (v : nsview),
  aligned v = true -> NoDup (dt_names names true v) ->
  empty_sa_dtype n (combine (dt_names names true v) (dt_kinds names true v)) v = empty_sa n names true v.
Proof. exact empty_dtype_standard_order. Qed.
Print Assumptions C18_empty_dtype_standard_order.

(* ---- the unstructured view ------------------------------------------------------------- *)
(* parameters first, all f8 (what get_dtype builds): element (r, c) of the view is addressed at
   exactly the bytes of field names[c] of row r, for every row stride and base address *)
Theorem C18_view_zero_copy : forall (names : list string) (x : sarr), params_first names x ->
  view_dtype x names = Some (map (fun c => (8 * Z.of_nat c)%Z) (seq 0 (length names)))
  /\ view_ok (map (fun c => (8 * Z.of_nat c)%Z) (seq 0 (length names))) = true
  /\ forall (base stride : Z) (r c : nat), c < length names ->
       exists off, field_offset x (nth c names EmptyString) = Some off
                   /\ view_addr base stride r c = elem_addr base stride r off.
Proof.
  intros names x H. split; [exact (view_dtype_prefix names x H)|].
  split; [exact (view_ok_prefix names)|]. intros base stride r c Hc.
  exact (view_zero_copy names x H base stride r c Hc).
Qed.
Print Assumptions C18_view_zero_copy.

Theorem C18_view_values : forall (names : list string) (nsp : bool) (v : nsview),
  NoDup (dt_names names nsp v) ->
  forall (a : list (list val)) (x : sarr), wf_rows names a -> lp_of names nsp v a x ->
  unstructured_view x names = Ok a /\ lp_to_array x names = Ok a.
Proof. intros names nsp v H. exact (view_values names nsp v H). Qed.
Print Assumptions C18_view_values.

(* Model._view_dtype is computed once: the cached offsets are right for arrays built under any
   later registry state *)
Theorem C18_view_cache : forall (names : list string) nsp1 v1 a1 x1 nsp2 v2 a2 x2,
  NoDup (dt_names names nsp1 v1) -> NoDup (dt_names names nsp2 v2) ->
  lp_of names nsp1 v1 a1 x1 -> lp_of names nsp2 v2 a2 x2 ->
  view_dtype x1 names = view_dtype x2 names.
Proof. exact view_dtype_registry_independent. Qed.
Print Assumptions C18_view_cache.

Theorem C18_itemsize : forall sk, cfg_ok sk = true -> forall (ops : list rop) (names : list string),
  itemsize (dt_kinds names true (view_of sk (run sk ops reg0)))
  = (8 * Z.of_nat (length names) + 8 + 8 + 4 + 8 * Z.of_nat (length (spec_run sk ops [])))%Z.
Proof. exact itemsize_after_history. Qed.
Print Assumptions C18_itemsize.

(* non-vacuity: a concrete history, a concrete array, every converter, the view *)
Example C18_nonvacuous :
  let ops := [RAdd ["logQ"; "logW"; "logQ"]%string (Some [VF 5; VF 7; VF 9]); RRead;
              RAdd ["logU"]%string None] in
  let v := view_of cfg_today (run cfg_today ops reg0) in
  let names := ["x"; "y"]%string in
  let a := [[VF 1; VF 2]; [VF 3; VF 4]] in
  ns_names v = ["logP"; "logL"; "it"; "logQ"; "logW"; "logU"]%string
  /\ ns_defs v = [vnan; vnan; VI 0; VF 5; VF 7; vnan]
  /\ np_to_lp a names true v
     = Ok {| s_names := ["x"; "y"; "logP"; "logL"; "it"; "logQ"; "logW"; "logU"]%string;
             s_kinds := [F8; F8; F8; F8; I4; F8; F8; F8];
             s_rows := [[VF 1; VF 2; vnan; vnan; VI 0; VF 5; VF 7; vnan];
                        [VF 3; VF 4; vnan; vnan; VI 0; VF 5; VF 7; vnan]] |}
  /\ dict_to_lp false [("x"%string, DSeq [VF 1; VF 3]); ("y"%string, DSeq [VF 2; VF 4])] true v
     = np_to_lp a names true v
  /\ (exists x, np_to_lp a names true v = Ok x /\ unstructured_view x names = Ok a
                /\ unstructured_view x ["y"; "x"]%string = Ok a      (* memory order, not the requested order *)
                /\ unstructured_view x ["y"]%string = Err)
  /\ np_to_lp a ["x"; "logL"]%string true v = Err.
Proof. vm_compute. repeat split. eexists. repeat split. Qed.
