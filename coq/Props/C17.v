(* C17 - property theorems.  Statements, [exact], [Print Assumptions]; nothing else. *)
From Coq Require Import List ZArith Bool QArith Reals.
Import ListNotations.
From NessaiV Require Import Model.C17_Quantile Proofs.C17_Quantile_proofs Model.C17_Threshold Proofs.C17_Threshold_proofs.
Local Open Scope Z_scope.

(* The threshold is the likelihood of one of the live samples: the clamped index is in range.
   Hypotheses: the method's choice n is an index (argmax), min_samples >= 1, min_remove >= 1,
   min_remove < size, and - when constant draws and a cap are used - nlive < max_samples
   (what check_configuration enforces since the fix: commit).  See C17_range_needs_min_remove_lt_size. *)
Theorem C17_threshold_is_a_sample : P_range clamp.
Proof. exact clamp_P_range. Qed.
Print Assumptions C17_threshold_is_a_sample.

Theorem C17_never_the_literal_zero : P_nonzero clamp.
Proof. exact clamp_P_nonzero. Qed.
Print Assumptions C17_never_the_literal_zero.

(* If the method's own choice would leave fewer than min_samples, exactly min(size, min_samples)
   are kept (cap not active). *)
Theorem C17_min_samples : P_min_samples clamp.
Proof. exact clamp_P_min_samples. Qed.
Print Assumptions C17_min_samples.

(* Otherwise at least min_remove are removed - in index terms, with or without the cap. *)
Theorem C17_min_remove : P_min_remove clamp.
Proof. exact clamp_P_min_remove. Qed.
Print Assumptions C17_min_remove.

(* With constant draws and a cap the next level does not exceed max_samples. *)
Theorem C17_max_samples : P_cap clamp.
Proof. exact clamp_P_cap. Qed.
Print Assumptions C17_max_samples.

(* When the cap triggers exactly max_samples - nlive samples are kept ... *)
Theorem C17_cap_kept :
  forall n size min_s min_r max_s nlive k,
    1 <= min_r -> max_s <> 0 ->
    size - clamp_mid n size min_s min_r + nlive > max_s ->
    clamp n size min_s min_r max_s nlive true = RetIndex k -> size - k = max_s - nlive.
Proof. exact clamp_cap_kept. Qed.
Print Assumptions C17_cap_kept.

(* ... so the full-strength reading "min_samples are always kept" is refuted when
   max_samples - nlive < min_samples (finding, replayed on the real code) *)
Theorem C17_min_samples_under_cap_refuted :
  exists n size min_s min_r max_s nlive k,
    0 <= n < size /\ 1 <= min_s <= nlive /\ 1 <= min_r <= nlive /\ nlive < max_s /\
    clamp n size min_s min_r max_s nlive true = RetIndex k /\ size - k < min_s.
Proof. exists 10, 12, 5, 1, 12, 10, 10. vm_compute. repeat split; congruence. Qed.
Print Assumptions C17_min_samples_under_cap_refuted.

(* min_remove < size is needed: with min_remove >= size the index is out of range (IndexError) *)
Theorem C17_range_needs_min_remove_lt_size :
  exists n size min_s min_r k,
    0 <= n < size /\ 1 <= min_s /\ 1 <= min_r /\
    clamp n size min_s min_r 0 10 false = RetIndex k /\ size <= k.
Proof. exists 5, 10, 1, 10, 10. vm_compute. repeat split; congruence. Qed.
Print Assumptions C17_range_needs_min_remove_lt_size.

(* ties: the number of samples strictly below the threshold is at most the index, and smaller when
   the sample before the cut has the same likelihood (so fewer than min_remove may be removed) *)
Theorem C17_ties_refuted :
  exists (keys : list Z) (k : nat),
    nth k keys 0 = nth (k - 1)%nat keys 0 /\ (0 < k)%nat /\
    (length (filter (fun x : Z => (x <? nth k keys 0%Z)%Z) keys) < k)%nat.
Proof. exists [1; 1; 1; 2; 3], 2%nat. vm_compute. repeat split; repeat constructor. Qed.
Print Assumptions C17_ties_refuted.

(* the methods pick an index: argmax of a non-empty mask is in range, is a True position when one
   exists, and nothing before it is True *)
Theorem C17_argmax_in_range : forall m, m <> [] -> (argmax_mask m < length m)%nat.
Proof. exact argmax_mask_lt. Qed.
Print Assumptions C17_argmax_in_range.

Theorem C17_argmax_first_true : forall m, existsb (fun b => b) m = true ->
  nth (argmax_mask m) m false = true /\ forall j, (j < argmax_mask m)%nat -> nth j m false = false.
Proof. exact argmax_mask_spec. Qed.
Print Assumptions C17_argmax_first_true.

(* a cut above every sample: numpy's argmax of an all-False mask is 0, so add_new_proposal then trains on
   every sample rather than on none *)
Theorem C17_argmax_none : forall m, existsb (fun b => b) m = false -> argmax_mask m = 0%nat.
Proof. exact argmax_mask_none. Qed.
Print Assumptions C17_argmax_none.

(* on ascending log-likelihoods the cut is a clean split of the samples *)
Theorem C17_argmax_sorted_split : forall keys cut,
  (forall i j, (i <= j < length keys)%nat -> nth i keys 0 <= nth j keys 0) ->
  existsb (fun k => cut <=? k) keys = true ->
  (forall j, (argmax_ge_key keys cut <= j < length keys)%nat -> cut <= nth j keys 0)
  /\ (forall j, (j < argmax_ge_key keys cut)%nat -> nth j keys 0 < cut).
Proof. exact argmax_ge_key_sorted. Qed.
Print Assumptions C17_argmax_sorted_split.

(* every proposal is trained on at least min_samples samples *)
Theorem C17_n_train : forall keys thr min_s,
  0 <= min_s <= Z.of_nat (length keys) ->
  0 <= n_train keys thr min_s /\ min_s <= Z.of_nat (length keys) - n_train keys thr min_s.
Proof. exact n_train_floor. Qed.
Print Assumptions C17_n_train.

(* on ascending log-likelihoods: unless the min_samples floor takes over, the proposal is trained only on samples at or
   above the threshold; when it does take over, on exactly min_samples samples *)
Theorem C17_n_train_above_threshold : forall keys thr min_s,
  (forall i j, (i <= j < length keys)%nat -> nth i keys 0 <= nth j keys 0) ->
  existsb (fun k => thr <=? k) keys = true ->
  (Z.of_nat (argmax_ge_key keys thr) <= Z.of_nat (length keys) - min_s ->
     forall j, n_train keys thr min_s <= Z.of_nat j < Z.of_nat (length keys) -> thr <= nth j keys 0)
  /\ (Z.of_nat (length keys) - min_s < Z.of_nat (argmax_ge_key keys thr) ->
     Z.of_nat (length keys) - n_train keys thr min_s = min_s).
Proof. exact n_train_sorted. Qed.
Print Assumptions C17_n_train_above_threshold.

(* the weighted (Harrell-Davis) quantile is a convex combination of the data for every monotone
   B with B 0 = 0, B 1 = 1 (the regularised incomplete beta function is an oracle) *)
Theorem C17_quantile_convex :
  forall (B : Q -> Q) (lo hi : Q) (ev : list (Q * Q)),
    (forall x y, (x <= y)%Q -> (B x <= B y)%Q) -> (B 0 == 0)%Q -> (B 1 == 1)%Q ->
    ends_sorted 0 ev -> (last_end 0 ev == 1)%Q ->
    (forall x y, (x == y)%Q -> (B x == B y)%Q) ->
    Forall (fun p => (lo <= snd p)%Q /\ (snd p <= hi)%Q) ev ->
    (lo <= wq_sum B 0 ev)%Q /\ (wq_sum B 0 ev <= hi)%Q.
Proof. exact wq_in_range. Qed.
Print Assumptions C17_quantile_convex.

Example C17_nonvacuous :
  clamp 3 20 5 2 0 10 false = RetIndex 3 /\ clamp 18 20 5 2 0 10 false = RetIndex 15 /\
  clamp 1 20 5 4 0 10 false = RetIndex 4 /\ clamp 2 20 5 1 25 10 true = RetIndex 5 /\
  clamp 0 20 5 1 0 10 false = RetIndex 1.
Proof. vm_compute. repeat split. Qed.

(* ---- the normalisation inside weighted_quantile (over the reals; B = scipy's betainc is arbitrary) -------------------- *)
Local Open Scope R_scope.
(* a common offset of the log-weights changes nothing: normalised weights, effective sample size, end points, quantile *)
Theorem C17_quantile_shift :
  forall (B : R -> R -> R -> R) (q : R) (vals : list R) (c : R) (lw : list R),
    nw (map (Rplus c) lw) = nw lw /\ neff (map (Rplus c) lw) = neff lw /\
    wquant B q vals (map (Rplus c) lw) = wquant B q vals lw.
Proof. intros. split; [apply nw_shift|split; [apply neff_shift|apply wquant_shift]]. Qed.
Print Assumptions C17_quantile_shift.

(* equal log-weights, whatever their common value: every weight is 1/n, the effective sample size is n and the quantile
   is the one computed with no weights at all - the ordinary (Harrell-Davis) quantile with a = q (n+1), b = (1-q) (n+1) *)
Theorem C17_quantile_equal_weights :
  forall (B : R -> R -> R -> R) (q : R) (vals : list R) (c : R) (n : nat), (0 < n)%nat ->
    nw (repeat c n) = repeat (/ INR n) n /\ neff (repeat c n) = INR n /\
    wquant B q vals (repeat c n) = wquant B q vals (repeat 0 n).
Proof. intros B q vals c n Hn. split; [now apply nw_equal|split; [now apply neff_equal|apply wquant_equal]]. Qed.
Print Assumptions C17_quantile_equal_weights.

(* the normalised weights sum to one (so the last end point is 1, the hypothesis of C17_quantile_convex) *)
Theorem C17_weights_normalised : forall lw : list R, lw <> [] -> rsum (nw lw) = 1.
Proof. exact nw_sum_one. Qed.
Print Assumptions C17_weights_normalised.

(* ... and that hypothesis itself: one end point per sample, the last one exactly 1, for every non-empty weight vector *)
Theorem C17_end_points : forall lw : list R, lw <> [] ->
  last (ends lw) 1 = 1 /\ length (ends lw) = length lw.
Proof. exact ends_last_one. Qed.
Print Assumptions C17_end_points.
