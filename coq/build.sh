#!/bin/bash
# ./build.sh [targets...]   - targeted (or full) build of the static development under the shared lock
cd "$(dirname "$0")"
exec flock .build.lock sh -c './mkproject.sh && timeout 3000 make -j16 "$@" 2>&1 | grep -v "WARNING conda"' sh "$@"
