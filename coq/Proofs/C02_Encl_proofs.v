(* C02 - the interval twins enclose the real quadrature; a passing check_case is a statement about reals *)
From Coq Require Import Reals ZArith List Bool Lia Lra.
From Interval Require Import Xreal Interval Basic.
From NessaiV Require Import Lib.Enclose Model.C02_Quadrature Proofs.C02_Quadrature_proofs Run.C02_run.
Import ListNotations.
Local Open Scope R_scope.

Section Encl.
Variable p : prec.

Lemma one_encl : encl (one_I p) 1.
Proof. exact (encl_iZ p 1). Qed.

Lemma logt_encl md n : encl (logt_I p md n) (logt md n).
Proof.
  generalize (nR_pos n). intros Hn.
  assert (Hd : encl (I.div p (one_I p) (iZ p (Zpos n))) (1 / nR n)).
  { apply encl_div; [lra|apply one_encl|apply encl_iZ]. }
  destruct md; cbn [logt_I logt]; apply encl_neg; [exact Hd|].
  apply encl_ln.
  - assert (0 < 1 / nR n) by (apply Rdiv_lt_0_compat; lra). lra.
  - apply encl_add; [apply one_encl|exact Hd].
Qed.

Lemma cumsum_encl a acc li lx :
  encl a acc -> Forall2 encl li lx -> Forall2 encl (cumsum_from_I p a li) (cumsum_from acc lx).
Proof.
  intros Ha H. revert a acc Ha. induction H; intros a acc Ha; simpl; constructor.
  - now apply encl_add.
  - apply IHForall2. now apply encl_add.
Qed.

Lemma lvols_encl md ns : Forall2 encl (lvols_I p md ns) (lvols md ns).
Proof.
  unfold lvols_I, lvols. constructor; [apply (encl_iZ p 0)|].
  apply cumsum_encl; [apply (encl_iZ p 0)|].
  induction ns; simpl; constructor; [apply logt_encl|assumption].
Qed.

Lemma adj_encl {A A' B B'} (r : A -> A' -> Prop) (r2 : B -> B' -> Prop) (op : A -> A -> B) (op' : A' -> A' -> B') l l' :
  (forall a a' b b', r a a' -> r b b' -> r2 (op a b) (op' a' b')) ->
  Forall2 r l l' -> Forall2 r2 (adj op l) (adj op' l').
Proof.
  intros Hop H. induction H as [|a a' l l' Ha Hl IH]; [constructor|].
  destruct Hl as [|b b' l l' Hb Hl]; [constructor|].
  rewrite !adj_cons2. constructor; [now apply Hop|exact IH].
Qed.

Lemma half_encl : encl (half_I p) (1 / 2).
Proof.
  unfold half_I. replace (1 / 2) with (dyR 1 (-1)); [apply encl_dy|].
  unfold dyR. simpl. lra.
Qed.

Lemma trap_encl fi fs xi xs :
  Forall2 encl fi fs -> Forall2 encl xi xs -> encl (trap_I p fi xi) (trap fs xs).
Proof.
  intros Hf Hx. unfold trap_I, trap. apply sum_encl.
  apply (encl_map2 encl encl encl).
  - intros a a' b b' Ha Hb. replace (a' / 2 * b') with (a' * (1 / 2) * b') by lra.
    apply encl_mul; [apply encl_mul; [exact Ha|apply half_encl]|exact Hb].
  - revert Hf. apply adj_encl. intros; now apply encl_add.
  - revert Hx. apply adj_encl. intros; now apply encl_sub.
Qed.

Lemma Forall2_last {A B} (r : A -> B -> Prop) l l' d d' :
  Forall2 r l l' -> r d d' -> r (last l d) (last l' d').
Proof.
  intros H Hd. induction H as [|a a' l l' Ha Hl IH]; [exact Hd|].
  destruct Hl; [exact Ha|exact IH].
Qed.

Lemma cw_L_encl li ls :
  Forall2 xencl li ls -> Forall2 encl (cw_L_I p (map (xexp_I p) li)) (cw_L ls).
Proof.
  intros H. unfold cw_L_I, cw_L.
  assert (Hm : Forall2 encl (map (xexp_I p) li) (map xexp ls)).
  { revert H. apply Forall2_map2. intros a b. apply encl_xexp. }
  change (map xexp (None :: ls ++ [last ls None])) with (0 :: map xexp (ls ++ [last ls None])).
  rewrite map_app. simpl map. constructor; [apply (encl_iZ p 0)|].
  apply Forall2_app; [exact Hm|]. constructor; [|constructor].
  rewrite <- (last_map xexp). change (xexp None) with 0.
  apply Forall2_last; [exact Hm|apply (encl_iZ p 0)].
Qed.

Lemma absmax_encl li ls : Forall2 xencl li ls -> encl (absmax_I p li) (absmax ls).
Proof.
  induction 1 as [|a b li ls Hab H IH]; simpl; [apply (encl_iZ p 0)|].
  destruct a, b; simpl in Hab; try contradiction; [|exact IH].
  apply encl_max; [now apply encl_abs|exact IH].
Qed.

Lemma u53_encl : encl (u53_I p) u53.
Proof. apply encl_dy. Qed.

Lemma tol_lv_encl i v lv : encl v lv -> encl (tol_lv_I p i v) (tol_lv i lv).
Proof.
  intros H. unfold tol_lv_I, tol_lv. apply encl_mul.
  - apply encl_mul; [apply encl_iZ|apply u53_encl].
  - apply encl_mul; [rewrite INR_IZR_INZ; apply encl_iZ|now apply encl_abs].
Qed.

Lemma Forall2_length {A B} (r : A -> B -> Prop) l l' : Forall2 r l l' -> length l = length l'.
Proof. induction 1; simpl; congruence. Qed.

Theorem quad_encl md li ls ns :
  Forall2 xencl li ls -> length ls = length ns -> has_finite ls ->
  let q := quad_I p md li ns in
  Forall2 encl (q_lv q) (lvols md ns)
  /\ encl (q_lnZrect q) (ln (Zrect md ls ns))
  /\ encl (q_lnZ q) (cw_lnZ md ls ns)
  /\ Forall2 xencl (q_lnw q) (cw_lnw md ls ns)
  /\ encl (q_tol q) (tol_q md ls ns).
Proof.
  intros Hi Hl Hf. cbn zeta.
  generalize (lvols_encl md ns). intros Hlv.
  assert (HE : Forall2 encl (map (I.exp p) (lvols_I p md ns)) (vols md ns)).
  { unfold vols. revert Hlv. apply Forall2_map2. intros a b. apply encl_exp. }
  assert (HdX : Forall2 encl (adj (I.sub p) (map (I.exp p) (lvols_I p md ns))) (dX md ns)).
  { unfold dX. revert HE. apply adj_encl. intros; now apply encl_sub. }
  assert (HLs : Forall2 encl (map (xexp_I p) li) (map xexp ls)).
  { revert Hi. apply Forall2_map2. intros a b. apply encl_xexp. }
  assert (HlnZ : encl (I.ln p (trap_I p (cw_L_I p (map (xexp_I p) li))
                                       (map (I.exp p) (lvols_I p md ns) ++ [iZ p 0]))) (cw_lnZ md ls ns)).
  { unfold cw_lnZ, cw_Z. apply encl_ln; [now apply Z_pos|].
    apply trap_encl; [now apply cw_L_encl|].
    unfold cw_X. apply Forall2_app; [exact HE|]. constructor; [apply (encl_iZ p 0)|constructor]. }
  unfold quad_I. cbn [q_lv q_lnZrect q_lnZ q_lnw q_tol]. repeat split.
  - exact Hlv.
  - apply encl_ln; [now apply Zrect_pos|]. unfold Zrect. apply sum_encl.
    apply (encl_map2 encl encl encl); [intros; now apply encl_mul|exact HLs|exact HdX].
  - exact HlnZ.
  - unfold cw_lnw. generalize (dX_pos md ns). revert HdX.
    generalize (adj (I.sub p) (map (I.exp p) (lvols_I p md ns))) (dX md ns).
    revert HlnZ.
    generalize (I.ln p (trap_I p (cw_L_I p (map (xexp_I p) li)) (map (I.exp p) (lvols_I p md ns) ++ [iZ p 0]))).
    generalize (cw_lnZ md ls ns). intros zr zi HlnZ.
    clear Hl Hf HLs. induction Hi as [|a b li ls Hab Hi IH]; intros di ds Hd Hp; [constructor|].
    destruct Hd as [|d d' di ds Hdd Hd]; [constructor|]. inversion Hp; subst.
    cbn [map2]. constructor; [|now apply IH].
    destruct a, b; simpl in Hab; try contradiction; simpl; [|exact Logic.I].
    apply encl_sub; [apply encl_add; [exact Hab|now apply encl_ln]|exact HlnZ].
  - unfold tol_q. apply encl_mul; [apply encl_mul; [apply encl_iZ|apply u53_encl]|].
    apply encl_add; [apply encl_add|].
    + apply encl_mul; [apply encl_iZ|]. apply encl_add; [apply one_encl|]. apply encl_abs.
      apply Forall2_last; [exact Hlv|apply (encl_iZ p 0)].
    + now apply absmax_encl.
    + rewrite (Forall2_length _ _ _ Hi). rewrite INR_IZR_INZ. apply encl_iZ.
Qed.

(* ---- a passing check is a statement about reals -------------------------------------------- *)
Lemma close_to_near enc y tol x t :
  close_to p enc y tol = true -> encl enc x -> encl tol t -> near t x y.
Proof. intros H Hx Ht. exact (close_to_sound p enc y tol x t H Hx Ht). Qed.

Lemma close_to_opt_near enc y tol x t :
  close_to_opt p enc y tol = true -> xencl enc x -> encl tol t -> near_opt t x y.
Proof.
  destruct enc, y, x; simpl; try discriminate; try contradiction; try trivial.
  intros H Hx Ht. now apply (close_to_near _ _ _ _ _ H).
Qed.

Lemma check_lv_sound i lvi lv ys :
  Forall2 encl lvi lv -> check_lv_from p i lvi ys = true -> lv_ok i lv ys.
Proof.
  intros H. revert i ys. induction H as [|a b lvi lv Hab H IH]; intros i ys Hc.
  - destruct ys; [exact Logic.I|discriminate].
  - destruct ys as [|[y|] ys]; try discriminate. cbn [check_lv_from] in Hc.
    apply andb_prop in Hc. destruct Hc as [H1 H2]. split; [|now apply IH].
    apply (close_to_near _ _ _ _ _ H1 Hab). now apply tol_lv_encl.
Qed.

Lemma all2_sound {A B} (f : A -> B -> bool) (P : A -> B -> Prop) la lb :
  (forall a b, f a b = true -> P a b) -> all2 f la lb = true -> Forall2 P la lb.
Proof.
  intros Hf. revert lb. induction la; destruct lb; simpl; intros H; try discriminate; [constructor|].
  apply andb_prop in H. destruct H. constructor; auto.
Qed.

Lemma mism_from_nil {X} (chk : X -> bool) k l : mism_from chk k l = [] -> Forall (fun x => chk x = true) l.
Proof.
  revert k. induction l as [|x l IH]; intros k H; [constructor|]. simpl in H.
  destruct (chk x) eqn:E; [|discriminate]. constructor; [exact E|now apply (IH (S k))].
Qed.

Lemma existsb_has_finite (lsd : list (option dyad)) : existsb is_some lsd = true -> has_finite (map dyoR lsd).
Proof.
  intros H. apply existsb_exists in H. destruct H as [[[m e]|] [Hin Hs]]; [|discriminate].
  exists (dyR m e). apply in_map_iff. now exists (Some (m, e)).
Qed.

Theorem check_case_sound md lsd ns gs :
  check_case p (md, lsd, ns, gs) = [] -> Forall (group_ok md (map dyoR lsd) ns) gs.
Proof.
  unfold check_case, check_with, guards, quad_of. intros H.
  apply app_eq_nil in H. destruct H as [Hg H]. apply app_eq_nil in Hg. destruct Hg as [Hg1 Hg2].
  apply app_eq_nil in H. destruct H as [_ H].
  destruct (Nat.eqb (length lsd) (length ns)) eqn:Hl; [|discriminate]. apply Nat.eqb_eq in Hl.
  destruct (existsb is_some lsd) eqn:Hf; [|discriminate]. apply existsb_has_finite in Hf.
  assert (Hl' : length (map dyoR lsd) = length ns) by now rewrite map_length.
  destruct (quad_encl md (map (dyo p) lsd) (map dyoR lsd) ns (encl_dyo_list p lsd) Hl' Hf)
    as (E1 & E2 & E3 & E4 & E5). cbn zeta in *.
  apply mism_from_nil in H. revert H. apply Forall_impl. intros [k ys] Hc.
  unfold check_group in Hc. unfold group_ok. cbn [fst snd] in *.
  destruct k as [|[|[|[|k]]]]; try discriminate.
  - now apply (check_lv_sound 0 _ _ _ E1).
  - destruct ys as [|y [|]]; try discriminate. exists y. split; [reflexivity|].
    apply (close_to_opt_near _ _ _ _ _ Hc); [exact E2|exact E5].
  - destruct ys as [|y [|]]; try discriminate. exists y. split; [reflexivity|].
    apply (close_to_opt_near _ _ _ _ _ Hc); [exact E3|exact E5].
  - clear -Hc E4 E5. revert ys Hc. induction E4 as [|a b li lw Hab E4 IH]; intros ys Hc.
    + destruct ys; [constructor|discriminate].
    + destruct ys as [|y ys]; [discriminate|]. cbn [all2] in Hc. apply andb_prop in Hc. destruct Hc as [H1 H2].
      constructor; [|now apply IH]. now apply (close_to_opt_near _ _ _ _ _ H1).
Qed.
End Encl.
