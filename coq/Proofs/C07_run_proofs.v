(* C07 - soundness of the decision procedure of Run/C07_run.v *)
From Coq Require Import Reals ZArith List Bool Lra Lia.
From Interval Require Import Xreal Interval.
From NessaiV Require Import Lib.C07_Interval Model.C07_Maps Proofs.C07_Maps_proofs Run.C07_run.
Import ListNotations.
Local Open Scope R_scope.

Lemma ulps_nonneg : (0 <= ulps)%Z.
Proof. unfold ulps. lia. Qed.

Lemma ptI_sound : forall d, enclR (ptI d) (dyR d).
Proof.
  intros [m e]. unfold ptI, pointI, dyR, enclR, encl. cbn [fst snd].
  rewrite <- Xdy_real. apply dyI_correct.
Qed.

(* verdicts 1 and 2 mean: the implementation's float lies inside the enclosure *)
Theorem judge_sound : forall m e E, (judge (Some (m, e)) E = 1%nat \/ judge (Some (m, e)) E = 2%nat) ->
  enclR E (dyR (m, e)).
Proof.
  intros m e E H. unfold judge in H.
  destruct (negb (I.bounded E)); [destruct H; discriminate|].
  destruct (insideb prec m e E) eqn:Hi; [|destruct H; discriminate].
  apply insideb_correct in Hi. exact Hi.
Qed.

(* a non-finite output is accepted only against an improper / unbounded enclosure *)
Theorem judge_none : forall E, judge None E <> 0%nat -> I.bounded E = false.
Proof.
  intros E H. unfold judge in H. destruct (I.bounded E); [cbn in H; congruence|reflexivity].
Qed.

Lemma zip3_rel : forall blocks (ins : list (list dy)) (auxs : list dy),
  List.Forall2 blk_rel (zip3 blocks (map (map ptI) ins) (map ptI auxs))
                       (zip3 blocks (map (map dyR) ins) (map dyR auxs)).
Proof.
  induction blocks as [|b bs IH]; intros ins auxs; cbn [zip3]; [constructor|].
  destruct ins as [|i ins]; cbn [map zip3]; [constructor|].
  destruct auxs as [|a auxs]; cbn [map zip3]; [constructor|].
  constructor; [|apply IH].
  unfold blk_rel. cbn [fst snd]. split; [reflexivity|]. split; [|apply ptI_sound].
  induction i as [|d i IHi]; cbn [map]; constructor; [apply ptI_sound|exact IHi].
Qed.

(* THE ENCLOSURE THEOREM of the tie: at the exact dyadic inputs, the interval twin of the configured
   model (any list of blocks, log-Jacobian threaded through) encloses the real-number model *)
Theorem check_forward_sound : forall blocks ins auxs,
  let fwI := combI_fwd prec ulps (zip3 blocks (map (map ptI) ins) (map ptI auxs)) I.zero in
  let fwR := combR_fwd (zip3 blocks (map (map dyR) ins) (map dyR auxs)) 0 in
  List.Forall2 (List.Forall2 enclR) (fst fwI) (fst fwR) /\ enclR (snd fwI) (snd fwR).
Proof.
  intros. apply combI_fwd_sound; [exact ulps_nonneg|apply zip3_rel|apply zeroI_sound].
Qed.

Lemma rev_rel : forall A B (R : A -> B -> Prop) l l', List.Forall2 R l l' -> List.Forall2 R (rev l) (rev l').
Proof.
  intros A B R l l' H. induction H; cbn [rev]; [constructor|].
  apply List.Forall2_app; [assumption|constructor; [assumption|constructor]].
Qed.

Theorem check_backward_sound : forall blocks ys auxs,
  let bwI := combI_bwd prec ulps (rev (zip3 blocks (map (map ptI) ys) (map ptI auxs))) I.zero in
  let bwR := combR_bwd (rev (zip3 blocks (map (map dyR) ys) (map dyR auxs))) 0 in
  List.Forall2 (List.Forall2 enclR) (fst bwI) (fst bwR) /\ enclR (snd bwI) (snd bwR).
Proof.
  intros. apply combI_bwd_sound; [exact ulps_nonneg|apply rev_rel; apply zip3_rel|apply zeroI_sound].
Qed.

(* an accepted output and the exact model value lie in the same proper interval [l, u]: they differ by at most u - l *)
Theorem accepted_close : forall m e E l u v,
  (judge (Some (m, e)) E = 1%nat \/ judge (Some (m, e)) E = 2%nat) ->
  I.convert E = Ibnd (Xreal l) (Xreal u) -> enclR E v -> Rabs (dyR (m, e) - v) <= u - l.
Proof.
  intros m e E l u v Hj Hc Hv. apply (inside_bound E l u); [exact Hc|apply judge_sound; exact Hj|exact Hv].
Qed.

(* ------------------------------------------------------------------ offsets of the reported log-Jacobian *)
Theorem offs_sound : forall m e E D v,
  offs (Some (m, e)) E = Some D -> enclR E v -> enclR D (dyR (m, e) - v).
Proof.
  intros m e E D v H Hv. unfold offs in H. destruct (I.bounded E); [|discriminate].
  injection H as <-. unfold enclR, encl.
  apply (I.sub_correct prec (pointI prec m e) E (Xreal (dyR (m, e))) (Xreal v)); [|exact Hv].
  exact (ptI_sound (m, e)).
Qed.

(* a separated pair: the two true offsets differ, so "reported - true" is not one constant *)
Theorem separated_sound : forall Dj Dk dj dk,
  separated Dj Dk = true -> enclR Dj dj -> enclR Dk dk -> dj < dk.
Proof.
  intros Dj Dk dj dk H Hj Hk. unfold separated in H.
  apply I.F'.lt'_correct in H.
  assert (Nj : not_empty (I.convert Dj)) by (exists dj; exact Hj).
  assert (Nk : not_empty (I.convert Dk)) by (exists dk; exact Hk).
  rewrite (I.upper_correct Dj Nj), (I.lower_correct Dk Nk) in H.
  unfold enclR, encl in Hj, Hk.
  destruct (I.convert Dj) as [|lj uj]; cbn in H; [destruct H|].
  destruct uj as [|uj]; [destruct H|].
  destruct (I.convert Dk) as [|lk uk]; cbn in H; [destruct H|].
  destruct lk as [|lk]; [destruct H|].
  cbn in Hj, Hk. destruct Hj as [_ Hj]. destruct Hk as [Hk _]. lra.
Qed.
