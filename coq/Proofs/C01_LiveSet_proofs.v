(* C01 - lemmas about Model/C01_LiveSet.v.  Statements of the property theorems are in Props/C01.v. *)
From Coq Require Import ZArith List Bool Lia ZifyBool Permutation.
From NessaiV Require Import Lib.Effects Model.C01_LiveSet.
Import ListNotations.
Local Open Scope Z_scope.

(* ---- sortedness ---------------------------------------------------------------------------- *)
Fixpoint sorted (l : list Z) : Prop :=
  match l with [] => True | x :: r => Forall (Z.le x) r /\ sorted r end.

Lemma sorted_app (a b : list Z) :
  sorted (a ++ b) <-> sorted a /\ sorted b /\ (forall x y, In x a -> In y b -> x <= y).
Proof.
  induction a as [|h t IH]; cbn [app sorted].
  - split; [intros H; repeat split; [exact H|intros x y []]|intros (_ & H & _); exact H].
  - rewrite Forall_app, IH. split.
    + intros ((Ht & Hb) & (St & Sb & Hx)). repeat split; try assumption.
      intros x y [<-|Hin] Hy; [exact (proj1 (Forall_forall _ _) Hb y Hy)|exact (Hx x y Hin Hy)].
    + intros ((Ht & St) & Sb & Hx). repeat split; try assumption.
      * apply Forall_forall. intros y Hy. apply Hx; [left; reflexivity|exact Hy].
      * intros x y Hin Hy. apply Hx; [right; exact Hin|exact Hy].
Qed.

Lemma sorted_sortedb (l : list Z) : sortedb l = true <-> sorted l.
Proof.
  induction l as [|x r IH]; cbn [sortedb sorted]; [tauto|].
  rewrite andb_true_iff, IH, forallb_forall, Forall_forall.
  split; intros (H & S); split; try exact S; intros y Hy; specialize (H y Hy); lia.
Qed.

Lemma sorted_head_min (x : Z) (r : list Z) : sorted (x :: r) -> forall y, In y (x :: r) -> x <= y.
Proof.
  intros (H & _) y [<-|Hy]; [lia|exact (proj1 (Forall_forall _ _) H y Hy)].
Qed.

(* ---- the rank of a key in a sorted list of points ------------------------------------------ *)
Definition below (k : Z) (p : pt) : bool := key p <? k.

Lemma filter_none_when_all_ge (k : Z) (l : list pt) :
  (forall p, In p l -> k <= key p) -> filter (below k) l = [].
Proof.
  induction l as [|x r IH]; intros H; cbn [filter]; [reflexivity|].
  unfold below at 1. destruct (Z.ltb_spec (key x) k) as [Hlt|_].
  - specialize (H x (or_introl eq_refl)). lia.
  - apply IH. intros p Hp. apply H. right. exact Hp.
Qed.

Lemma rank_split (k : Z) (l : list pt) :
  sorted (map key l) ->
  (length (filter (below k) l) <= length l)%nat /\
  (forall p, In p (firstn (length (filter (below k) l)) l) -> key p < k) /\
  (forall p, In p (skipn (length (filter (below k) l)) l) -> k <= key p).
Proof.
  induction l as [|x r IH]; intros S; cbn [map sorted] in S.
  - cbn. repeat split; try lia; intros p [].
  - destruct S as (Hx & Sr). cbn [filter].
    destruct (below k x) eqn:E; unfold below in E;
      [assert (Hlt : key x < k) by lia|assert (Hge : k <= key x) by lia]; clear E.
    + cbn [length firstn skipn]. destruct (IH Sr) as (Hj & Hf & Hs). repeat split.
      * cbn [length]. lia.
      * intros p [<-|Hp]; [exact Hlt|exact (Hf p Hp)].
      * exact Hs.
    + assert (Hall : forall p, In p r -> k <= key p).
      { intros p Hp. assert (key x <= key p).
        { apply (proj1 (Forall_forall _ _) Hx). apply in_map. exact Hp. } lia. }
      rewrite (filter_none_when_all_ge k r Hall). cbn [length firstn skipn].
      repeat split; [lia|intros p []|].
      intros p [<-|Hp]; [exact Hge|exact (Hall p Hp)].
Qed.

Lemma filter_map_key (k : Z) (l : list pt) :
  length (filter (fun x => x <? k) (map key l)) = length (filter (below k) l).
Proof.
  induction l as [|x r IH]; cbn [map filter]; [reflexivity|].
  unfold below at 1. destruct (key x <? k); cbn [length]; rewrite IH; reflexivity.
Qed.

Lemma sorted_firstn_skipn (j : nat) (l : list Z) :
  sorted l -> sorted (firstn j l) /\ sorted (skipn j l).
Proof.
  intros S. rewrite <- (firstn_skipn j l) in S. apply sorted_app in S. tauto.
Qed.

Lemma insert_at_sorted (new : pt) (l : list pt) :
  sorted (map key l) ->
  sorted (map key (insert_at (length (filter (below (key new)) l)) new l)).
Proof.
  intros S. destruct (rank_split (key new) l S) as (Hj & Hf & Hs).
  set (j := length (filter (below (key new)) l)) in *.
  unfold insert_at. rewrite map_app. cbn [map].
  assert (S' := S). rewrite <- (firstn_skipn j l), map_app in S'. apply sorted_app in S'.
  destruct S' as (S1 & S2 & S12).
  apply sorted_app. split; [|split].
  - exact S1.
  - cbn [sorted]. split; [|exact S2]. apply Forall_forall. intros y Hy.
    apply in_map_iff in Hy. destruct Hy as (p & <- & Hp). exact (Hs p Hp).
  - intros x y Hx [<-|Hy].
    + apply in_map_iff in Hx. destruct Hx as (p & <- & Hp). specialize (Hf p Hp). lia.
    + exact (S12 x y Hx Hy).
Qed.

(* ---- shift + write = insertion ----------------------------------------------------------------- *)
Lemma skipn1_skipn {A} (j : nat) (l : list A) : skipn 1 (skipn j l) = skipn (S j) l.
Proof.
  revert l. induction j as [|j IH]; intros l.
  - reflexivity.
  - destruct l as [|x r]; [reflexivity|]. rewrite !skipn_cons. rewrite <- skipn_cons with (a := x).
    rewrite skipn_cons. apply IH.
Qed.

Lemma shift_write_insert {A} (w new : A) (tl : list A) (j : nat) :
  (j <= length tl)%nat ->
  write (S j - 1) new (shift (S j) (w :: tl)) = insert_at j new tl.
Proof.
  intros Hj. unfold shift, write, insert_at.
  replace (S j - 1)%nat with j by lia.
  change (skipn 1 (w :: tl)) with tl.
  assert (Hl : length (firstn j tl) = j) by (rewrite firstn_length; lia).
  rewrite firstn_app, Hl, Nat.sub_diag, firstn_O, app_nil_r, firstn_firstn, Nat.min_id.
  rewrite skipn_app, Hl. replace (S j - j)%nat with 1%nat by lia.
  rewrite (skipn_all2 (firstn j tl)) by lia. cbn [app].
  rewrite skipn1_skipn, skipn_cons. reflexivity.
Qed.

Lemma insert_at_perm {A} (j : nat) (x : A) (l : list A) : Permutation (insert_at j x l) (x :: l).
Proof.
  unfold insert_at. rewrite <- (firstn_skipn j l) at 3. symmetry. apply Permutation_middle.
Qed.

Lemma insert_at_length {A} (j : nat) (x : A) (l : list A) : length (insert_at j x l) = S (length l).
Proof. apply (Permutation_length (insert_at_perm j x l)). Qed.

Lemma insert_at_nth {A} (j : nat) (x : A) (l : list A) :
  (j <= length l)%nat -> nth_error (insert_at j x l) j = Some x.
Proof.
  intros Hj. unfold insert_at.
  rewrite nth_error_app2; rewrite firstn_length, Nat.min_l by lia; [|lia].
  rewrite Nat.sub_diag. reflexivity.
Qed.

(* ---- the strict filter -------------------------------------------------------------------------- *)
Definition ids (ds : list draw) : list Z := map (fun d => pid (fst (fst d))) ds.

Lemma cmpf_gt (p : pt) (lmin : Z) : cmpf Gt p lmin = true <-> nanL p = false /\ lmin < key p.
Proof. unfold cmpf, cmpb. destruct (nanL p); cbn [negb andb]; split; intros H; try lia; destruct H; lia. Qed.

Lemma try_draw_spec opy lmin p ek ev acc p' ev' :
  try_draw opy lmin p ek ev = (acc, p', ev') ->
  pid p' = pid p /\ okP p' = okP p /\ finP p' = finP p /\ inB p' = inB p /\ pit p' = pit p /\
  (acc = true -> okP p = true /\ cmpf opy p' lmin = true).
Proof.
  unfold try_draw. destruct (okP p) eqn:E.
  - destruct ((key p =? 0) && negb (nanL p)); intros H; inversion H; subst; cbn [set_key pid okP finP inB pit];
      repeat split; auto.
  - intros H; inversion H; subst. repeat split; auto; discriminate.
Qed.

Lemma scan_spec lmin worst :
  cmpf Gt worst lmin = false ->
  forall ds ev rj new ev' rj' rest,
    scan Gt Gt lmin worst ds ev rj = Some (new, ev', rj', rest) ->
    exists pre d, ds = pre ++ d :: rest /\ pid new = pid (fst (fst d)) /\ okP new = true
                  /\ nanL new = false /\ lmin < key new
                  /\ inB new = inB (fst (fst d)) /\ finP new = finP (fst (fst d))
                  /\ okP (fst (fst d)) = true.
Proof.
  intros Hw. induction ds as [|[[p ek] pop] r IH]; intros ev rj new ev' rj' rest H; cbn [scan] in H.
  - discriminate.
  - destruct (try_draw Gt lmin p ek ev) as [[acc p'] ev1] eqn:T.
    destruct (try_draw_spec _ _ _ _ _ _ _ _ T) as (Hid & Hok & Hfin & Hin & _ & Hacc).
    assert (Hrec : forall ev2 rj2, scan Gt Gt lmin worst r ev2 rj2 = Some (new, ev', rj', rest) ->
                   exists pre d, (p, ek, pop) :: r = pre ++ d :: rest /\ pid new = pid (fst (fst d)) /\ okP new = true
                                 /\ nanL new = false /\ lmin < key new
                                 /\ inB new = inB (fst (fst d)) /\ finP new = finP (fst (fst d))
                                 /\ okP (fst (fst d)) = true).
    { intros ev2 rj2 H2. destruct (IH _ _ _ _ _ _ H2) as (pre & d & -> & Hrest).
      exists ((p, ek, pop) :: pre), d. split; [reflexivity|exact Hrest]. }
    destruct acc.
    + destruct (Hacc eq_refl) as (Hokp & Hc). rewrite Hc in H. inversion H; subst.
      apply cmpf_gt in Hc. destruct Hc as (Hn & Hlt).
      exists [], (p, ek, pop). cbn [app fst]. repeat split; try assumption; congruence.
    + destruct pop; [exact (Hrec _ _ H)|]. rewrite Hw in H. exact (Hrec _ _ H).
Qed.

Lemma NoDup_drop_middle {A} (a b c : list A) : NoDup (a ++ b ++ c) -> NoDup (a ++ c).
Proof.
  induction b as [|x b IH]; cbn [app]; [trivial|]. intros H. apply IH. exact (NoDup_remove_1 _ _ _ H).
Qed.

Lemma scan_nodup lmin worst ds ev rj new ev' rj' rest (L : list Z) :
  cmpf Gt worst lmin = false ->
  scan Gt Gt lmin worst ds ev rj = Some (new, ev', rj', rest) ->
  NoDup (L ++ ids ds) -> NoDup (L ++ pid new :: ids rest).
Proof.
  intros Hw H N. destruct (scan_spec _ _ Hw _ _ _ _ _ _ _ H) as (pre & d & -> & Hid & _).
  unfold ids in N. rewrite map_app in N. cbn [map] in N. rewrite Hid.
  exact (NoDup_drop_middle _ _ _ N).
Qed.

(* the rest of the stream after an acceptance is a suffix of the stream *)
Lemma scan_suffix lmin worst ds ev rj new ev' rj' rest :
  cmpf Gt worst lmin = false ->
  scan Gt Gt lmin worst ds ev rj = Some (new, ev', rj', rest) -> exists pre, ds = pre ++ rest.
Proof.
  intros Hw H. destruct (scan_spec _ _ Hw _ _ _ _ _ _ _ H) as (pre & d & -> & _).
  exists (pre ++ [d]). rewrite <- app_assoc. reflexivity.
Qed.

(* ---- the invariant ------------------------------------------------------------------------------ *)
Definition tracked (s : state) := (live s, dead s, idxs s, iter s, logLs s, nls s, nlive s).

Record Inv (n : nat) (s : state) : Prop := mkInv {
  inv_n : nlive s = n;
  inv_pos : (1 <= n)%nat;
  inv_len : length (live s) = n;                           (* exactly the configured number of points *)
  inv_sorted : sorted (map key (live s));                  (* in ascending likelihood order           *)
  inv_nonan : Forall (fun p => nanL p = false) (live s);
  inv_dead_sorted : sorted (map key (dead s));             (* discarded likelihoods non-decreasing    *)
  inv_dead_le : forall d l, In d (dead s) -> In l (live s) -> key d <= key l;
  inv_nodup : NoDup (map pid (live s ++ dead s));          (* every point live or recorded at most once *)
  inv_cd : length (dead s) = iter s;
  inv_ci : length (idxs s) = iter s;
  inv_cl : logLs s = (- kinf) :: map key (dead s);         (* evidence-state entries = recorded points *)
  inv_cn : nls s = repeat n (iter s);
  inv_idx : Forall (fun i => (i < n)%nat) (idxs s)
}.

(* the invariant only reads the tracked (pickled) fields *)
Lemma Inv_tracked n s s' : tracked s = tracked s' -> Inv n s -> Inv n s'.
Proof.
  unfold tracked. intros E. inversion E as [[E1 E2 E3 E4 E5 E6 E7]]. intros [].
  constructor; rewrite <- ?E1, <- ?E2, <- ?E3, <- ?E4, <- ?E5, <- ?E6, <- ?E7; assumption.
Qed.

(* invariant + freshness of what the proposal will still return *)
Definition InvD (n : nat) (s : state) (ds : list draw) : Prop :=
  Inv n s /\ NoDup (map pid (live s ++ dead s) ++ ids ds).

(* what one consume_sample does (the statement of the property for one iteration) *)
Definition StepSpec (s s' : state) (ds r : list draw) : Prop :=
  exists (worst : pt) (tl : list pt) (new : pt) (j : nat),
    live s = worst :: tl
    /\ (forall p, In p (live s) -> key worst <= key p)         (* the point removed is the current minimum  *)
    /\ dead s' = dead s ++ [worst]                             (* and is recorded (once)                    *)
    /\ live s' = insert_at j new tl                            (* every other point untouched, same order   *)
    /\ Permutation (live s') (new :: tl)                       (* multiset = live - worst + new             *)
    /\ j = length (filter (below (key new)) tl)                (* index = number of points strictly below   *)
    /\ nth_error (live s') j = Some new                        (* = the position the new point occupies     *)
    /\ idxs s' = idxs s ++ [j]
    /\ key worst < key new                                     (* strictly greater likelihood               *)
    /\ okP new = true /\ nanL new = false                      (* logP != -inf, logL not NaN                *)
    /\ pit new = S (iter s) /\ iter s' = S (iter s) /\ logLmin s' = key worst
    /\ (exists pre d, ds = pre ++ d :: r /\ pid new = pid (fst (fst d))    (* the new point is a proposal draw *)
                      /\ inB new = inB (fst (fst d)) /\ finP new = finP (fst (fst d)))
    /\ ~ In (pid new) (map pid (live s ++ dead s))                         (* never seen before                *)
    /\ (Forall (fun d : draw => okP (fst (fst d)) = true ->                (* C09's theorem as hypothesis      *)
                               finP (fst (fst d)) = true /\ inB (fst (fst d)) = true) ds ->
        finP new = true /\ inB new = true).                                (* finite prior, inside the bounds  *)

Lemma NoDup_app_l {A} (a b : list A) : NoDup (a ++ b) -> NoDup a.
Proof.
  induction a as [|x a IH]; cbn [app]; intros H; [constructor|].
  inversion H; subst. constructor; [|apply IH; assumption].
  intro Hin. apply H2. apply in_or_app. left. exact Hin.
Qed.

Lemma repeat_snoc {A} (x : A) (k : nat) : repeat x k ++ [x] = repeat x (S k).
Proof. induction k as [|k IH]; [reflexivity|]. cbn [repeat app]. rewrite IH. reflexivity. Qed.

Lemma cmpf_self (w : pt) : cmpf Gt w (key w) = false.
Proof. unfold cmpf, cmpb. destruct (nanL w); cbn [negb andb]; lia. Qed.

Lemma ss_live (w : pt) (tl : list pt) (k : Z) :
  key w < k -> ss SLeft (map key (w :: tl)) k = S (length (filter (below k) tl)).
Proof.
  intros H. cbn [ss map filter]. destruct (Z.ltb_spec (key w) k); [|lia].
  cbn [length]. rewrite filter_map_key. reflexivity.
Qed.

Lemma step_perm_ids (w new' : pt) (tl dd : list pt) (j : nat) (R : list Z) :
  Permutation (map pid (insert_at j new' tl ++ dd ++ [w]) ++ R)
              (map pid ((w :: tl) ++ dd) ++ pid new' :: R).
Proof.
  transitivity ((pid new' :: map pid ((w :: tl) ++ dd)) ++ R); [|cbn [app]; apply Permutation_middle].
  apply Permutation_app_tail.
  change (pid new' :: map pid ((w :: tl) ++ dd)) with (map pid (new' :: (w :: tl) ++ dd)).
  apply Permutation_map.
  transitivity ((new' :: tl) ++ dd ++ [w]); [apply Permutation_app_tail; apply insert_at_perm|].
  cbn [app]. apply perm_skip. rewrite app_assoc. symmetry. apply Permutation_cons_append.
Qed.

Lemma step_spec n s ds s' r :
  InvD n s ds -> step s ds = Some (s', r) -> InvD n s' r /\ StepSpec s s' ds r.
Proof.
  intros (I & N) H. destruct I as [In_ Ipos Ilen Isort Inan Ids Idle Ind Icd Ici Icl Icn Iidx].
  unfold step in H. destruct (live s) as [|w tl] eqn:Hl; [discriminate|].
  destruct (scan Gt Gt (key w) w ds (evals s) (rej s)) as [[[[new ev] rj] rest]|] eqn:Hs; [|discriminate].
  assert (Hw := cmpf_self w).
  destruct (scan_spec _ _ Hw _ _ _ _ _ _ _ Hs) as (pre & d & Hds & Hid & Hok & Hnn & Hgt & HinB & HfinP & Hokd).
  set (new' := set_it new (S (iter s))) in *.
  assert (Hk : key new' = key new) by reflexivity.
  rewrite Hk in H. rewrite (ss_live w tl (key new) Hgt) in H.
  cbn [map sorted] in Isort. destruct Isort as (Hwmin & Stl).
  destruct (rank_split (key new) tl Stl) as (Hj & _ & _).
  set (j := length (filter (below (key new)) tl)) in *.
  rewrite (shift_write_insert w new' tl j Hj) in H.
  replace (S j - 1)%nat with j in H by lia.
  inversion H; subst s' r; clear H.
  assert (Hlen : length tl = (n - 1)%nat) by (cbn [length] in Ilen; lia).
  assert (Hperm : Permutation (insert_at j new' tl) (new' :: tl)) by apply insert_at_perm.
  assert (Hwle : forall p, In p (w :: tl) -> key w <= key p).
  { intros p [<-|Hp]; [lia|]. apply (proj1 (Forall_forall _ _) Hwmin). apply in_map. exact Hp. }
  split; [split|].
  - (* Inv *)
    constructor; cbn [live dead idxs iter logLmin logLs nls nlive evals rej].
    + exact In_.
    + exact Ipos.
    + rewrite insert_at_length. cbn [length] in Ilen. exact Ilen.
    + change (key new) with (key new') in j. apply insert_at_sorted. exact Stl.
    + apply Forall_forall. intros p Hp. apply (Permutation_in _ Hperm) in Hp.
      destruct Hp as [<-|Hp]; [exact Hnn|].
      apply (proj1 (Forall_forall _ _) Inan). right. exact Hp.
    + rewrite map_app. apply sorted_app. split; [exact Ids|split; [cbn; auto|]].
      intros x y Hx [<-|[]]. apply in_map_iff in Hx. destruct Hx as (p & <- & Hp).
      apply Idle; [exact Hp|left; reflexivity].
    + intros d0 l Hd Hl_. apply (Permutation_in _ Hperm) in Hl_. apply in_app_or in Hd.
      destruct Hd as [Hd|[<-|[]]]; destruct Hl_ as [<-|Hl_]; cbn [key new' set_it].
      * assert (key d0 <= key w) by (apply Idle; [exact Hd|left; reflexivity]). lia.
      * apply Idle; [exact Hd|right; exact Hl_].
      * lia.
      * apply Hwle. right. exact Hl_.
    + apply NoDup_app_l with (b := ids rest).
      assert (P := step_perm_ids w new' tl (dead s) j (ids rest)). change (pid new') with (pid new) in P.
      apply (Permutation_NoDup (Permutation_sym P)).
      exact (scan_nodup _ _ _ _ _ _ _ _ _ _ Hw Hs N).
    + rewrite app_length. cbn [length]. lia.
    + rewrite app_length. cbn [length]. lia.
    + rewrite Icl, map_app. reflexivity.
    + rewrite Icn, In_. apply repeat_snoc.
    + apply Forall_app. split; [exact Iidx|]. constructor; [lia|constructor].
  - (* freshness *)
    cbn [live dead].
    assert (P := step_perm_ids w new' tl (dead s) j (ids rest)). change (pid new') with (pid new) in P.
    apply (Permutation_NoDup (Permutation_sym P)).
    exact (scan_nodup _ _ _ _ _ _ _ _ _ _ Hw Hs N).
  - (* the step itself *)
    exists w, tl, new', j. cbn [live dead idxs iter logLmin].
    repeat match goal with |- _ /\ _ => split end; try reflexivity; try assumption.
    all: try (apply insert_at_nth; exact Hj).
    all: try (exists pre, d; repeat split; assumption).
    all: try (intros F; assert (Hd : In d ds) by (rewrite Hds; apply in_or_app; right; left; reflexivity);
              destruct (proj1 (Forall_forall _ _) F d Hd Hokd) as (F1 & F2);
              cbn [finP inB new' set_it]; split; congruence).
    all: try (cbn [key new' set_it]; lia).
    all: try (cbn [nanL okP new' set_it]; assumption).
    all: try (rewrite Hl; exact Hwle).
    rewrite Hl; change (pid new') with (pid new); rewrite Hid.
    assert (N2 : NoDup ((map pid ((w :: tl) ++ dead s) ++ ids pre) ++ pid (fst (fst d)) :: ids rest)).
    { rewrite <- app_assoc. rewrite Hds in N. unfold ids in *. rewrite (map_app _ pre (d :: rest)) in N. exact N. }
    apply NoDup_remove_2 in N2. intro Hin. apply N2. apply in_or_app. left. apply in_or_app. left. exact Hin.
Qed.

(* ---- runs ------------------------------------------------------------------------------------------ *)
Lemma run_inv n k : forall s ds s' r, InvD n s ds -> run k s ds = Some (s', r) -> InvD n s' r.
Proof.
  induction k as [|k IH]; intros s ds s' r I H; cbn [run] in H.
  - inversion H; subst. exact I.
  - destruct (step s ds) as [[s1 r1]|] eqn:E; [|discriminate].
    apply (IH s1 r1); [|exact H]. exact (proj1 (step_spec n s ds s1 r1 I E)).
Qed.

(* at EVERY iteration of EVERY run the state satisfies the invariant and the step is one
   likelihood-constrained replacement *)
Lemma run_every n j s ds sj dj sj' dj' :
  InvD n s ds -> run j s ds = Some (sj, dj) -> step sj dj = Some (sj', dj') ->
  InvD n sj dj /\ InvD n sj' dj' /\ StepSpec sj sj' dj dj'.
Proof.
  intros I R Hst. assert (Ij := run_inv n j s ds sj dj I R).
  destruct (step_spec n sj dj sj' dj' Ij Hst) as (I' & Sp). split; [|split]; assumption.
Qed.

Lemma run_S k : forall s ds s1 r1 s2 r2,
  run k s ds = Some (s1, r1) -> step s1 r1 = Some (s2, r2) -> run (S k) s ds = Some (s2, r2).
Proof.
  induction k as [|k IH]; intros s ds s1 r1 s2 r2 R Hst.
  - cbn in R. inversion R; subst. cbn [run]. rewrite Hst. reflexivity.
  - cbn [run] in R. destruct (step s ds) as [[sa ra]|] eqn:E; [|discriminate].
    change (run (S (S k)) s ds) with (match step s ds with None => None | Some (s', r) => run (S k) s' r end).
    rewrite E. exact (IH _ _ _ _ _ _ R Hst).
Qed.

(* the recorded dead points only ever grow at the end, by exactly one point per iteration *)
Lemma run_dead n k : forall s ds s' r, InvD n s ds -> run k s ds = Some (s', r) ->
  exists more, dead s' = dead s ++ more /\ length more = k /\ iter s' = (iter s + k)%nat.
Proof.
  induction k as [|k IH]; intros s ds s' r I H; cbn [run] in H.
  - inversion H; subst. exists []. rewrite app_nil_r. repeat split; lia.
  - destruct (step s ds) as [[s1 r1]|] eqn:E; [|discriminate].
    destruct (step_spec n s ds s1 r1 I E) as (I1 & (w & tl & new & j & _ & _ & Hd & _ & _ & _ & _ & _ & _ & _ & _ & _ & Hit & _)).
    destruct (IH s1 r1 s' r I1 H) as (more & Hm & Hl & Hi).
    exists (w :: more). rewrite Hm, Hd, <- app_assoc. cbn [app length]. repeat split; lia.
Qed.

(* ---- finalise -------------------------------------------------------------------------------------- *)
Lemma countdown_length n k : length (countdown n k) = k.
Proof. revert n. induction k as [|k IH]; intros n; cbn [countdown length]; [reflexivity|]. rewrite IH. reflexivity. Qed.

Lemma finalise_spec n s :
  Inv n s ->
  live (finalise s) = []
  /\ dead (finalise s) = dead s ++ live s
  /\ sorted (map key (dead (finalise s)))
  /\ NoDup (map pid (dead (finalise s)))
  /\ length (dead (finalise s)) = (iter s + n)%nat
  /\ logLs (finalise s) = (- kinf) :: map key (dead (finalise s))
  /\ nls (finalise s) = repeat n (iter s) ++ countdown n n
  /\ idxs (finalise s) = idxs s /\ iter (finalise s) = iter s.
Proof.
  intros [In_ Ipos Ilen Isort Inan Ids Idle Ind Icd Ici Icl Icn Iidx].
  unfold finalise. cbn [live dead idxs iter logLs nls].
  repeat match goal with |- _ /\ _ => split end; try reflexivity.
  - rewrite map_app. apply sorted_app. split; [exact Ids|split; [exact Isort|]].
    intros x y Hx Hy. apply in_map_iff in Hx. apply in_map_iff in Hy.
    destruct Hx as (d & <- & Hd). destruct Hy as (l & <- & Hl). exact (Idle d l Hd Hl).
  - apply (Permutation_NoDup (l := map pid (live s ++ dead s))); [|exact Ind].
    apply Permutation_map. apply Permutation_app_comm.
  - rewrite app_length. lia.
  - rewrite Icl, map_app. reflexivity.
  - rewrite Icn, In_, Ilen. reflexivity.
Qed.

(* ---- populate_live_points -------------------------------------------------------------------------- *)
Definition good0 (p : pt) : Prop := okP p = true /\ finP p = true /\ finL p = true /\ nanL p = false.

Lemma populate_spec : forall cs need acc ev acc' ev' r,
  populate cs need acc ev = Some (acc', ev', r) ->
  Forall good0 acc -> NoDup (map pid acc ++ ids cs) ->
  Forall good0 acc' /\ NoDup (map pid acc' ++ ids r) /\ length acc' = (length acc + need)%nat
  /\ exists pre, cs = pre ++ r.
Proof.
  induction cs as [|[[p ek] pop] cs IH]; intros need acc ev acc' ev' r H G N.
  - destruct need; cbn [populate] in H; [|discriminate]. inversion H; subst.
    repeat split; try assumption; [lia|exists []; reflexivity].
  - destruct need as [|need]; cbn [populate] in H.
    + inversion H; subst. repeat split; try assumption; [lia|exists []; reflexivity].
    + destruct (try_draw Gt (- kinf) p ek ev) as [[a p'] ev1] eqn:T.
      destruct (try_draw_spec _ _ _ _ _ _ _ _ T) as (Hid & Hok & Hfin & _ & _ & Hacc).
      cbn [ids map fst] in N.
      destruct (a && finP p' && finL p') eqn:C.
      * assert (Hg : good0 p').
        { destruct a; [|discriminate]. destruct (Hacc eq_refl) as (Hokp & _).
          unfold good0. unfold finL in *. repeat split; try lia. }
        destruct (IH need (acc ++ [p']) ev1 acc' ev' r H) as (G' & N' & L' & (pre & ->)).
        -- apply Forall_app. split; [exact G|constructor; [exact Hg|constructor]].
        -- rewrite map_app. cbn [map]. rewrite Hid, <- app_assoc. exact N.
        -- repeat split; try assumption.
           ++ rewrite app_length in L'. cbn [length] in L'. lia.
           ++ exists ((p, ek, pop) :: pre). reflexivity.
      * destruct (IH (S need) acc ev1 acc' ev' r H G) as (G' & N' & L' & (pre & ->)).
        -- exact (NoDup_remove_1 _ _ _ N).
        -- repeat split; try assumption. exists ((p, ek, pop) :: pre). reflexivity.
Qed.

Lemma insert_sorted_perm x l : Permutation (insert_sorted x l) (x :: l).
Proof.
  induction l as [|y r IH]; cbn [insert_sorted]; [reflexivity|].
  destruct (pt_leb x y); [reflexivity|]. rewrite IH. apply perm_swap.
Qed.

Lemma sort_pts_perm l : Permutation (sort_pts l) l.
Proof.
  induction l as [|x r IH]; cbn [sort_pts fold_right]; [reflexivity|].
  fold (sort_pts r). rewrite insert_sorted_perm. apply perm_skip. exact IH.
Qed.

Lemma insert_sorted_sorted x l : sorted (map key l) -> sorted (map key (insert_sorted x l)).
Proof.
  induction l as [|y r IH]; intros S; cbn [insert_sorted].
  - cbn. auto.
  - cbn [map sorted] in S. destruct S as (Hy & Sr). unfold pt_leb. 
    destruct ((key x <? key y) || (key x =? key y) && (pid x <=? pid y)) eqn:E.
    + cbn [map sorted]. repeat split; try assumption.
      constructor; [lia|]. apply Forall_forall. intros z Hz.
      assert (key y <= z) by (exact (proj1 (Forall_forall _ _) Hy z Hz)). lia.
    + cbn [map sorted]. split; [|exact (IH Sr)].
      apply Forall_forall. intros z Hz. apply in_map_iff in Hz. destruct Hz as (q & <- & Hq).
      apply (Permutation_in _ (insert_sorted_perm x r)) in Hq. destruct Hq as [<-|Hq]; [lia|].
      apply (proj1 (Forall_forall _ _) Hy). apply in_map. exact Hq.
Qed.

Lemma sort_pts_sorted l : sorted (map key (sort_pts l)).
Proof.
  induction l as [|x r IH]; cbn [sort_pts fold_right]; [cbn; auto|].
  fold (sort_pts r). apply insert_sorted_sorted. exact IH.
Qed.

Lemma init_spec n cs s0 r :
  (1 <= n)%nat -> NoDup (ids cs) -> init n cs = Some (s0, r) ->
  InvD n s0 r
  /\ Forall (fun p => pit p = 0%nat /\ okP p = true /\ finP p = true /\ finL p = true) (live s0)
  /\ dead s0 = [] /\ iter s0 = 0%nat
  /\ exists pre, cs = pre ++ r.
Proof.
  intros Hn N H. unfold init in H.
  destruct (populate cs n [] 0) as [[[acc ev] r']|] eqn:P; [|discriminate]. inversion H; subst s0 r'; clear H.
  destruct (populate_spec _ _ _ _ _ _ _ P (Forall_nil _) N) as (G & N' & L & Hpre).
  cbn [length] in L.
  set (f := fun p => set_it p 0).
  assert (Hkey : map key (map f (sort_pts acc)) = map key (sort_pts acc)).
  { rewrite map_map. apply map_ext. reflexivity. }
  assert (Hpid : map pid (map f (sort_pts acc)) = map pid (sort_pts acc)).
  { rewrite map_map. apply map_ext. reflexivity. }
  assert (Gs : Forall good0 (sort_pts acc)).
  { apply Forall_forall. intros p Hp. apply (Permutation_in _ (sort_pts_perm acc)) in Hp.
    exact (proj1 (Forall_forall _ _) G p Hp). }
  split; [split|split; [|split; [reflexivity|split; [reflexivity|exact Hpre]]]].
  - constructor; cbn [live dead idxs iter logLs nls nlive]; try reflexivity; try assumption.
    + rewrite map_length, (Permutation_length (sort_pts_perm acc)). exact L.
    + rewrite Hkey. apply sort_pts_sorted.
    + apply Forall_forall. intros p Hp. apply in_map_iff in Hp. destruct Hp as (q & <- & Hq).
      destruct (proj1 (Forall_forall _ _) Gs q Hq) as (_ & _ & _ & Hnn). exact Hnn.
    + intros d l [].
    + rewrite app_nil_r, Hpid. apply (Permutation_NoDup (l := map pid acc)).
      * apply Permutation_map. symmetry. apply sort_pts_perm.
      * exact (NoDup_app_l _ _ N').
    + constructor.
  - cbn [live dead]. rewrite app_nil_r, Hpid.
    apply (Permutation_NoDup (l := map pid acc ++ ids r)); [|exact N'].
    apply Permutation_app_tail. apply Permutation_map. symmetry. apply sort_pts_perm.
  - cbn [live]. apply Forall_forall. intros p Hp. apply in_map_iff in Hp. destruct Hp as (q & <- & Hq).
    destruct (proj1 (Forall_forall _ _) Gs q Hq) as (H1 & H2 & H3 & _).
    unfold f. repeat split; assumption.
Qed.

(* ============================================================================================ *)
(* Effect lists: closed form of the machine state after any dependency-respecting prefix.       *)
(* ============================================================================================ *)
Definition dummy_pt : pt := mkpt 0 0 0 false false false false.
Definition w_of (s : state) : pt := hd dummy_pt (live s).
Definition scanres (s : state) (ds : list draw) :=
  scan Gt Gt (key (w_of s)) (w_of s) ds (evals s) (rej s).
Definition new_of s ds := match scanres s ds with Some (p, _, _, _) => p | None => dummy_pt end.
Definition ev_of s ds := match scanres s ds with Some (_, e, _, _) => e | None => 0%nat end.
Definition rj_of s ds := match scanres s ds with Some (_, _, j, _) => j | None => 0%nat end.
Definition rest_of s ds := match scanres s ds with Some (_, _, _, r) => r | None => [] end.
Definition idx_of s ds := ss SLeft (map key (live s)) (key (new_of s ds)).

Definition expected (s : state) (ds : list draw) (a : abs) : mstate :=
  mkm (mkstate
         (if dWr a then write (idx_of s ds - 1) (set_it (new_of s ds) (S (iter s))) (shift (idx_of s ds) (live s))
          else if dSh a then shift (idx_of s ds) (live s) else live s)
         (if dDe a then dead s ++ [w_of s] else dead s)
         (if dAi a then idxs s ++ [(idx_of s ds - 1)%nat] else idxs s)
         (if dIt a then S (iter s) else iter s)
         (if dLm a then key (w_of s) else logLmin s)
         (if dSt a then logLs s ++ [key (w_of s)] else logLs s)
         (if dSt a then nls s ++ [nlive s] else nls s)
         (nlive s)
         (if dDr a then ev_of s ds else evals s)
         (if dDr a then rj_of s ds else rej s))
      (if dW a then Some (w_of s) else None)
      (if dDr a then Some (if dSi a then set_it (new_of s ds) (S (iter s)) else new_of s ds) else None)
      (if dCi a then Some (idx_of s ds) else None)
      (if dDr a then rest_of s ds else ds).

Lemma expected_abs0 s ds : expected s ds abs0 = inject s ds.
Proof. unfold expected, inject. cbn. destruct s; reflexivity. Qed.

Ltac exp_cbn :=
  cbn [exec ms l_w l_n l_i rs live dead idxs iter logLmin logLs nls nlive evals rej upd_live
       dW dLm dSt dDe dIt dDr dSi dCi dSh dWr dAi op_y op_c side canon] in *.

Ltac exp_finish Hm :=
  repeat match type of Hm with
         | match ?x with _ => _ end = Some _ => destruct x eqn:?; try discriminate
         end;
  inversion Hm; reflexivity.

Lemma exec_expected s ds e a a' m' :
  abs_step e a = Some a' -> exec canon e (expected s ds a) = Some m' -> m' = expected s ds a'.
Proof.
  destruct a as [w lm st de it dr si ci sh wr ai].
  destruct e; cbn [abs_step]; intros H Hm; try discriminate.
  - (* ReadWorst *) destruct w, sh, wr; try discriminate. inversion H; subst a'; clear H.
    unfold expected, w_of in *. exp_cbn. destruct (live s); [discriminate|]. inversion Hm. reflexivity.
  - (* SetLogLmin *) destruct w, lm, dr; try discriminate. inversion H; subst a'; clear H.
    unfold expected in *. exp_cbn. inversion Hm. reflexivity.
  - (* IncrState *) destruct w, st; try discriminate. inversion H; subst a'; clear H.
    unfold expected in *. exp_cbn. inversion Hm. reflexivity.
  - (* AppendDead *) destruct w, de; try discriminate. inversion H; subst a'; clear H.
    unfold expected in *. exp_cbn. inversion Hm. reflexivity.
  - (* SetCond *) inversion H; subst a'. inversion Hm. reflexivity.
  - (* IncrIter *) destruct it, si; try discriminate. inversion H; subst a'; clear H.
    unfold expected in *. exp_cbn. inversion Hm. reflexivity.
  - (* Draw *) destruct w, lm, dr, si; try discriminate. inversion H; subst a'; clear H.
    unfold expected, idx_of, new_of, ev_of, rj_of, rest_of, scanres in *. exp_cbn.
    destruct (scan Gt Gt (key (w_of s)) (w_of s) ds (evals s) (rej s)) as [[[[nw e] rj] rest]|]; [|discriminate].
    inversion Hm. reflexivity.
  - (* SetIt *) destruct dr, it, si, wr; try discriminate. inversion H; subst a'; clear H.
    unfold expected in *. exp_cbn. inversion Hm. reflexivity.
  - (* ComputeIdx *) destruct dr, ci, sh, wr; try discriminate. inversion H; subst a'; clear H.
    unfold expected, idx_of in *. exp_cbn. destruct si; inversion Hm; reflexivity.
  - (* ShiftLive *) destruct ci, w, sh, wr; try discriminate. inversion H; subst a'; clear H.
    unfold expected in *. exp_cbn. inversion Hm. reflexivity.
  - (* WriteLive *) destruct sh, si, wr; try discriminate. inversion H; subst a'; clear H.
    unfold expected in *. exp_cbn. destruct ci; [|discriminate]. destruct dr; [|discriminate].
    inversion Hm. reflexivity.
  - (* AppendIdx *) destruct ci, ai; try discriminate. inversion H; subst a'; clear H.
    unfold expected in *. exp_cbn. inversion Hm. reflexivity.
  - (* Skip *) inversion H; subst a'. inversion Hm. reflexivity.
Qed.

Lemma run_effs_expected s ds : forall effs a a' m,
  abs_run effs a = Some a' -> run_effs canon effs (expected s ds a) = Some m -> m = expected s ds a'.
Proof.
  induction effs as [|e r IH]; intros a a' m A R; cbn [abs_run run_effs] in *.
  - inversion A; inversion R; subst. reflexivity.
  - destruct (abs_step e a) as [a1|] eqn:E; [|discriminate].
    destruct (exec canon e (expected s ds a)) as [m1|] eqn:X; [|discriminate].
    rewrite (exec_expected s ds e a a1 m1 E X) in R. exact (IH a1 a' m A R).
Qed.

(* a Draw that ran means the proposal stream contained an acceptable point *)
Lemma run_effs_scanned s ds : forall effs a a' m,
  abs_run effs a = Some a' -> run_effs canon effs (expected s ds a) = Some m ->
  dDr a = false -> dDr a' = true -> scanres s ds <> None.
Proof.
  induction effs as [|e r IH]; intros a a' m A R Hf Ht; cbn [abs_run run_effs] in *.
  - inversion A; subst. congruence.
  - destruct (abs_step e a) as [a1|] eqn:E; [|discriminate].
    destruct (exec canon e (expected s ds a)) as [m1|] eqn:X; [|discriminate].
    rewrite (exec_expected s ds e a a1 m1 E X) in R.
    destruct (dDr a1) eqn:D1; [|exact (IH a1 a' m A R D1 Ht)].
    clear IH. destruct a as [w lm st de it dr si ci sh wr ai]. cbn [dDr] in Hf. subst dr.
    destruct e; cbn [abs_step] in E;
      repeat match type of E with
             | (if ?c then _ else _) = _ => destruct c eqn:?; [|discriminate]
             end; inversion E; subst a1; cbn [dDr] in D1; try discriminate.
    unfold expected in X. exp_cbn.
    destruct w; [|discriminate]. destruct lm; [|discriminate].
    unfold scanres. intro Hn. rewrite Hn in X. discriminate.
Qed.

Lemma abs_eqb_eq a b : abs_eqb a b = true -> a = b.
Proof.
  destruct a as [a1 a2 a3 a4 a5 a6 a7 a8 a9 a10 a11], b as [b1 b2 b3 b4 b5 b6 b7 b8 b9 b10 b11].
  unfold abs_eqb. cbn [dW dLm dSt dDe dIt dDr dSi dCi dSh dWr dAi].
  rewrite !andb_true_iff. intros H. decompose [and] H.
  repeat match goal with H : Bool.eqb _ _ = true |- _ => apply eqb_prop in H end. subst. reflexivity.
Qed.

Lemma cmp_eqb_eq a b : cmp_eqb a b = true -> a = b.
Proof. destruct a, b; cbn; congruence. Qed.
Lemma sside_eqb_eq a b : sside_eqb a b = true -> a = b.
Proof. destruct a, b; cbn; congruence. Qed.

Lemma expected_all s ds w tl :
  live s = w :: tl ->
  match scanres s ds with
  | Some (new, ev, rj, rest) =>
      step s ds = Some (ms (expected s ds abs_all), rest) /\ rs (expected s ds abs_all) = rest
  | None => step s ds = None
  end.
Proof.
  intros Hl. unfold step, expected, scanres, idx_of, new_of, ev_of, rj_of, rest_of, scanres, w_of.
  rewrite Hl. cbn [hd].
  destruct (scan Gt Gt (key w) w ds (evals s) (rej s)) as [[[[new ev] rj] rest]|]; [|reflexivity].
  cbn [abs_all dW dLm dSt dDe dIt dDr dSi dCi dSh dWr dAi ms rs]. split; reflexivity.
Qed.

Lemma Inv_live_cons n s : Inv n s -> exists w tl, live s = w :: tl.
Proof.
  intros I. destruct (live s) as [|w tl] eqn:E; [|eauto].
  exfalso. assert (H := inv_len n s I). assert (P := inv_pos n s I). rewrite E in H. cbn in H. lia.
Qed.

(* every effect list accepted by the checker performs exactly the replacement of [step] *)
Lemma effs_sound effs n s ds m :
  abs_run effs abs0 = Some abs_all -> InvD n s ds ->
  run_effs canon effs (inject s ds) = Some m ->
  exists s' r, step s ds = Some (s', r) /\ ms m = s' /\ rs m = r /\ InvD n s' r.
Proof.
  intros A I R. rewrite <- expected_abs0 in R.
  assert (Hm := run_effs_expected s ds effs abs0 abs_all m A R).
  assert (Hs := run_effs_scanned s ds effs abs0 abs_all m A R eq_refl eq_refl).
  destruct (Inv_live_cons n s (proj1 I)) as (w & tl & Hl).
  assert (E := expected_all s ds w tl Hl).
  destruct (scanres s ds) as [[[[new ev] rj] rest]|]; [|congruence].
  destruct E as (E1 & E2). subst m.
  exists (ms (expected s ds abs_all)), rest.
  split; [exact E1|split; [reflexivity|split; [exact E2|exact (proj1 (step_spec n s ds _ _ I E1))]]].
Qed.

Theorem checker_sound (sk : skeleton) :
  one_replace_per_iteration sk = true ->
  forall n s ds, InvD n s ds ->
  forall m, run_effs (sk_params sk) (sk_effs sk) (inject s ds) = Some m ->
  exists s' r, step s ds = Some (s', r) /\ tracked (ms m) = tracked s' /\ rs m = r /\ InvD n s' r.
Proof.
  unfold one_replace_per_iteration. rewrite !andb_true_iff. intros (((Hy & Hc) & Hsd) & Ha) n s ds I m R.
  destruct sk as [[oy oc sd] effs]. cbn [sk_params sk_effs op_y op_c side] in *.
  apply cmp_eqb_eq in Hy. apply cmp_eqb_eq in Hc. apply sside_eqb_eq in Hsd. subst oy oc sd.
  destruct (abs_run effs abs0) as [a|] eqn:A; [|discriminate]. apply abs_eqb_eq in Ha. subst a.
  destruct (effs_sound effs n s ds m A I R) as (s' & r & H1 & H2 & H3 & H4).
  exists s', r. subst s'. split; [exact H1|split; [reflexivity|split; assumption]].
Qed.

Lemma skeleton_today_ok : one_replace_per_iteration skeleton_today = true.
Proof. vm_compute. reflexivity. Qed.

Lemma NoDup_app_r {A} (a b : list A) : NoDup (a ++ b) -> NoDup b.
Proof. induction a as [|x a IH]; cbn [app]; intros H; [exact H|]. inversion H; subst. apply IH. assumption. Qed.

Lemma run_inv_full n k s ds s' r :
  InvD n s ds -> run k s ds = Some (s', r) ->
  InvD n s' r
  /\ sorted (map key (dead s'))
  /\ NoDup (map pid (dead s'))
  /\ length (dead s') = iter s' /\ length (idxs s') = iter s' /\ length (logLs s') = S (iter s')
  /\ Forall (fun i => (i < n)%nat) (idxs s')
  /\ (exists more, dead s' = dead s ++ more /\ length more = k /\ iter s' = (iter s + k)%nat).
Proof.
  intros I R. assert (I' := run_inv n k s ds s' r I R). destruct I' as (J & N).
  split; [split; assumption|].
  split; [exact (inv_dead_sorted n s' J)|].
  split; [assert (H := inv_nodup n s' J); rewrite map_app in H; exact (NoDup_app_r _ _ H)|].
  split; [exact (inv_cd n s' J)|]. split; [exact (inv_ci n s' J)|].
  split; [rewrite (inv_cl n s' J); cbn [length]; rewrite map_length, (inv_cd n s' J); reflexivity|].
  split; [exact (inv_idx n s' J)|]. exact (run_dead n k s ds s' r I R).
Qed.

Lemma step_inv_full n s ds s' r :
  InvD n s ds -> step s ds = Some (s', r) ->
  InvD n s' r /\ StepSpec s s' ds r
  /\ length (live s') = n /\ sorted (map key (live s')).
Proof.
  intros I H. destruct (step_spec n s ds s' r I H) as (I' & Sp).
  split; [exact I'|split; [exact Sp|split]].
  - exact (inv_len n s' (proj1 I')).
  - exact (inv_sorted n s' (proj1 I')).
Qed.

