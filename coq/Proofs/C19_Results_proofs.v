From Coq Require Import Ascii String.
From Coq Require Import List ZArith Bool Arith Lia.
Import ListNotations.
From NessaiV Require Import Model.C19_Results.
Local Open Scope Z_scope.

(* ====================================================================== *)
(* 0. induction over value trees of any depth                              *)
(* ====================================================================== *)
Section TreeInd.
Variable P : tree -> Prop.
Hypothesis HNone : P TNone.
Hypothesis HBool : forall b, P (TBool b).
Hypothesis HInt : forall z, P (TInt z).
Hypothesis HFloat : forall b, P (TFloat b).
Hypothesis HStr : forall s, P (TStr s).
Hypothesis HNp : forall k z, P (TNp k z).
Hypothesis HArr : forall s k d, P (TArr s k d).
Hypothesis HStruct : forall f r, P (TStruct f r).
Hypothesis HList : forall l, Forall P l -> P (TList l).
Hypothesis HTuple : forall l, Forall P l -> P (TTuple l).
Hypothesis HDict : forall d, Forall (fun kv => P (snd kv)) d -> P (TDict d).
Hypothesis HOpaque : forall r, P (TOpaque r).

Fixpoint tree_ind' (t : tree) : P t :=
  match t with
  | TNone => HNone
  | TBool b => HBool b
  | TInt z => HInt z
  | TFloat b => HFloat b
  | TStr s => HStr s
  | TNp k z => HNp k z
  | TArr s k d => HArr s k d
  | TStruct f r => HStruct f r
  | TList l => HList l ((fix go (l : list tree) : Forall P l :=
                           match l with [] => Forall_nil _ | x :: r => Forall_cons _ (tree_ind' x) (go r) end) l)
  | TTuple l => HTuple l ((fix go (l : list tree) : Forall P l :=
                           match l with [] => Forall_nil _ | x :: r => Forall_cons _ (tree_ind' x) (go r) end) l)
  | TDict d => HDict d ((fix go (d : list (string * tree)) : Forall (fun kv => P (snd kv)) d :=
                           match d with [] => Forall_nil _ | kv :: r => Forall_cons _ (tree_ind' (snd kv)) (go r) end) d)
  | TOpaque r => HOpaque r
  end.
End TreeInd.

Lemma map_res_ok {A B} (f : A -> res B) (g : A -> B) (l : list A) :
  Forall (fun x => f x = Ok (g x)) l -> map_res f l = Ok (map g l).
Proof.
  induction 1 as [|x l Hx _ IH]; cbn [map_res map]; [reflexivity|]. rewrite Hx, IH. reflexivity.
Qed.

Lemma map_res_total {A B} (f : A -> res B) (l : list A) :
  Forall (fun x => exists y, f x = Ok y) l -> exists ys, map_res f l = Ok ys.
Proof.
  induction 1 as [|x l [y Hy] _ [ys IH]]; cbn [map_res]; [eexists; reflexivity|].
  rewrite Hy, IH. eexists; reflexivity.
Qed.

(* ====================================================================== *)
(* 1. JSON                                                                 *)
(* ====================================================================== *)
Lemma action_eqb_eq a b : action_eqb a b = true -> a = b.
Proof. destruct a, b; cbn; intros H; try discriminate; reflexivity. Qed.

Section Json.
Variable l : ladder.
Hypothesis Hok : ladder_ok l = true.

Lemma ok_parts :
  run_ladder l LNpInt = AInt /\ run_ladder l LNpFloat = AFloat /\ run_ladder l LArr = ATolist
  /\ run_ladder l LStruct = ATolist /\ run_ladder l LOpaque = AStr /\ run_ladder l LNpBool = AStr.
Proof.
  pose proof Hok as H. unfold ladder_ok in H.
  do 5 (apply andb_true_iff in H; let h := fresh "P" in destruct H as [H h]).
  repeat split; apply action_eqb_eq; assumption.
Qed.

Theorem json_roundtrip : forall t, no_npbool t = true -> enc_json l t = Ok (jview t).
Proof.
  destruct ok_parts as (A1 & A2 & A3 & A4 & A5 & A6).
  induction t as [| b | z | b | s | k z | s k d | f r | xs IH | xs IH | d IH | r] using tree_ind';
    intros Hn; cbn [enc_json jview]; try reflexivity.
  - destruct k; cbn [no_npbool] in Hn; try discriminate; rewrite ?A1, ?A2; reflexivity.
  - rewrite A3. reflexivity.
  - rewrite A4. reflexivity.
  - cbn [no_npbool] in Hn. rewrite forallb_forall in Hn.
    rewrite (map_res_ok (enc_json l) jview xs); [reflexivity|].
    rewrite Forall_forall in *. intros x Hx. apply IH; [exact Hx|apply Hn; exact Hx].
  - cbn [no_npbool] in Hn. rewrite forallb_forall in Hn.
    rewrite (map_res_ok (enc_json l) jview xs); [reflexivity|].
    rewrite Forall_forall in *. intros x Hx. apply IH; [exact Hx|apply Hn; exact Hx].
  - cbn [no_npbool] in Hn. rewrite forallb_forall in Hn.
    rewrite (map_res_ok _ (fun kv => (fst kv, jview (snd kv))) d); [reflexivity|].
    rewrite Forall_forall in *. intros kv Hkv. rewrite (IH kv Hkv (Hn kv Hkv)). reflexivity.
  - rewrite A5. reflexivity.
Qed.
End Json.

(* config.json: whatever the kwargs tree contains, something parseable is written *)
Section Total.
Variable l : ladder.
Hypothesis Htot : ladder_total l = true.

Lemma total_parts : forall c, total_action (run_ladder l c) c = true.
Proof.
  pose proof Htot as H. unfold ladder_total in H. rewrite forallb_forall in H.
  intros c. apply H. destruct c; cbn; tauto.
Qed.

Theorem json_always_loads : forall t, exists j, enc_json l t = Ok j.
Proof.
  induction t as [| b | z | b | s | k z | s k d | f r | xs IH | xs IH | d IH | r] using tree_ind';
    cbn [enc_json]; try (eexists; reflexivity).
  - destruct k.
    + pose proof (total_parts LNpBool) as H. destruct (run_ladder l LNpBool); cbn in *; try discriminate; eexists; reflexivity.
    + pose proof (total_parts LNpInt) as H. destruct (run_ladder l LNpInt); cbn in *; try discriminate; eexists; reflexivity.
    + pose proof (total_parts LNpFloat) as H. destruct (run_ladder l LNpFloat); cbn in *; try discriminate; eexists; reflexivity.
  - pose proof (total_parts LArr) as H. destruct (run_ladder l LArr); cbn in *; try discriminate; eexists; reflexivity.
  - pose proof (total_parts LStruct) as H. destruct (run_ladder l LStruct); cbn in *; try discriminate; eexists; reflexivity.
  - destruct (map_res_total (enc_json l) xs IH) as [ys E]. rewrite E. eexists; reflexivity.
  - destruct (map_res_total (enc_json l) xs IH) as [ys E]. rewrite E. eexists; reflexivity.
  - assert (E : exists ys, map_res (fun kv => match enc_json l (snd kv) with Ok j => Ok (fst kv, j) | Err => Err end) d = Ok ys).
    { apply map_res_total. rewrite Forall_forall in *. intros kv Hkv. destruct (IH kv Hkv) as [j Hj].
      rewrite Hj. eexists; reflexivity. }
    destruct E as [ys E]. rewrite E. eexists; reflexivity.
  - pose proof (total_parts LOpaque) as H. destruct (run_ladder l LOpaque); cbn in *; try discriminate; eexists; reflexivity.
Qed.
End Total.

Lemma ladder_ok_total l : ladder_ok l = true -> ladder_total l = true.
Proof.
  intros H. destruct (ok_parts l H) as (A1 & A2 & A3 & A4 & A5 & A6).
  unfold ladder_total. cbn [forallb]. rewrite A1, A2, A3, A4, A5, A6. reflexivity.
Qed.

Lemma ladder_today_ok : ladder_ok ladder_today = true.
Proof. vm_compute. reflexivity. Qed.

(* ====================================================================== *)
(* 2. HDF5                                                                 *)
(* ====================================================================== *)
Lemma akind_eqb_refl k : akind_eqb k k = true.
Proof. destruct k; reflexivity. Qed.
Lemma all2_refl {A} (p : A -> A -> bool) (l : list A) : (forall x, p x x = true) -> all2 p l l = true.
Proof. intros H. induction l as [|x l IH]; cbn [all2]; [reflexivity|]. rewrite H, IH. reflexivity. Qed.
Lemma zs_eqb_refl l : zs_eqb l l = true.
Proof. apply all2_refl. intros x. apply Z.eqb_refl. Qed.
Lemma shape_eqb_refl s : shape_eqb s s = true.
Proof.
  unfold shape_eqb. rewrite Nat.eqb_refl. cbn [andb]. induction s as [|n s IH]; cbn; [reflexivity|].
  rewrite Nat.eqb_refl. exact IH.
Qed.
Lemma fields_eqb_refl f : fields_eqb f f = true.
Proof. apply all2_refl. intros [n k]. cbn. rewrite String.eqb_refl, akind_eqb_refl. reflexivity. Qed.

Lemma convert_equiv k x z : convert k x = Some z -> num_equiv x (k, z) = true.
Proof.
  destruct x as [kx zx]. unfold convert, num_equiv. cbn [fst snd].
  destruct k, kx; intros H; try discriminate; try (inversion H; subst; apply Z.eqb_refl).
  - rewrite H. apply Z.eqb_refl.
  - rewrite H. apply Z.eqb_refl.
Qed.

Lemma promote_equiv leaves k d : promote leaves = Some (k, d) ->
  all2 num_equiv leaves (map (fun z => (k, z)) d) = true.
Proof.
  unfold promote. destruct leaves as [|x0 rest] eqn:E.
  - intros H. inversion H; subst. reflexivity.
  - rewrite <- E. set (k0 := fold_right (fun x m => kmax (fst x) m) KBool leaves).
    destruct (map_opt (convert k0) leaves) as [d0|] eqn:Em; [|discriminate].
    intros H. inversion H; subst k d. clear H E.
    revert d0 Em. generalize leaves. induction leaves0 as [|x l IH]; intros d0 Em; cbn [map_opt] in Em.
    + inversion Em. reflexivity.
    + destruct (convert k0 x) as [z|] eqn:Ec; [|discriminate].
      destruct (map_opt (convert k0) l) as [zs|] eqn:El; [|discriminate].
      inversion Em; subst. cbn [map all2]. rewrite (convert_equiv _ _ _ Ec), (IH zs eq_refl). reflexivity.
Qed.

Lemma enc_leaf_equiv sk t h :
  h_none sk = Some none_marker -> enc_leaf sk t = Ok h -> no_marker t = true -> hequiv t h = true.
Proof.
  intros Hm He Hs. destruct t as [| b | z | b | s | k z | shape k data | f rows | xs | xs | d | r];
    cbn [enc_leaf] in He.
  - rewrite Hm in He. inversion He; subst. cbn [hequiv]. apply String.eqb_refl.
  - inversion He; subst. cbn [hequiv]. apply Z.eqb_refl.
  - destruct (fits_int64 z); [|discriminate]. inversion He; subst. cbn [hequiv]. apply Z.eqb_refl.
  - inversion He; subst. cbn [hequiv]. apply Z.eqb_refl.
  - inversion He; subst. cbn [hequiv]. cbn [no_marker] in Hs. rewrite String.eqb_refl, Hs. reflexivity.
  - inversion He; subst. cbn [hequiv]. rewrite akind_eqb_refl, Z.eqb_refl. reflexivity.
  - assert (G : forall sh dt, (if (length dt =? prod sh)%nat then Ok (HArr sh k dt) else Err) = Ok h ->
                hequiv (TArr sh k dt) (HArr sh k dt) = true -> h = HArr sh k dt).
    { intros sh dt H _. destruct (length dt =? prod sh)%nat; [|discriminate]. inversion H. reflexivity. }
    assert (R : forall sh dt, hequiv (TArr sh k dt) (HArr sh k dt) = true).
    { intros sh dt. destruct sh as [|n sh]; [destruct dt as [|x [|y dt]]|]; cbn [hequiv];
        rewrite ?shape_eqb_refl, ?akind_eqb_refl, ?zs_eqb_refl; reflexivity. }
    destruct shape as [|n shape].
    + destruct data as [|x [|y data]].
      * rewrite (G [] [] He (R _ _)). apply R.
      * inversion He; subst. cbn [hequiv]. rewrite akind_eqb_refl, Z.eqb_refl. reflexivity.
      * rewrite (G [] (x :: y :: data) He (R _ _)). apply R.
    + rewrite (G (n :: shape) data He (R _ _)). apply R.
  - inversion He; subst. cbn [hequiv]. rewrite fields_eqb_refl. rewrite all2_refl; [reflexivity|]. apply zs_eqb_refl.
  - destruct (flat (TList xs)) as [[shape leaves]|] eqn:Ef.
    + destruct (promote leaves) as [[k d]|] eqn:Ep; [|discriminate]. inversion He; subst.
      cbn [hequiv]. rewrite Ef, shape_eqb_refl, (promote_equiv _ _ _ Ep). reflexivity.
    + destruct xs as [|x xs]; [discriminate|]. destruct (map_opt str_of (x :: xs)) as [ss|] eqn:Es; [|discriminate].
      inversion He; subst. cbn [hequiv]. rewrite Es. apply all2_refl. intros s. apply String.eqb_refl.
  - destruct (flat (TTuple xs)) as [[shape leaves]|] eqn:Ef.
    + destruct (promote leaves) as [[k d]|] eqn:Ep; [|discriminate]. inversion He; subst.
      cbn [hequiv]. rewrite Ef, shape_eqb_refl, (promote_equiv _ _ _ Ep). reflexivity.
    + destruct xs as [|x xs]; [discriminate|]. destruct (map_opt str_of (x :: xs)) as [ss|] eqn:Es; [|discriminate].
      inversion He; subst. cbn [hequiv]. rewrite Es. apply all2_refl. intros s. apply String.eqb_refl.
  - discriminate.
  - discriminate.
Qed.

(* ---- one dataset per leaf, at the path of its keys, at any depth ------------------------ *)
Definition stored (sk : h5_sk) (e : list string * hval) (lf : list string * tree) : Prop :=
  fst e = fst lf /\ enc_leaf sk (snd lf) = Ok (snd e).

Lemma Forall2_concat {A B} (R : A -> B -> Prop) (xs : list (list A)) (ys : list (list B)) :
  Forall2 (Forall2 R) xs ys -> Forall2 R (concat xs) (concat ys).
Proof. induction 1; cbn [concat]; [constructor|]. apply Forall2_app; assumption. Qed.

Section H5.
Variable sk : h5_sk.
Hypothesis Hrec : h_recurse sk = true.

Lemma body_stored (d : list (string * tree)) (path : list string) :
  Forall (fun kv => forall p f, add_tree sk p (snd kv) = Ok f -> Forall2 (stored sk) f (leaves p (snd kv))) d ->
  forall fs, map_res (fun kv => add_tree sk (path ++ [fst kv]) (snd kv)) d = Ok fs ->
  Forall2 (Forall2 (stored sk)) fs (map (fun kv => leaves (path ++ [fst kv]) (snd kv)) d).
Proof.
  induction 1 as [|kv d Hkv _ IH]; intros fs H; cbn [map_res map] in *.
  - inversion H. constructor.
  - destruct (add_tree sk (path ++ [fst kv]) (snd kv)) as [f|] eqn:E1; [|discriminate].
    destruct (map_res _ d) as [fs'|] eqn:E2; [|discriminate].
    inversion H; subst. constructor; [apply Hkv; exact E1|apply IH; reflexivity].
Qed.

Lemma add_tree_stored : forall t path f, add_tree sk path t = Ok f -> Forall2 (stored sk) f (leaves path t).
Proof.
  induction t as [| b | z | b | s | k z | s k d | f r | xs IH | xs IH | d IH | r] using tree_ind';
    intros path fl H; cbn [add_tree leaves] in *;
    try (destruct (enc_leaf sk _) as [h|] eqn:E; [|discriminate]; inversion H; subst;
         constructor; [split; [reflexivity|exact E]|constructor]).
  rewrite Hrec in H.
  destruct (map_res (fun kv => add_tree sk (path ++ [fst kv]) (snd kv)) d) as [fs|] eqn:E; [|discriminate].
  inversion H; subst. apply Forall2_concat. exact (body_stored d path IH fs E).
Qed.

(* ---- distinct keys give distinct dataset paths ------------------------------------------- *)
Lemma leaves_prefix : forall t path q lf, In (q, lf) (leaves path t) -> exists s, q = path ++ s.
Proof.
  induction t as [| b | z | b | s | k z | s k d | f r | xs IH | xs IH | d IH | r] using tree_ind';
    intros path q lf Hin; cbn [leaves] in Hin;
    try (destruct Hin as [E|[]]; inversion E; subst; exists []; rewrite app_nil_r; reflexivity).
  apply in_concat in Hin. destruct Hin as [l [Hl Hq]]. apply in_map_iff in Hl.
  destruct Hl as [kv [E Hkv]]. subst l. rewrite Forall_forall in IH.
  destruct (IH kv Hkv _ _ _ Hq) as [s Hs]. exists (fst kv :: s). rewrite Hs, <- app_assoc. reflexivity.
Qed.

Lemma NoDup_app_intro {A} (a b : list A) :
  NoDup a -> NoDup b -> (forall x, In x a -> ~ In x b) -> NoDup (a ++ b).
Proof.
  induction a as [|x a IH]; intros Ha Hb Hd; cbn [app]; [exact Hb|].
  inversion Ha; subst. constructor.
  - rewrite in_app_iff. intros [H|H]; [contradiction|]. apply (Hd x); [left; reflexivity|exact H].
  - apply IH; [assumption|assumption|]. intros y Hy. apply Hd. right. exact Hy.
Qed.

Lemma smem_In s l : smem s l = true <-> In s l.
Proof.
  unfold smem. rewrite existsb_exists. split.
  - intros [x [Hin He]]. apply String.eqb_eq in He. subst. exact Hin.
  - intros H. exists s. split; [exact H|apply String.eqb_refl].
Qed.

Lemma body_nodup (d : list (string * tree)) (path : list string) :
  Forall (fun kv => forall p, dict_ok (snd kv) = true -> NoDup (map fst (leaves p (snd kv)))) d ->
  snodup (map fst d) = true -> forallb (fun kv => dict_ok (snd kv)) d = true ->
  NoDup (map fst (concat (map (fun kv => leaves (path ++ [fst kv]) (snd kv)) d))).
Proof.
  induction 1 as [|kv d Hkv Hall IH]; intros Hnd Hok; cbn [map concat]; [constructor|].
  cbn [map snodup forallb] in Hnd, Hok. apply andb_true_iff in Hnd. destruct Hnd as [Hk Hnd].
  apply andb_true_iff in Hok. destruct Hok as [Hok1 Hok].
  rewrite map_app. apply NoDup_app_intro.
  - apply Hkv. exact Hok1.
  - apply IH; assumption.
  - intros q Hq1 Hq2. apply in_map_iff in Hq1. destruct Hq1 as [[q1 l1] [E1 H1]]. cbn in E1. subst q1.
    apply in_map_iff in Hq2. destruct Hq2 as [[q2 l2] [E2 H2]]. cbn in E2. subst q2.
    apply in_concat in H2. destruct H2 as [ls [Hls H2]]. apply in_map_iff in Hls.
    destruct Hls as [kv2 [E Hkv2]]. subst ls.
    destruct (leaves_prefix _ _ _ _ H1) as [s1 E1]. destruct (leaves_prefix _ _ _ _ H2) as [s2 E2].
    rewrite E1 in E2. rewrite <- !app_assoc in E2. apply app_inv_head in E2. cbn [app] in E2.
    injection E2 as Ek _. apply negb_true_iff in Hk.
    assert (Hin : In (fst kv) (map fst d)) by (rewrite Ek; apply in_map; exact Hkv2).
    apply smem_In in Hin. rewrite Hin in Hk. discriminate.
Qed.

Lemma leaves_nodup : forall t path, dict_ok t = true -> NoDup (map fst (leaves path t)).
Proof.
  induction t as [| b | z | b | s | k z | s k d | f r | xs IH | xs IH | d IH | r] using tree_ind';
    intros path Hok; cbn [leaves map]; try (constructor; [intros []|constructor]).
  cbn [dict_ok] in Hok. repeat (apply andb_true_iff in Hok; destruct Hok as [Hok ?]).
  apply body_nodup; assumption.
Qed.

(* every stored leaf is equivalent to the in-memory value *)
Lemma leaves_no_marker : forall t path q lf, no_marker t = true -> In (q, lf) (leaves path t) -> no_marker lf = true.
Proof.
  induction t as [| b | z | b | s | k z | s k d | f r | xs IH | xs IH | d IH | r] using tree_ind';
    intros path q lf Hn Hin; cbn [leaves] in Hin;
    try (destruct Hin as [E|[]]; inversion E; subst; exact Hn).
  apply in_concat in Hin. destruct Hin as [l [Hl Hq]]. apply in_map_iff in Hl.
  destruct Hl as [kv [E Hkv]]. subst l. rewrite Forall_forall in IH.
  cbn [no_marker] in Hn. rewrite forallb_forall in Hn. exact (IH kv Hkv _ _ _ (Hn kv Hkv) Hq).
Qed.
End H5.

Definition faithful (e : list string * hval) (lf : list string * tree) : Prop :=
  fst e = fst lf /\ hequiv (snd lf) (snd e) = true.

Lemma stored_faithful sk (Hm : h_none sk = Some none_marker) f ls :
  Forall2 (stored sk) f ls -> (forall q lf, In (q, lf) ls -> no_marker lf = true) -> Forall2 faithful f ls.
Proof.
  induction 1 as [|e lf f' ls' [E1 E2] _ IH]; intros G; constructor.
  - split; [exact E1|]. apply (enc_leaf_equiv sk _ _ Hm E2). destruct lf as [q t]. apply (G q t). left. reflexivity.
  - apply IH. intros q t Hin. apply (G q t). right. exact Hin.
Qed.

Lemma h5_ok_parts sk : h5_ok sk = true -> h_none sk = Some none_marker /\ h_recurse sk = true.
Proof.
  unfold h5_ok. intros H. apply andb_true_iff in H. destruct H as [H1 H2]. split; [|exact H2].
  destruct (h_none sk) as [s|]; [|discriminate]. apply String.eqb_eq in H1. subst. reflexivity.
Qed.

Lemma enc_h5_as_tree sk d : h_recurse sk = true -> enc_h5 sk d = add_tree sk [] (TDict d).
Proof. intros H. cbn [add_tree]. rewrite H. reflexivity. Qed.

Theorem h5_roundtrip sk (Hok : h5_ok sk = true) d f :
  top_ok d = true -> no_marker (TDict d) = true -> enc_h5 sk d = Ok f ->
  Forall2 faithful f (top_leaves d) /\ NoDup (map fst f).
Proof.
  intros Htop Hnm He. destruct (h5_ok_parts sk Hok) as [Hm Hrec].
  rewrite (enc_h5_as_tree sk d Hrec) in He.
  pose proof (add_tree_stored sk Hrec (TDict d) [] f He) as Hst.
  change (leaves [] (TDict d)) with (top_leaves d) in Hst.
  assert (Hf : Forall2 faithful f (top_leaves d)).
  { apply (stored_faithful sk Hm f (top_leaves d) Hst).
    intros q lf Hin. exact (leaves_no_marker (TDict d) [] q lf Hnm Hin). }
  split; [exact Hf|].
  assert (Hp : map fst f = map fst (top_leaves d)).
  { clear -Hf. induction Hf as [|e lf f' ls [E _] _ IH]; cbn [map]; [reflexivity|]. rewrite E, IH. reflexivity. }
  rewrite Hp. unfold top_ok in Htop. repeat (apply andb_true_iff in Htop; destruct Htop as [Htop ?]).
  unfold top_leaves.
  pose proof (body_nodup d []) as B. cbn [app] in B. apply B; try assumption.
  apply Forall_forall. intros kv _ p Hd. apply leaves_nodup. exact Hd.
Qed.

(* ---- result-shaped dictionaries can always be written ------------------------------------ *)
Lemma kmax_idem k : kmax k k = k.
Proof. destruct k; reflexivity. Qed.
Lemma kmax_bool k : kmax k KBool = k.
Proof. destruct k; reflexivity. Qed.
Lemma convert_same k z : convert k (k, z) = Some z.
Proof. destruct k; reflexivity. Qed.

Lemma same_kind_flat xs k :
  Forall (fun x => num_leaf_kind x = Some k) xs ->
  exists zs, map_opt flat xs = Some (map (fun z => ([], [(k, z)])) zs) /\ length zs = length xs.
Proof.
  induction 1 as [|x xs Hx _ [zs [IH Hl]]].
  - exists []. split; reflexivity.
  - assert (E : exists z, flat x = Some ([], [(k, z)])).
    { destruct x; cbn in Hx; try discriminate.
      - inversion Hx; subst. eexists; reflexivity.
      - destruct (fits_int64 z) eqn:F; [|discriminate]. inversion Hx; subst. cbn [flat]. rewrite F. eexists; reflexivity.
      - inversion Hx; subst. eexists; reflexivity.
      - inversion Hx; subst. eexists; reflexivity. }
    destruct E as [z E]. exists (z :: zs). cbn [map_opt map length]. rewrite E, IH, Hl. split; reflexivity.
Qed.

Lemma promote_same k zs : zs <> [] -> promote (map (fun z => (k, z)) zs) = Some (k, zs).
Proof.
  intros Hne. unfold promote. destruct zs as [|z0 zs]; [contradiction|]. cbn [map].
  assert (K : forall l, fold_right (fun x m => kmax (fst x) m) KBool (map (fun z => (k, z)) (z0 :: l)) = k).
  { induction l as [|z l IH]; cbn [map fold_right fst] in *; [apply kmax_bool|].
    cbn [map fold_right fst] in IH. destruct k; cbn in *; try reflexivity;
      destruct (fold_right (fun x m => kmax (fst x) m) KBool (map (fun z1 => (_, z1)) l)); cbn in *; try reflexivity; try discriminate. }
  change ((k, z0) :: map (fun z => (k, z)) zs) with (map (fun z => (k, z)) (z0 :: zs)).
  rewrite K.
  assert (M : forall l, map_opt (convert k) (map (fun z => (k, z)) l) = Some l).
  { induction l as [|z l IH]; cbn [map map_opt]; [reflexivity|]. rewrite convert_same, IH. reflexivity. }
  rewrite M. reflexivity.
Qed.

Lemma same_kind_writes sk xs (list_like : tree) :
  (list_like = TList xs \/ list_like = TTuple xs) -> same_kind_list xs = true ->
  exists h, enc_leaf sk list_like = Ok h.
Proof.
  intros Hl Hs.
  assert (F : exists shape leaves k d, flat list_like = Some (shape, leaves) /\ promote leaves = Some (k, d)).
  { unfold same_kind_list in Hs. destruct xs as [|x xs'] eqn:Ex.
    - exists [0%nat], [], KFloat, []. destruct Hl; subst; split; reflexivity.
    - rewrite <- Ex in *. destruct (num_leaf_kind x) as [k|] eqn:Ek; [|discriminate].
      assert (Hall : Forall (fun y => num_leaf_kind y = Some k) xs).
      { apply Forall_forall. intros y Hy. rewrite forallb_forall in Hs. specialize (Hs y Hy).
        destruct (num_leaf_kind y) as [k'|]; [|discriminate]. destruct k, k'; cbn in Hs; try discriminate; reflexivity. }
      destruct (same_kind_flat xs k Hall) as [zs [Hm Hlen]].
      assert (Hz : zs <> []) by (intros E; subst zs xs; discriminate).
      destruct zs as [|z0 zs']; [contradiction|].
      exists [length xs], (map (fun z => (k, z)) (z0 :: zs')), k, (z0 :: zs').
      split; [|apply promote_same; discriminate].
      assert (C : forall l : list Z, concat (map snd (map (fun z => (@nil nat, [(k, z)])) l)) = map (fun z => (k, z)) l).
      { induction l as [|z l IH]; cbn [map concat snd app]; [reflexivity|]. rewrite IH. reflexivity. }
      assert (S : forall l : list Z, forallb (fun p : list nat * list (akind * Z) => shape_eqb (fst p) [])
                                    (map (fun z => (@nil nat, [(k, z)])) l) = true).
      { induction l as [|z l IH]; cbn [map forallb fst]; [reflexivity|]. rewrite IH. reflexivity. }
      destruct Hl; subst list_like; cbn [flat]; rewrite Hm; cbn [map]; rewrite S, C; reflexivity. }
  destruct F as (shape & leaves & k & d & F1 & F2).
  destruct Hl; subst list_like; cbn [enc_leaf]; rewrite F1, F2; eexists; reflexivity.
Qed.

Lemma result_leaf_writes sk t : h_none sk = Some none_marker ->
  result_shaped t = true -> (forall d, t <> TDict d) -> exists h, enc_leaf sk t = Ok h.
Proof.
  intros Hm Hr Hnd. destruct t as [| b | z | b | s | k z | shape k data | f rows | xs | xs | d | r];
    cbn [result_shaped scalar_leaf] in Hr; cbn [enc_leaf]; try (eexists; reflexivity); try discriminate.
  - rewrite Hm. eexists; reflexivity.
  - rewrite Hr. eexists; reflexivity.
  - destruct shape as [|n shape]; [destruct data as [|x [|y data]]|]; try rewrite Hr; eexists; reflexivity.
  - apply (same_kind_writes sk xs (TList xs)); [left; reflexivity|exact Hr].
  - apply (same_kind_writes sk xs (TTuple xs)); [right; reflexivity|exact Hr].
  - exfalso. apply (Hnd d). reflexivity.
Qed.

Theorem result_shaped_writes sk (Hok : h5_ok sk = true) :
  forall t path, result_shaped t = true -> exists f, add_tree sk path t = Ok f.
Proof.
  destruct (h5_ok_parts sk Hok) as [Hm Hrec].
  induction t as [| b | z | b | s | k z | s k d | f r | xs IH | xs IH | d IH | r] using tree_ind';
    intros path Hr;
    try (cbn [add_tree];
         match goal with |- context [enc_leaf sk ?t] =>
           destruct (result_leaf_writes sk t Hm Hr ltac:(intros; discriminate)) as [h E]; rewrite E; eexists; reflexivity end).
  cbn [add_tree]. rewrite Hrec. cbn [result_shaped] in Hr. rewrite forallb_forall in Hr.
  assert (E : exists fs, map_res (fun kv => add_tree sk (path ++ [fst kv]) (snd kv)) d = Ok fs).
  { apply map_res_total. rewrite Forall_forall in *. intros kv Hkv. apply IH; [exact Hkv|apply Hr; exact Hkv]. }
  destruct E as [fs E]. rewrite E. eexists; reflexivity.
Qed.

Corollary result_dict_writes sk (Hok : h5_ok sk = true) d :
  result_shaped (TDict d) = true -> exists f, enc_h5 sk d = Ok f.
Proof.
  intros H. destruct (h5_ok_parts sk Hok) as [_ Hrec]. rewrite (enc_h5_as_tree sk d Hrec).
  exact (result_shaped_writes sk Hok (TDict d) [] H).
Qed.

Lemma h5_today_ok : h5_ok h5_today = true.
Proof. vm_compute. reflexivity. Qed.

(* ====================================================================== *)
(* 3. save_results                                                         *)
(* ====================================================================== *)
Lemma nest_1d k (data : list Z) : nest [length data] k data = JList (map (jnum k) data).
Proof.
  cbn [nest prod fold_right]. f_equal.
  assert (G : forall (pre : list Z), map (fun i => nest [] k (firstn 1 (skipn (i * 1) (pre ++ data))))
                                   (seq (length pre) (length data)) = map (jnum k) data).
  { induction data as [|x data IH]; intros pre; cbn [length seq map]; [reflexivity|].
    f_equal.
    - rewrite Nat.mul_1_r, skipn_app, skipn_all, Nat.sub_diag. cbn. reflexivity.
    - specialize (IH (pre ++ [x])). rewrite <- app_assoc in IH. cbn [app] in IH.
      rewrite app_length in IH. cbn [length] in IH. rewrite Nat.add_1_r in IH. exact IH. }
  exact (G []).
Qed.

Theorem posterior_json f rows :
  jview (struct_to_dict f rows)
  = JDict (map (fun p => (fst (snd p), JList (map (jnum (snd (snd p))) (column (fst p) rows))))
               (combine (seq 0 (length f)) f)).
Proof.
  unfold struct_to_dict. cbn [jview]. f_equal. rewrite map_map. apply map_ext. intros [j [n k]].
  cbn [fst snd jview]. f_equal.
  assert (E : length rows = length (column j rows)) by (unfold column; rewrite map_length; reflexivity).
  rewrite E. apply nest_1d.
Qed.

Theorem extension_spec (stem : string) :
  choose_writer stem "json" None = Ok (WJson, (stem ++ ".json")%string)
  /\ choose_writer stem "hdf5" None = Ok (WHdf5, (stem ++ ".hdf5")%string)
  /\ choose_writer stem "h5" None = Ok (WHdf5, (stem ++ ".h5")%string)
  /\ choose_writer stem "" (Some "json"%string) = Ok (WJson, (stem ++ ".json")%string)
  /\ choose_writer stem "" (Some "hdf5"%string) = Ok (WHdf5, (stem ++ ".hdf5")%string)
  /\ choose_writer stem "" (Some "h5"%string) = Ok (WHdf5, (stem ++ ".h5")%string)
  /\ choose_writer stem "" None = Err
  /\ (forall e, e <> "json"%string -> e <> "hdf5"%string -> e <> "h5"%string -> e <> ""%string ->
        choose_writer stem e None = Err /\ choose_writer stem "" (Some e) = Err).
Proof.
  repeat split; try reflexivity.
  - unfold choose_writer. apply String.eqb_neq in H, H0, H1, H2. rewrite H2, H, H0, H1. reflexivity.
  - unfold choose_writer. apply String.eqb_neq in H, H0, H1. cbn [String.eqb]. rewrite H, H0, H1. reflexivity.
Qed.

(* what the formats do NOT keep (all reproduced on the real code by the correspondence) *)
Lemma limits :
  enc_json ladder_today (TNp KBool 1) = Ok (JStr "True")                        (* np.bool_ -> "True" *)
  /\ enc_h5 h5_today [("a"%string, TDict [])] = Ok []                            (* an empty dict leaves no trace *)
  /\ enc_h5 h5_today [("a"%string, TStr "__none__")] = enc_h5 h5_today [("a"%string, TNone)]
  /\ enc_h5 h5_today [("a"%string, TList [TNone; TFloat 0])] = Err               (* None inside a list *)
  /\ enc_h5 h5_today [("a"%string, TList [TList [TInt 1; TInt 2]; TList [TInt 3]])] = Err   (* ragged *)
  /\ enc_h5 h5_today [("a"%string, TOpaque "obj")] = Err
  /\ enc_h5 h5_today [("a"%string, TList [TInt 1; TFloat 4612811918334230528; TBool true])]
     = Ok [(["a"%string], HArr [3%nat] KFloat [4607182418800017408; 4612811918334230528; 4607182418800017408])].
Proof. vm_compute. repeat split. Qed.

(* ====================================================================== *)
(* 4. "/"-joined dataset names are distinct when keys contain no "/"       *)
(* ====================================================================== *)
Local Open Scope string_scope.

Lemma has_slash_app a b : has_slash (a ++ "/" ++ b) = true.
Proof.
  change ("/" ++ b) with (String "/" b).
  induction a as [|c a IH]; cbn [append has_slash]; [rewrite Ascii.eqb_refl; reflexivity|].
  rewrite IH. apply orb_true_r.
Qed.

Lemma split_first a : forall b x y, has_slash a = false -> has_slash b = false ->
  a ++ "/" ++ x = b ++ "/" ++ y -> a = b /\ x = y.
Proof.
  induction a as [|c a IH]; intros b x y Ha Hb E.
  - destruct b as [|c' b]; cbn [append] in E.
    + inversion E. split; reflexivity.
    + inversion E; subst. cbn [has_slash] in Hb. rewrite Ascii.eqb_refl in Hb. discriminate.
  - cbn [has_slash] in Ha. apply orb_false_iff in Ha. destruct Ha as [Hc Ha].
    destruct b as [|c' b]; cbn [append] in E.
    + inversion E; subst. rewrite Ascii.eqb_refl in Hc. discriminate.
    + inversion E; subst. cbn [has_slash] in Hb. apply orb_false_iff in Hb. destruct Hb as [_ Hb].
      destruct (IH b x y Ha Hb H1) as [E1 E2]. subst. split; reflexivity.
Qed.

Lemma key_ok_parts k : key_ok k = true -> k <> "" /\ has_slash k = false.
Proof.
  unfold key_ok. intros H. apply andb_true_iff in H. destruct H as [H1 H2].
  apply negb_true_iff in H1, H2. split; [|exact H2]. apply String.eqb_neq. exact H1.
Qed.

Lemma join_cons2 a b r : join (a :: b :: r) = a ++ "/" ++ join (b :: r).
Proof. reflexivity. Qed.

Lemma app_slash_ne_empty a x : a ++ "/" ++ x <> "".
Proof. destruct a; cbn; discriminate. Qed.

Lemma join_inj : forall p q, forallb key_ok p = true -> forallb key_ok q = true -> join p = join q -> p = q.
Proof.
  induction p as [|a p IH]; intros q Hp Hq E.
  - destruct q as [|b [|b2 q]]; [reflexivity| |].
    + cbn in E, Hq. rewrite andb_true_r in Hq. destruct (key_ok_parts b Hq) as [Hne _]. subst. contradiction.
    + rewrite join_cons2 in E. cbn [join] in E. symmetry in E. apply app_slash_ne_empty in E. contradiction.
  - cbn [forallb] in Hp. apply andb_true_iff in Hp. destruct Hp as [Ha Hp].
    destruct (key_ok_parts a Ha) as [Hane Has].
    destruct p as [|a2 p].
    + destruct q as [|b [|b2 q]].
      * cbn in E. contradiction.
      * cbn in E. subst. reflexivity.
      * rewrite join_cons2 in E. change (join [a]) with a in E. subst a. rewrite has_slash_app in Has. discriminate.
    + destruct q as [|b [|b2 q]].
      * rewrite join_cons2 in E. change (join []) with EmptyString in E. apply app_slash_ne_empty in E. contradiction.
      * cbn in Hq. rewrite andb_true_r in Hq. destruct (key_ok_parts b Hq) as [_ Hbs].
        rewrite join_cons2 in E. change (join [b]) with b in E. subst b. rewrite has_slash_app in Hbs. discriminate.
      * cbn [forallb] in Hq. apply andb_true_iff in Hq. destruct Hq as [Hb Hq].
        destruct (key_ok_parts b Hb) as [_ Hbs].
        rewrite !join_cons2 in E. destruct (split_first a b _ _ Has Hbs E) as [E1 E2]. subst b.
        f_equal. apply IH; assumption.
Qed.

Local Close Scope string_scope.

Lemma leaves_keys_ok : forall t path q lf, forallb key_ok path = true -> dict_ok t = true ->
  In (q, lf) (leaves path t) -> forallb key_ok q = true.
Proof.
  induction t as [| b | z | b | s | k z | s k d | f r | xs IH | xs IH | d IH | r] using tree_ind';
    intros path q lf Hp Hok Hin; cbn [leaves] in Hin;
    try (destruct Hin as [E|[]]; inversion E; subst; exact Hp).
  apply in_concat in Hin. destruct Hin as [l [Hl Hq]]. apply in_map_iff in Hl.
  destruct Hl as [kv [E Hkv]]. subst l. rewrite Forall_forall in IH.
  cbn [dict_ok] in Hok. apply andb_true_iff in Hok. destruct Hok as [Hok Hd].
  apply andb_true_iff in Hok. destruct Hok as [Hok _]. apply andb_true_iff in Hok. destruct Hok as [_ Hk].
  apply (IH kv Hkv (path ++ [fst kv]) q lf); [| |exact Hq].
  - rewrite forallb_app, Hp. cbn [forallb andb]. rewrite andb_true_r.
    rewrite forallb_forall in Hk. apply Hk. apply in_map. exact Hkv.
  - rewrite forallb_forall in Hd. exact (Hd kv Hkv).
Qed.

Lemma NoDup_map_inj_on {A B} (f : A -> B) (l : list A) :
  NoDup l -> (forall x y, In x l -> In y l -> f x = f y -> x = y) -> NoDup (map f l).
Proof.
  induction 1 as [|x l Hx _ IH]; intros Hinj; cbn [map]; constructor.
  - intros Hin. apply in_map_iff in Hin. destruct Hin as [y [E Hy]].
    assert (y = x) by (apply Hinj; [right; exact Hy|left; reflexivity|exact E]). subst. contradiction.
  - apply IH. intros a b Ha Hb. apply Hinj; right; assumption.
Qed.

Theorem h5_names_distinct sk (Hok : h5_ok sk = true) d f :
  top_ok d = true -> no_marker (TDict d) = true -> enc_h5 sk d = Ok f ->
  NoDup (map (fun e => join (fst e)) f).
Proof.
  intros Htop Hnm He. destruct (h5_roundtrip sk Hok d f Htop Hnm He) as [Hf Hnd].
  rewrite <- (map_map fst join). apply NoDup_map_inj_on; [exact Hnd|].
  assert (Hp : map fst f = map fst (top_leaves d)).
  { clear -Hf. induction Hf as [|e lf f' ls [E _] _ IH]; cbn [map]; [reflexivity|]. rewrite E, IH. reflexivity. }
  assert (K : forall q, In q (map fst f) -> forallb key_ok q = true).
  { intros q Hq. rewrite Hp in Hq. apply in_map_iff in Hq. destruct Hq as [[q' lf] [E Hin]]. cbn in E. subst q'.
    unfold top_leaves in Hin. apply in_concat in Hin. destruct Hin as [l [Hl Hq]]. apply in_map_iff in Hl.
    destruct Hl as [kv [E Hkv]]. subst l.
    unfold top_ok in Htop. apply andb_true_iff in Htop. destruct Htop as [Htop Hd].
    apply andb_true_iff in Htop. destruct Htop as [Hk _].
    apply (leaves_keys_ok (snd kv) [fst kv] q lf); [| |exact Hq].
    - cbn [forallb]. rewrite andb_true_r. rewrite forallb_forall in Hk. apply Hk. apply in_map. exact Hkv.
    - rewrite forallb_forall in Hd. exact (Hd kv Hkv). }
  intros x y Hx Hy E. apply join_inj; auto.
Qed.

(* ====================================================================== *)
(* 5. the extension is taken from the last path component only              *)
(* ====================================================================== *)
Local Open Scope string_scope.

Lemma ext_scan_app a : forall st b, ext_scan st (a ++ b) = ext_scan (ext_scan st a) b.
Proof. induction a as [|c a IH]; intros st b; cbn [append ext_scan]; [reflexivity|apply IH]. Qed.

Lemma append_snoc e c r : (e ++ String c "") ++ r = e ++ String c r.
Proof. induction e as [|d e IH]; cbn [append]; [reflexivity|]. rewrite IH. reflexivity. Qed.

Lemma app_assoc_s a b c : (a ++ b) ++ c = a ++ b ++ c.
Proof. induction a as [|x a IH]; cbn [append]; [reflexivity|]. rewrite IH. reflexivity. Qed.

Lemma append_nil_r s : s ++ "" = s.
Proof. induction s as [|c s IH]; cbn [append]; [reflexivity|]. rewrite IH. reflexivity. Qed.

Lemma ext_scan_plain s : forall b o, has_slash s = false -> has_dot s = false ->
  ext_scan (b, o) s
  = (if String.eqb s "" then b else true, match o with Some e => Some (e ++ s) | None => None end).
Proof.
  induction s as [|c s IH]; intros b o Hs Hd.
  - cbn [ext_scan String.eqb]. destruct o; [rewrite append_nil_r|]; reflexivity.
  - cbn [has_slash] in Hs. cbn [has_dot] in Hd. apply orb_false_iff in Hs. apply orb_false_iff in Hd.
    destruct Hs as [Hc1 Hs]. destruct Hd as [Hc2 Hd].
    cbn [ext_scan]. unfold ext_step. rewrite Hc1, Hc2. cbn [fst snd].
    rewrite (IH _ _ Hs Hd). cbn [String.eqb].
    destruct (String.eqb s ""); destruct o; rewrite ?append_snoc; reflexivity.
Qed.

Lemma plain_parts s : plain s = true -> s <> "" /\ has_slash s = false /\ has_dot s = false.
Proof.
  unfold plain. intros H. apply andb_true_iff in H. destruct H as [H H3]. apply andb_true_iff in H.
  destruct H as [H1 H2]. apply negb_true_iff in H1, H2, H3. repeat split; try assumption.
  apply String.eqb_neq. exact H1.
Qed.

Lemma ext_step_dot b o : ext_step (b, o) "."%char = (b, if b then Some "" else o).
Proof. reflexivity. Qed.
Lemma ext_step_slash st : ext_step st "/"%char = (false, None).
Proof. reflexivity. Qed.

Lemma scan_component st dir rest : ext_scan st (dir ++ "/" ++ rest) = ext_scan (false, None) rest.
Proof. rewrite ext_scan_app. cbn [append ext_scan]. rewrite ext_step_slash. reflexivity. Qed.

Lemma scan_stem stem : plain stem = true -> ext_scan (false, None) stem = (true, None).
Proof.
  intros H. destruct (plain_parts stem H) as (Hne & Hs & Hd). rewrite (ext_scan_plain stem _ _ Hs Hd).
  apply String.eqb_neq in Hne. rewrite Hne. reflexivity.
Qed.

Lemma scan_stem_ext stem e : plain stem = true -> plain e = true ->
  ext_scan (false, None) (stem ++ "." ++ e) = (true, Some e).
Proof.
  intros H He. rewrite ext_scan_app, (scan_stem stem H). cbn [append ext_scan]. rewrite ext_step_dot.
  destruct (plain_parts e He) as (Hne & Hs & Hd). rewrite (ext_scan_plain e _ _ Hs Hd).
  apply String.eqb_neq in Hne. rewrite Hne. reflexivity.
Qed.

(* whatever the directory part looks like - dots included *)
Theorem path_ext_spec (dir stem e : string) : plain stem = true -> plain e = true ->
  path_ext (dir ++ "/" ++ stem ++ "." ++ e) = e /\ path_ext (dir ++ "/" ++ stem) = ""
  /\ path_ext (stem ++ "." ++ e) = e /\ path_ext stem = "".
Proof.
  intros H He. unfold path_ext.
  rewrite !scan_component, (scan_stem_ext stem e H He), (scan_stem stem H). repeat split; reflexivity.
Qed.

Definition writer_of (e : string) : writer := if String.eqb e "json" then WJson else WHdf5.

Theorem extension_paths (dir stem e : string) : plain stem = true ->
  e = "json" \/ e = "hdf5" \/ e = "h5" ->
  let target := dir ++ "/" ++ stem in
  choose_writer_p target (Some e) = Ok (writer_of e, target ++ "." ++ e)
  /\ choose_writer_p (target ++ "." ++ e) None = Ok (writer_of e, target ++ "." ++ e)
  /\ choose_writer_p (target ++ "." ++ e) (Some e) = Ok (writer_of e, target ++ "." ++ e)
  /\ choose_writer_p target None = Err.
Proof.
  intros H He target.
  assert (Pe : plain e = true) by (destruct He as [E|[E|E]]; subst e; reflexivity).
  destruct (path_ext_spec dir stem e H Pe) as (A1 & A2 & _).
  assert (E1 : target ++ "." ++ e = dir ++ "/" ++ stem ++ "." ++ e).
  { unfold target. rewrite !app_assoc_s. reflexivity. }
  unfold choose_writer_p. rewrite E1, A1. fold target in A2. rewrite A2. rewrite <- E1.
  destruct He as [E|[E|E]]; subst e; cbn; repeat split; reflexivity.
Qed.
Local Close Scope string_scope.
