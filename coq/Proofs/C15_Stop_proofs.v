(* C15 - lemmas about the stopping model (Model/C15_Stop.v). *)
From Coq Require Import String.
From Coq Require Import List ZArith Bool Lia ZifyBool Arith.
Import ListNotations.
From NessaiV Require Import Model.C15_Stop.
Local Open Scope Z_scope.

(* ================================================================================================
   1. the generic loop stops at the least k at which its stopping test holds
   ================================================================================================ *)
Section LoopFacts.
Variables (St O : Type) (step : St -> O -> St) (pre post : St -> bool).

Lemma after_0 st s : after step st s 0 = st.
Proof. destruct s; reflexivity. Qed.

Lemma stops_0 st s : stops_at step pre post st s 0 = pre st.
Proof. unfold stops_at. rewrite after_0. cbn. now rewrite orb_false_r. Qed.

Lemma stops_S st o r k :
  post (step st o) = false ->
  stops_at step pre post st (o :: r) (S k) = stops_at step pre post (step st o) r k.
Proof.
  intros Hp. unfold stops_at. cbn [after]. destruct k as [|k].
  - rewrite after_0. rewrite Hp. cbn. reflexivity.
  - reflexivity.
Qed.

Lemma loop_spec : forall stream st s n oof,
  loop step pre post st stream = (s, n, oof) ->
  (n <= length stream)%nat /\ s = after step st stream n /\
  (forall j, (j < n)%nat -> stops_at step pre post st stream j = false) /\
  (oof = false -> stops_at step pre post st stream n = true) /\
  (oof = true -> n = length stream /\ stops_at step pre post st stream n = false).
Proof.
  induction stream as [|o r IH]; intros st s n oof H; cbn [loop] in H.
  - destruct (pre st) eqn:Ep; injection H as <- <- <-; cbn [length];
      (split; [lia|]); (split; [reflexivity|]); (split; [intros j Hj; lia|]);
      rewrite stops_0, Ep; split; intros; try discriminate; auto.
  - destruct (pre st) eqn:Ep.
    + injection H as <- <- <-. cbn [length]. split; [lia|]. split; [reflexivity|].
      split; [intros j Hj; lia|]. rewrite stops_0, Ep. split; intros; try discriminate; auto.
    + destruct (post (step st o)) eqn:Eq.
      * injection H as <- <- <-. cbn [length]. split; [lia|]. split; [cbn; now rewrite after_0|].
        split.
        { intros j Hj. assert (j = 0%nat) by lia. subst j. now rewrite stops_0. }
        split; [|discriminate]. intros _. unfold stops_at. cbn [after]. rewrite after_0, Eq. cbn.
        apply orb_true_r.
      * destruct (loop step pre post (step st o) r) as [[s' n'] oof'] eqn:El.
        injection H as <- <- <-. destruct (IH _ _ _ _ El) as (I1 & I2 & I3 & I4 & I5).
        cbn [length]. split; [lia|]. split; [exact I2|]. split.
        { intros [|j] Hj; [now rewrite stops_0|]. rewrite (stops_S _ _ _ _ Eq). apply I3. lia. }
        split.
        { intros Ho. rewrite (stops_S _ _ _ _ Eq). now apply I4. }
        { intros Ho. destruct (I5 Ho) as [J1 J2]. split; [lia|]. now rewrite (stops_S _ _ _ _ Eq). }
Qed.

(* the stopping index is unique: it is THE least one *)
Lemma loop_least stream st s n oof k :
  loop step pre post st stream = (s, n, oof) ->
  (k <= length stream)%nat -> stops_at step pre post st stream k = true -> (n <= k)%nat /\ oof = false.
Proof.
  intros H Hk Hs. destruct (loop_spec _ _ _ _ _ H) as (I1 & _ & I3 & _ & I5).
  split.
  - destruct (le_lt_dec n k) as [L|L]; [exact L|]. rewrite (I3 _ L) in Hs. discriminate.
  - destruct oof; [|reflexivity]. destruct (I5 eq_refl) as [J1 J2].
    destruct (le_lt_dec n k) as [L|L].
    + assert (k = n) by lia. subst k. rewrite J2 in Hs. discriminate.
    + rewrite (I3 _ L) in Hs. discriminate.
Qed.
End LoopFacts.

(* ================================================================================================
   2. predicates on the regenerated tests (re-proved on every run for the functions the translator
      produces from /repo; proved once here for the hand-written skeletons)
   ================================================================================================ *)
Definition P_spre (f : test) : Prop := forall v, f v = (v_cond v <=? v_tol v).
Definition P_post (f : test) : Prop := forall v, f v = xle (v_cap v) (Some (v_it v)).
Definition P_entry (f : test) : Prop := forall v, f v = v_fin v.
(* at the place where it is evaluated the run is not finalised (the entry test returned otherwise) *)
Definition P_sfin (f : test) : Prop := forall v, v_fin v = false -> f v = (v_cond v <=? v_tol v).
Definition P_sinit (f : test) : Prop := forall v, f v = (v_tol v <? v_cond v).
Definition P_ipre (f : test) : Prop := forall v, f v = v_reached v && (v_min v <=? v_it v).
Definition P_reached (g : bool -> list Z -> list Z -> bool) : Prop := forall a c t, g a c t = reached a c t.

Definition P_std (sk : sskel) : Prop :=
  P_spre (k_spre sk) /\ P_post (k_spost sk) /\ P_entry (k_sentry sk) /\ P_sfin (k_sfin sk) /\
  P_sinit (k_sinit sk) /\ fin_ok (k_sfin_effs sk) = true.
Definition P_ins (sk : iskel) : Prop :=
  P_ipre (k_ipre sk) /\ P_post (k_ipost sk) /\ P_entry (k_ientry sk) /\ P_reached (k_reached sk) /\
  k_ifin_always sk = true.

(* tactic used by the generated today-lemmas *)
Ltac test_tac :=
  let v := fresh "v" in
  intros v; destruct v as [c t r f i m cap]; cbn; try (intros; subst);
  destruct cap; cbn; try destruct r; try destruct f; cbn; try reflexivity; try lia.

Lemma std_sk_ok : P_std std_sk.
Proof.
  unfold P_std, std_sk, P_spre, P_post, P_entry, P_sfin, P_sinit; cbn.
  repeat split; try test_tac.
Qed.
Lemma ins_sk_ok : P_ins ins_sk.
Proof.
  unfold P_ins, ins_sk, P_ipre, P_post, P_entry, P_reached; cbn. repeat split; try test_tac.
Qed.

(* reached_tolerance regenerated as  existsb/forallb id (map <test on a pair> (combine crit tol)) *)
Ltac reached_tac :=
  let a := fresh "a" in let c := fresh "c" in let t := fresh "t" in
  intros a c t; unfold reached, le_pairs; destruct a; cbn;
  try reflexivity;
  (f_equal; apply map_ext; intros [x y]; cbn; lia).

(* ================================================================================================
   3. standard sampler: first stop
   ================================================================================================ *)
Definition cond_at (c0 : Z) (stream : list (Z * Z)) (k : nat) : Z :=
  match k with O => c0 | S j => fst (nth j stream (0, 0)) end.

Lemma s_body_cond st o : s_cond (s_body st o) = fst o.
Proof. unfold s_body. destruct (s_live st) as [[|w l]|]; reflexivity. Qed.
Lemma s_body_it st o : s_it (s_body st o) = s_it st + 1.
Proof. unfold s_body. destruct (s_live st) as [[|w l]|]; reflexivity. Qed.
Lemma s_body_fin st o : s_fin (s_body st o) = s_fin st.
Proof. unfold s_body. destruct (s_live st) as [[|w l]|]; reflexivity. Qed.

Lemma cond_at_S c0 o r k : cond_at c0 (o :: r) (S k) = cond_at (fst o) r k.
Proof. destruct k; reflexivity. Qed.

Lemma s_after_facts : forall k stream st, (k <= length stream)%nat ->
  s_cond (after s_body st stream k) = cond_at (s_cond st) stream k /\
  s_it (after s_body st stream k) = s_it st + Z.of_nat k /\
  s_fin (after s_body st stream k) = s_fin st.
Proof.
  induction k as [|k IH]; intros stream st Hk.
  - rewrite after_0. cbn. repeat split; lia.
  - destruct stream as [|o r]; [cbn in Hk; lia|]. cbn [after]. cbn [length] in Hk.
    destruct (IH r (s_body st o)) as (I1 & I2 & I3); [lia|].
    rewrite I1, I2, I3, s_body_cond, s_body_it, s_body_fin, cond_at_S. repeat split; lia.
Qed.

Definition sloop (sk : sskel) (cfg : scfg) :=
  loop s_body (fun s => k_spre sk (svars cfg s)) (fun s => k_spost sk (svars cfg s)).

Lemma std_first_stop sk cfg st stream s n oof :
  P_spre (k_spre sk) -> P_post (k_spost sk) ->
  sloop sk cfg st stream = (s, n, oof) ->
  (n <= length stream)%nat /\
  s_cond s = cond_at (s_cond st) stream n /\ s_it s = s_it st + Z.of_nat n /\
  (forall j, (j < n)%nat ->
     sc_tol cfg < cond_at (s_cond st) stream j /\
     ((1 <= j)%nat -> xle (sc_cap cfg) (Some (s_it st + Z.of_nat j)) = false)) /\
  (oof = false ->
     cond_at (s_cond st) stream n <= sc_tol cfg \/
     ((1 <= n)%nat /\ xle (sc_cap cfg) (Some (s_it st + Z.of_nat n)) = true)) /\
  (oof = true -> n = length stream /\ sc_tol cfg < cond_at (s_cond st) stream n).
Proof.
  intros Hpre Hpost H. unfold sloop in H.
  destruct (loop_spec _ _ _ _ _ _ _ _ _ _ H) as (I1 & I2 & I3 & I4 & I5).
  assert (F : forall k, (k <= length stream)%nat ->
     stops_at s_body (fun s => k_spre sk (svars cfg s)) (fun s => k_spost sk (svars cfg s)) st stream k
     = (cond_at (s_cond st) stream k <=? sc_tol cfg)
       || ((1 <=? k)%nat && xle (sc_cap cfg) (Some (s_it st + Z.of_nat k)))).
  { intros k Hk. unfold stops_at. rewrite Hpre, Hpost. cbn [svars v_cond v_tol v_cap v_it].
    destruct (s_after_facts k stream st Hk) as (A1 & A2 & _). now rewrite A1, A2. }
  destruct (s_after_facts n stream st I1) as (A1 & A2 & _).
  split; [exact I1|]. split; [now rewrite I2|]. split; [now rewrite I2|]. split.
  - intros j Hj. specialize (I3 j Hj). rewrite F in I3 by lia.
    apply orb_false_elim in I3. destruct I3 as [J1 J2]. split; [lia|].
    intros H1. destruct (1 <=? j)%nat eqn:E; [|apply Nat.leb_gt in E; lia]. exact J2.
  - split.
    + intros Ho. specialize (I4 Ho). rewrite F in I4 by lia. apply orb_prop in I4.
      destruct I4 as [J|J]; [left; lia|right]. apply andb_prop in J. destruct J as [J1 J2].
      apply Nat.leb_le in J1. split; [exact J1|exact J2].
    + intros Ho. destruct (I5 Ho) as [J1 J2]. split; [exact J1|]. rewrite F in J2 by lia.
      apply orb_false_elim in J2. lia.
Qed.

(* ================================================================================================
   4. finalise
   ================================================================================================ *)
Lemma beff_eqb_eq a b : beff_eqb a b = true -> a = b.
Proof. destruct a, b; cbn; congruence. Qed.
Lemma blist_eqb_eq : forall a b, blist_eqb a b = true -> a = b.
Proof.
  induction a as [|x a IH]; intros [|y b] H; cbn in H; try discriminate; [reflexivity|].
  apply andb_prop in H. destruct H as [H1 H2]. f_equal; [now apply beff_eqb_eq|now apply IH].
Qed.
Lemma feff_eqb_eq a b : feff_eqb a b = true -> a = b.
Proof. destruct a, b; cbn; try congruence. intros H. f_equal. now apply blist_eqb_eq. Qed.
Lemma flist_eqb_eq : forall a b, flist_eqb a b = true -> a = b.
Proof.
  induction a as [|x a IH]; intros [|y b] H; cbn in H; try discriminate; [reflexivity|].
  apply andb_prop in H. destruct H as [H1 H2]. f_equal; [now apply feff_eqb_eq|now apply IH].
Qed.

Lemma app_body_strip body : forall ns p, app_body (strip_b body) ns p = app_body body ns p.
Proof.
  unfold app_body. induction body as [|b body IH]; intros ns p; [reflexivity|].
  destruct b; cbn; apply IH.
Qed.
Lemma fold_app_body_strip body : forall l ns,
  fold_left (app_body (strip_b body)) l ns = fold_left (app_body body) l ns.
Proof. induction l as [|p l IH]; intros ns; [reflexivity|]. cbn. rewrite app_body_strip. apply IH. Qed.

Lemma finalise_strip : forall effs st, finalise (strip_f effs) st = finalise effs st.
Proof.
  unfold finalise. induction effs as [|e effs IH]; intros st; [reflexivity|].
  destruct e; cbn [strip_f flat_map app fold_left]; try apply IH.
  unfold strip_f in IH. rewrite IH. f_equal. cbn [do_feff]. destruct (s_live st); [|reflexivity].
  now rewrite fold_app_body_strip.
Qed.

Lemma fold_append_one : forall (l ns : list Z), fold_left (app_body [BAppendNS]) l ns = ns ++ l.
Proof.
  induction l as [|p l IH]; intros ns; cbn; [now rewrite app_nil_r|].
  rewrite IH. now rewrite <- app_assoc.
Qed.

Definition finalised_state (st : sst) (l : list Z) : sst :=
  {| s_cond := s_cond st; s_it := s_it st; s_fin := true; s_live := None; s_ns := s_ns st ++ l; s_err := s_err st |}.

Lemma fin_ok_cases effs : fin_ok effs = true -> In (strip_f effs) fin_orders.
Proof.
  unfold fin_ok. intros H. apply existsb_exists in H. destruct H as [o [Hin He]].
  apply flist_eqb_eq in He. now rewrite He.
Qed.

(* every live point is appended exactly once, in order; the live set is cleared; the flag is set *)
Lemma fin_ok_sound effs st l :
  fin_ok effs = true -> s_live st = Some l -> finalise effs st = finalised_state st l.
Proof.
  intros H Hl. rewrite <- finalise_strip. apply fin_ok_cases in H.
  destruct H as [H|[H|[H|[]]]]; rewrite <- H; unfold finalise, finalised_state; cbn; rewrite Hl; cbn;
    rewrite ?fold_append_one; try reflexivity; rewrite Hl; cbn; rewrite ?fold_append_one; reflexivity.
Qed.

Lemma fin_ok_flag effs st : fin_ok effs = true -> s_fin (finalise effs st) = true.
Proof.
  intros H. rewrite <- finalise_strip. apply fin_ok_cases in H.
  destruct H as [H|[H|[H|[]]]]; rewrite <- H; unfold finalise; cbn; destruct (s_live st); reflexivity.
Qed.

Lemma do_feff_keeps st e : s_cond (do_feff st e) = s_cond st /\ s_it (do_feff st e) = s_it st.
Proof. destruct e; cbn; try (destruct (s_live st)); cbn; auto. Qed.
Lemma finalise_keeps : forall effs st, s_cond (finalise effs st) = s_cond st /\ s_it (finalise effs st) = s_it st.
Proof.
  unfold finalise. induction effs as [|e effs IH]; intros st; [auto|]. cbn.
  destruct (IH (do_feff st e)) as [I1 I2]. destruct (do_feff_keeps st e) as [K1 K2].
  rewrite I1, I2, K1, K2. auto.
Qed.

(* ================================================================================================
   5. standard sampler: runs
   ================================================================================================ *)
Lemma s_initialise_finished sk cfg st fresh :
  P_sinit (k_sinit sk) -> s_fin st = true -> s_cond st <= sc_tol cfg -> s_initialise sk cfg st fresh = st.
Proof.
  intros Hi Hf Hc. unfold s_initialise. rewrite Hf. cbn [negb].
  assert (E : match s_live st with Some _ => st | None => st end = st) by (destruct (s_live st); reflexivity).
  rewrite E. rewrite Hi. cbn [svars v_tol v_cond].
  destruct (sc_tol cfg <? s_cond st) eqn:L; [lia|reflexivity].
Qed.

Lemma s_run_result_finished sk cfg st fresh stream st1 n1 oof1 :
  P_std sk -> sc_prior cfg = false ->
  s_run sk cfg st fresh stream = (st1, n1, oof1) -> s_cond st1 <= sc_tol cfg -> s_fin st1 = true.
Proof.
  intros (Hpre & Hpost & Hent & Hfin & Hinit & Heffs) Hp H Hc.
  unfold s_run, s_loop in H. set (st0 := s_initialise sk cfg st fresh) in *.
  rewrite Hent in H. cbn [svars v_fin] in H. destruct (s_fin st0) eqn:Ef.
  - injection H as <- <- <-. exact Ef.
  - rewrite Hp in H.
    destruct (loop s_body _ _ st0 stream) as [[s' n'] oof'] eqn:El.
    destruct (loop_spec _ _ _ _ _ _ _ _ _ _ El) as (I1 & I2 & _).
    destruct (s_after_facts n' stream st0 I1) as (_ & _ & A3). rewrite <- I2 in A3.
    assert (Hf' : s_fin s' = false) by congruence.
    rewrite (Hfin (svars cfg s')) in H by exact Hf'. cbn [svars v_cond v_tol] in H.
    destruct (s_cond s' <=? sc_tol cfg) eqn:L.
    + injection H as <- <- <-. now apply fin_ok_flag.
    + injection H as <- <- <-. lia.
Qed.

(* a run that ended with the condition at or below the tolerance: running again (or resuming) changes
   nothing and executes no loop body, whatever the oracle would supply *)
Lemma std_idempotent sk cfg st fresh stream st1 n1 oof1 :
  P_std sk -> sc_prior cfg = false ->
  s_run sk cfg st fresh stream = (st1, n1, oof1) -> s_cond st1 <= sc_tol cfg ->
  forall fresh' stream', s_run sk cfg st1 fresh' stream' = (st1, 0%nat, false).
Proof.
  intros Hsk Hp H Hc fresh' stream'.
  assert (Hf : s_fin st1 = true) by (eapply s_run_result_finished; eauto).
  destruct Hsk as (Hpre & Hpost & Hent & Hfin & Hinit & Heffs).
  unfold s_run. rewrite (s_initialise_finished sk cfg st1 fresh' Hinit Hf Hc).
  unfold s_loop. rewrite Hent. cbn [svars v_fin]. now rewrite Hf.
Qed.

Lemma xle_mono cap i : xle cap (Some i) = true -> xle cap (Some (i + 1)) = true.
Proof. destruct cap; cbn; lia. Qed.

(* D4 in general: a run that is at or beyond its iteration cap with the condition still above the
   tolerance executes exactly one more body on EVERY further run / resume *)
Lemma std_cap_rerun_one_more sk cfg st fresh o r l :
  P_std sk -> sc_prior cfg = false ->
  s_fin st = false -> s_live st = Some l -> sc_tol cfg < s_cond st ->
  xle (sc_cap cfg) (Some (s_it st)) = true ->
  exists st2, s_run sk cfg st fresh (o :: r) = (st2, 1%nat, false) /\ s_it st2 = s_it st + 1.
Proof.
  intros (Hpre & Hpost & Hent & Hfin & Hinit & Heffs) Hp Hf Hl Hc Hcap.
  unfold s_run. assert (E0 : s_initialise sk cfg st fresh = st).
  { unfold s_initialise. rewrite Hl. rewrite Hinit. cbn [svars v_tol v_cond].
    destruct (sc_tol cfg <? s_cond st); [|reflexivity]. destruct st; cbn in *; now subst. }
  rewrite E0. unfold s_loop. rewrite Hent. cbn [svars v_fin]. rewrite Hf, Hp. cbn [loop].
  rewrite Hpre. cbn [svars v_cond v_tol]. destruct (s_cond st <=? sc_tol cfg) eqn:L; [lia|].
  rewrite Hpost. cbn [svars v_cap v_it]. rewrite s_body_it. rewrite (xle_mono _ _ Hcap).
  eexists. split; [reflexivity|].
  destruct (k_sfin sk (svars cfg (s_body st o))).
  - destruct (finalise_keeps (k_sfin_effs sk) (s_body st o)) as [_ K]. rewrite K. apply s_body_it.
  - apply s_body_it.
Qed.

(* consume-all-once: ns ++ live grows by exactly the new point of each body *)
Definition s_all (st : sst) : list Z := s_ns st ++ match s_live st with Some l => l | None => [] end.
Lemma s_body_all st o l : s_live st = Some l ->
  s_all (s_body st o) = s_all st ++ [snd o] /\ (exists l', s_live (s_body st o) = Some l') /\
  s_err (s_body st o) = s_err st.
Proof.
  intros Hl. unfold s_all, s_body. rewrite Hl. destruct l as [|w l]; cbn.
  - split; [now rewrite app_nil_r|]. split; [eauto|reflexivity].
  - split; [now rewrite <- !app_assoc|]. split; [eauto|reflexivity].
Qed.
Lemma s_after_all : forall k stream st l, (k <= length stream)%nat -> s_live st = Some l ->
  s_all (after s_body st stream k) = s_all st ++ map snd (firstn k stream) /\
  (exists l', s_live (after s_body st stream k) = Some l') /\
  s_err (after s_body st stream k) = s_err st.
Proof.
  induction k as [|k IH]; intros stream st l Hk Hl.
  - rewrite after_0. cbn. rewrite app_nil_r. split; [reflexivity|]. split; [eauto|reflexivity].
  - destruct stream as [|o r]; [cbn in Hk; lia|]. cbn [after firstn map]. cbn [length] in Hk.
    destruct (s_body_all st o l Hl) as (B1 & [l' B2] & B3).
    destruct (IH r (s_body st o) l') as (I1 & I2 & I3); [lia|exact B2|].
    rewrite I1, B1, I3, B3. split; [now rewrite <- app_assoc|]. split; [exact I2|reflexivity].
Qed.

Lemma std_consume_all_once sk cfg st stream st1 n oof l0 :
  P_std sk -> sc_prior cfg = false ->
  s_fin st = false -> s_live st = Some l0 ->
  s_loop sk cfg st stream = (st1, n, oof) -> s_cond st1 <= sc_tol cfg ->
  s_live st1 = None /\ s_fin st1 = true /\ s_err st1 = s_err st /\
  s_ns st1 = s_ns st ++ l0 ++ map snd (firstn n stream).
Proof.
  intros (Hpre & Hpost & Hent & Hfin & Hinit & Heffs) Hp Hf Hl H Hc.
  unfold s_loop in H. rewrite Hent in H. cbn [svars v_fin] in H. rewrite Hf, Hp in H.
  destruct (loop s_body _ _ st stream) as [[s' n'] oof'] eqn:El.
  destruct (loop_spec _ _ _ _ _ _ _ _ _ _ El) as (I1 & I2 & _).
  destruct (s_after_facts n' stream st I1) as (_ & _ & A3). rewrite <- I2 in A3.
  destruct (s_after_all n' stream st l0 I1 Hl) as (B1 & [l' B2] & B3). rewrite <- I2 in B1, B2, B3.
  assert (Hf' : s_fin s' = false) by congruence.
  rewrite (Hfin (svars cfg s')) in H by exact Hf'. cbn [svars v_cond v_tol] in H.
  destruct (s_cond s' <=? sc_tol cfg) eqn:L.
  - injection H as <- <- <-. rewrite (fin_ok_sound _ _ _ Heffs B2). unfold finalised_state. cbn.
    split; [reflexivity|]. split; [reflexivity|]. split; [exact B3|].
    unfold s_all in B1. rewrite B2, Hl in B1. rewrite B1. now rewrite <- app_assoc.
  - injection H as <- <- <-. lia.
Qed.

(* ================================================================================================
   6. importance sampler
   ================================================================================================ *)
Definition crit_at (c0 : list Z) (stream : list (list Z * nat * list Z)) (k : nat) : list Z :=
  match k with O => c0 | S j => fst (fst (nth j stream ([], 0%nat, []))) end.
Lemma crit_at_S c0 o r k : crit_at c0 (o :: r) (S k) = crit_at (fst (fst o)) r k.
Proof. destruct k; reflexivity. Qed.

Lemma i_body_facts st o :
  i_crit (i_body st o) = fst (fst o) /\ i_it (i_body st o) = i_it st + 1 /\ i_fin (i_body st o) = i_fin st.
Proof. destruct o as [[c nr] new]. unfold i_body. destruct (i_live st); cbn; auto. Qed.

Lemma i_after_facts : forall k stream st, (k <= length stream)%nat ->
  i_crit (after i_body st stream k) = crit_at (i_crit st) stream k /\
  i_it (after i_body st stream k) = i_it st + Z.of_nat k /\
  i_fin (after i_body st stream k) = i_fin st.
Proof.
  induction k as [|k IH]; intros stream st Hk.
  - rewrite after_0. cbn. repeat split; lia.
  - destruct stream as [|o r]; [cbn in Hk; lia|]. cbn [after]. cbn [length] in Hk.
    destruct (IH r (i_body st o)) as (I1 & I2 & I3); [lia|].
    destruct (i_body_facts st o) as (B1 & B2 & B3).
    rewrite I1, I2, I3, B1, B2, B3, crit_at_S. repeat split; lia.
Qed.

Definition iloop (sk : iskel) (cfg : icfg) :=
  loop i_body (fun s => k_ipre sk (ivars sk cfg s)) (fun s => k_ipost sk (ivars sk cfg s)).

Definition ins_stop_now (cfg : icfg) (c : list Z) (it : Z) : bool :=
  reached (ic_any cfg) c (ic_tols cfg) && (ic_min cfg <=? it).

Lemma ins_first_stop sk cfg st stream s n oof :
  P_ipre (k_ipre sk) -> P_post (k_ipost sk) -> P_reached (k_reached sk) ->
  iloop sk cfg st stream = (s, n, oof) ->
  (n <= length stream)%nat /\
  i_crit s = crit_at (i_crit st) stream n /\ i_it s = i_it st + Z.of_nat n /\
  (forall j, (j < n)%nat ->
     ins_stop_now cfg (crit_at (i_crit st) stream j) (i_it st + Z.of_nat j) = false /\
     ((1 <= j)%nat -> xle (ic_cap cfg) (Some (i_it st + Z.of_nat j)) = false)) /\
  (oof = false ->
     ins_stop_now cfg (crit_at (i_crit st) stream n) (i_it st + Z.of_nat n) = true \/
     ((1 <= n)%nat /\ xle (ic_cap cfg) (Some (i_it st + Z.of_nat n)) = true)) /\
  (oof = true -> n = length stream /\
     ins_stop_now cfg (crit_at (i_crit st) stream n) (i_it st + Z.of_nat n) = false).
Proof.
  intros Hpre Hpost Hr H. unfold iloop in H.
  destruct (loop_spec _ _ _ _ _ _ _ _ _ _ H) as (I1 & I2 & I3 & I4 & I5).
  assert (F : forall k, (k <= length stream)%nat ->
     stops_at i_body (fun s => k_ipre sk (ivars sk cfg s)) (fun s => k_ipost sk (ivars sk cfg s)) st stream k
     = ins_stop_now cfg (crit_at (i_crit st) stream k) (i_it st + Z.of_nat k)
       || ((1 <=? k)%nat && xle (ic_cap cfg) (Some (i_it st + Z.of_nat k)))).
  { intros k Hk. unfold stops_at, ins_stop_now. rewrite Hpre, Hpost.
    cbn [ivars v_reached v_min v_cap v_it]. rewrite Hr.
    destruct (i_after_facts k stream st Hk) as (A1 & A2 & _). now rewrite A1, A2. }
  destruct (i_after_facts n stream st I1) as (A1 & A2 & _).
  split; [exact I1|]. split; [now rewrite I2|]. split; [now rewrite I2|]. split.
  - intros j Hj. specialize (I3 j Hj). rewrite F in I3 by lia.
    apply orb_false_elim in I3. destruct I3 as [J1 J2]. split; [exact J1|].
    intros H1. destruct (1 <=? j)%nat eqn:E; [|apply Nat.leb_gt in E; lia]. exact J2.
  - split.
    + intros Ho. specialize (I4 Ho). rewrite F in I4 by lia. apply orb_prop in I4.
      destruct I4 as [J|J]; [left; exact J|right]. apply andb_prop in J. destruct J as [J1 J2].
      apply Nat.leb_le in J1. split; [exact J1|exact J2].
    + intros Ho. destruct (I5 Ho) as [J1 J2]. split; [exact J1|]. rewrite F in J2 by lia.
      apply orb_false_elim in J2. tauto.
Qed.

(* any / all in logical terms (zip truncates to the shorter list) *)
Lemma reached_any_spec : forall crit tol,
  reached true crit tol = true <->
  exists i, (i < length crit)%nat /\ (i < length tol)%nat /\ nth i crit 0 <= nth i tol 0.
Proof.
  unfold reached, le_pairs. induction crit as [|c crit IH]; intros tol.
  - cbn. split; [discriminate|]. intros [i [H _]]. lia.
  - destruct tol as [|t tol].
    + cbn. split; [discriminate|]. intros [i [_ [H _]]]. lia.
    + cbn [combine map existsb fst snd length]. rewrite orb_true_iff, IH. split.
      * intros [H|[i [H1 [H2 H3]]]].
        { exists 0%nat. cbn. repeat split; lia. }
        { exists (S i). cbn. repeat split; lia. }
      * intros [[|i] [H1 [H2 H3]]]; cbn in H3.
        { left. lia. }
        { right. exists i. repeat split; lia. }
Qed.
Lemma reached_all_spec : forall crit tol,
  reached false crit tol = true <->
  forall i, (i < length crit)%nat -> (i < length tol)%nat -> nth i crit 0 <= nth i tol 0.
Proof.
  unfold reached, le_pairs. induction crit as [|c crit IH]; intros tol.
  - cbn. split; [intros _ i H; lia|reflexivity].
  - destruct tol as [|t tol].
    + cbn. split; [intros _ i _ H; lia|reflexivity].
    + cbn [combine map forallb fst snd length]. rewrite andb_true_iff, IH. split.
      * intros [H0 H] [|i] H1 H2; cbn; [lia|]. apply H; lia.
      * intros H. split.
        { specialize (H 0%nat). cbn in H. assert (c <= t) by (apply H; lia). lia. }
        { intros i H1 H2. specialize (H (S i)). cbn in H. apply H; lia. }
Qed.

Lemma ins_idempotent sk cfg st stream st1 n oof :
  P_entry (k_ientry sk) -> k_ifin_always sk = true ->
  i_run sk cfg st stream = (st1, n, oof) ->
  forall stream', i_run sk cfg st1 stream' = (st1, 0%nat, false).
Proof.
  intros Hent Hfa H stream'. unfold i_run in *. rewrite Hent in *. cbn [ivars v_fin] in *.
  assert (Hf : i_fin st1 = true).
  { destruct (i_fin st) eqn:Ef.
    - injection H as <- <- <-. exact Ef.
    - destruct (loop i_body _ _ st stream) as [[s' n'] oof']. rewrite Hfa in H. injection H as <- <- <-.
      unfold i_finalise. destruct (i_fin s') eqn:E; [exact E|reflexivity]. }
  now rewrite Hf.
Qed.

Definition i_all (st : ist) : list Z := i_dead st ++ match i_live st with Some l => l | None => [] end.
Lemma i_body_all st o l : i_live st = Some l ->
  i_all (i_body st o) = i_all st ++ snd o /\ (exists l', i_live (i_body st o) = Some l').
Proof.
  intros Hl. destruct o as [[c nr] new]. unfold i_all, i_body. rewrite Hl. cbn.
  split; [|eauto]. rewrite <- !app_assoc. f_equal. rewrite app_assoc. now rewrite firstn_skipn.
Qed.
Lemma i_after_all : forall k stream st l, (k <= length stream)%nat -> i_live st = Some l ->
  i_all (after i_body st stream k) = i_all st ++ List.concat (map snd (firstn k stream)) /\
  (exists l', i_live (after i_body st stream k) = Some l').
Proof.
  induction k as [|k IH]; intros stream st l Hk Hl.
  - rewrite after_0. cbn. rewrite app_nil_r. split; [reflexivity|eauto].
  - destruct stream as [|o r]; [cbn in Hk; lia|]. cbn [after firstn map List.concat]. cbn [length] in Hk.
    destruct (i_body_all st o l Hl) as (B1 & [l' B2]).
    destruct (IH r (i_body st o) l') as (I1 & I2); [lia|exact B2|].
    rewrite I1, B1. split; [now rewrite <- app_assoc|exact I2].
Qed.

Lemma ins_consume_all_once sk cfg st stream st1 n oof l0 :
  P_entry (k_ientry sk) -> k_ifin_always sk = true ->
  i_fin st = false -> i_live st = Some l0 ->
  i_run sk cfg st stream = (st1, n, oof) ->
  i_live st1 = None /\ i_fin st1 = true /\
  i_dead st1 = i_dead st ++ l0 ++ List.concat (map snd (firstn n stream)).
Proof.
  intros Hent Hfa Hf Hl H. unfold i_run in H. rewrite Hent in H. cbn [ivars v_fin] in H. rewrite Hf, Hfa in H.
  destruct (loop i_body _ _ st stream) as [[s' n'] oof'] eqn:El.
  destruct (loop_spec _ _ _ _ _ _ _ _ _ _ El) as (I1 & I2 & _).
  destruct (i_after_facts n' stream st I1) as (_ & _ & A3). rewrite <- I2 in A3.
  destruct (i_after_all n' stream st l0 I1 Hl) as (B1 & [l' B2]). rewrite <- I2 in B1, B2.
  injection H as <- <- <-. unfold i_finalise. rewrite A3, Hf. cbn.
  split; [reflexivity|]. split; [reflexivity|].
  unfold i_all in B1. rewrite B2, Hl in B1. rewrite B2, B1. now rewrite <- app_assoc.
Qed.

(* ================================================================================================
   7. alias table
   ================================================================================================ *)
Lemma existsb_eqb_In a l : existsb (String.eqb a) l = true <-> In a l.
Proof.
  rewrite existsb_exists. split.
  - intros [x [H1 H2]]. apply String.eqb_eq in H2. now subst.
  - intros H. exists a. split; [exact H|apply String.eqb_refl].
Qed.
Lemma nodupb_app_r l1 : forall l2, nodupb (l1 ++ l2) = true -> nodupb l2 = true.
Proof.
  induction l1 as [|x l1 IH]; intros l2 H; [exact H|]. cbn in H. apply andb_prop in H. now apply IH.
Qed.
Lemma nodupb_app_notin l1 : forall l2 a, nodupb (l1 ++ l2) = true -> In a l1 -> ~ In a l2.
Proof.
  induction l1 as [|x l1 IH]; intros l2 a H Hin; [destruct Hin|]. cbn in H. apply andb_prop in H.
  destruct H as [H1 H2]. destruct Hin as [->|Hin]; [|now apply IH].
  intros Hc. apply negb_true_iff in H1.
  assert (E : existsb (String.eqb a) (l1 ++ l2) = true) by (apply existsb_eqb_In, in_or_app; now right).
  congruence.
Qed.

Lemma resolve1_unknown t a : (forall row, In row t -> ~ In a (snd row)) -> resolve1 t a = [].
Proof.
  unfold resolve1. induction t as [|row t IH]; intros H; [reflexivity|]. cbn.
  assert (E : has_alias a row = false).
  { unfold has_alias. destruct (existsb (String.eqb a) (snd row)) eqn:E; [|reflexivity].
    apply existsb_eqb_In in E. exfalso. apply (H row); [now left|exact E]. }
  rewrite E. apply IH. intros r Hr. apply H. now right.
Qed.

Lemma alias_unique : forall t k al a,
  atable_ok t = true -> In (k, al) t -> In a al -> resolve1 t a = [k].
Proof.
  unfold atable_ok. induction t as [|row t IH]; intros k al a Hok Hin Ha; [destruct Hin|].
  cbn [map List.concat] in Hok. unfold resolve1. cbn [filter].
  destruct Hin as [->|Hin].
  - assert (E : has_alias a (k, al) = true) by (unfold has_alias; cbn; now apply existsb_eqb_In).
    rewrite E. cbn [map fst]. f_equal. fold (resolve1 t a). apply resolve1_unknown.
    intros r Hr Hc. apply (nodupb_app_notin _ _ a Hok Ha). apply in_concat.
    exists (snd r). split; [now apply in_map|exact Hc].
  - assert (E : has_alias a row = false).
    { unfold has_alias. destruct (existsb (String.eqb a) (snd row)) eqn:E; [|reflexivity].
      apply existsb_eqb_In in E. exfalso. apply (nodupb_app_notin _ _ a Hok E). apply in_concat.
      exists al. split; [|exact Ha]. change al with (snd (k, al)). now apply in_map. }
    rewrite E. fold (resolve1 t a). apply (IH k al a); [now apply nodupb_app_r in Hok|exact Hin|exact Ha].
Qed.

(* the i-th configured criterion is the canonical name of the i-th name the user gave: the i-th tolerance
   is compared with the right quantity *)
Lemma alias_sound t names ks :
  atable_ok t = true ->
  Forall2 (fun a k => exists al, In (k, al) t /\ In a al) names ks ->
  resolve t names = ks.
Proof.
  intros Hok H. unfold resolve. induction H as [|a k names ks [al [H1 H2]] H IH]; [reflexivity|].
  cbn [flat_map]. rewrite (alias_unique t k al a Hok H1 H2). cbn. now rewrite IH.
Qed.
