(* C15 - the interval twins of the stopping criteria enclose the real definitions; a passing check is a
   statement about reals. *)
From Coq Require Import Reals ZArith List Bool Lia Lra.
From Interval Require Import Xreal Interval Basic.
From NessaiV Require Import Lib.Enclose Model.C15_Criteria.
Import ListNotations.
Local Open Scope R_scope.

Lemma Forall2_len {A B} (r : A -> B -> Prop) l l' : Forall2 r l l' -> length l = length l'.
Proof. induction 1; simpl; congruence. Qed.

Section Encl.
Variable p : prec.

Lemma xadd_encl a b x y : xencl a x -> xencl b y -> xencl (xadd_I p a b) (xadd x y).
Proof.
  destruct a, x; simpl; try contradiction; destruct b, y; simpl; try contradiction; auto.
  intros H1 H2. now apply encl_add.
Qed.

Lemma lw_encl s : Forall2 xencl (lw_I p s) (lw_R s).
Proof.
  induction s as [|[a b] s IH]; simpl; constructor; [|exact IH].
  apply xadd_encl; apply encl_dyo.
Qed.

Lemma finite_b_has s : finite_b s = true -> has_finite (lw_R s).
Proof.
  unfold finite_b. intros H. apply existsb_exists in H. destruct H as [[a b] [Hin Hs]].
  apply andb_prop in Hs. destruct Hs as [Ha Hb]. simpl in Ha, Hb.
  destruct a as [[ma ea]|]; [|discriminate]. destruct b as [[mb eb]|]; [|discriminate].
  exists (dyR ma ea + dyR mb eb). unfold lw_R. apply in_map_iff.
  exists (Some (ma, ea), Some (mb, eb)). split; [reflexivity|exact Hin].
Qed.

Lemma cnt_encl li lx : Forall2 xencl li lx -> encl (cnt_I p li) (cnt lx).
Proof. intros H. unfold cnt_I, cnt. rewrite (Forall2_len _ _ _ H). apply encl_iZ. Qed.

Lemma cnt_pos l : has_finite l -> 0 < cnt l.
Proof.
  intros [x Hx]. unfold cnt. apply IZR_lt. destruct l; [destruct Hx|]. simpl length. lia.
Qed.

Lemma logZ_encl li lx : has_finite lx -> Forall2 xencl li lx -> encl (logZ_I p li) (logZ_R lx).
Proof.
  intros Hf H. unfold logZ_I, logZ_R. apply encl_sub; [now apply lse_encl|].
  apply encl_ln; [now apply cnt_pos|now apply cnt_encl].
Qed.

Lemma has_finite_scaled k l : has_finite l -> has_finite (map (xscale k) l).
Proof. intros [x Hx]. exists (k * x). apply in_map_iff. now exists (Some x). Qed.

Lemma scaled_encl li lx :
  Forall2 xencl li lx -> Forall2 xencl (map (xscale_I p (iZ p 2)) li) (map (xscale 2) lx).
Proof. apply Forall2_map2. intros a b Hab. apply encl_xscale; [exact (encl_iZ p 2)|exact Hab]. Qed.

Lemma ess_encl li lx : has_finite lx -> Forall2 xencl li lx -> encl (ess_I p li) (ess_R lx).
Proof.
  intros Hf H. unfold ess_I, ess_R. apply encl_div.
  - generalize (sumexp_pos _ (has_finite_scaled 2 _ Hf)). lra.
  - apply encl_sqr. now apply sumexp_encl.
  - apply sumexp_encl. now apply scaled_encl.
Qed.

Lemma zhat_encl li lx : has_finite lx -> Forall2 xencl li lx -> encl (zhat_I p li) (zhat_R lx).
Proof.
  intros Hf H. unfold zhat_I, zhat_R. apply encl_div.
  - generalize (cnt_pos _ Hf). lra.
  - now apply sumexp_encl.
  - now apply cnt_encl.
Qed.
Lemma zhat_pos l : has_finite l -> 0 < zhat_R l.
Proof. intros Hf. unfold zhat_R. apply Rdiv_lt_0_compat; [now apply sumexp_pos|now apply cnt_pos]. Qed.

Lemma sqdev_encl li lx : has_finite lx -> Forall2 xencl li lx -> encl (sqdev_I p li) (sqdev_R lx).
Proof.
  intros Hf H. unfold sqdev_I, sqdev_R. apply sum_encl.
  generalize (zhat_encl li lx Hf H). generalize (zhat_I p li) (zhat_R lx). intros zi z Hz.
  revert H. apply Forall2_map2. intros a b Hab. apply encl_sqr. apply encl_sub; [now apply encl_xexp|exact Hz].
Qed.

Lemma cnt_two l : (2 <= length l)%nat -> cnt l * (cnt l - 1) <> 0.
Proof.
  intros H. unfold cnt. assert (2 <= IZR (Z.of_nat (length l))) by (apply IZR_le; lia).
  apply Rgt_not_eq. apply Rmult_gt_0_compat; lra.
Qed.

Lemma u_encl li lx :
  has_finite lx -> (2 <= length lx)%nat -> Forall2 xencl li lx -> encl (u_I p li) (u_R lx).
Proof.
  intros Hf H2 H. unfold u_I, u_R. apply encl_sqrt. apply encl_div.
  - now apply cnt_two.
  - now apply sqdev_encl.
  - apply encl_mul; [now apply cnt_encl|]. apply encl_sub; [now apply cnt_encl|exact (encl_iZ p 1)].
Qed.

Lemma frac_encl li lx :
  has_finite lx -> (2 <= length lx)%nat -> Forall2 xencl li lx -> encl (frac_I p li) (frac_R lx).
Proof.
  intros Hf H2 H. unfold frac_I, frac_R. apply encl_div.
  - generalize (zhat_pos _ Hf). lra.
  - now apply u_encl.
  - now apply zhat_encl.
Qed.

Lemma zerr_code_encl li lx :
  has_finite lx -> (2 <= length lx)%nat -> Forall2 xencl li lx -> encl (zerr_code_I p li) (zerr_code_R lx).
Proof. intros Hf H2 H. unfold zerr_code_I, zerr_code_R. apply encl_exp. now apply frac_encl. Qed.

Lemma dz_encl li lx lip lxp :
  has_finite lx -> has_finite lxp -> Forall2 xencl li lx -> Forall2 xencl lip lxp ->
  encl (dz_I p li lip) (dz_R lx lxp).
Proof.
  intros. unfold dz_I, dz_R. apply encl_abs. apply encl_sub; now apply logZ_encl.
Qed.

Lemma ratio_encl lia lxa li lx :
  has_finite lxa -> has_finite lx -> Forall2 xencl lia lxa -> Forall2 xencl li lx ->
  encl (ratio_I p lia li) (ratio_R lxa lx).
Proof. intros. unfold ratio_I, ratio_R. apply encl_sub; now apply logZ_encl. Qed.

Lemma stdcond_encl zi z li l it nlive :
  (0 < nlive)%Z -> encl zi z -> encl li l -> encl (stdcond_I p zi li it nlive) (stdcond_R z l it nlive).
Proof.
  intros Hn Hz Hl. unfold stdcond_I, stdcond_R. apply encl_sub; [|exact Hz]. apply encl_ln.
  - generalize (exp_pos z) (exp_pos (l - IZR it / IZR nlive)). lra.
  - apply encl_add; [now apply encl_exp|]. apply encl_exp. apply encl_sub; [exact Hl|].
    apply encl_div; [|apply encl_iZ|apply encl_iZ]. apply not_0_IZR. lia.
Qed.

(* ---- a passing check is a statement about reals ---------------------------------------------- *)
Lemma near_sound enc x y : encl enc x -> near p enc y = true -> crit_ok x y.
Proof.
  intros He H. unfold near in H. unfold crit_ok, dyv. apply (close_to_sound p _ _ _ _ _ H He).
  unfold tol_I. apply encl_mul; [apply encl_dy|]. apply encl_add; [exact (encl_iZ p 1)|now apply encl_abs].
Qed.

Lemma two_b_len s : two_b s = true -> (2 <= length (lw_R s))%nat.
Proof. unfold two_b, lw_R. rewrite map_length. intros H. now apply Nat.leb_le. Qed.

Theorem check_logZ_sound s y : check_logZ p s y = true -> crit_ok (logZ_R (lw_R s)) y.
Proof.
  unfold check_logZ. intros H. apply andb_prop in H. destruct H as [Hf H].
  apply (near_sound _ _ _ (logZ_encl _ _ (finite_b_has _ Hf) (lw_encl s)) H).
Qed.
Theorem check_ess_sound s y : check_ess p s y = true -> crit_ok (ess_R (lw_R s)) y.
Proof.
  unfold check_ess. intros H. apply andb_prop in H. destruct H as [Hf H].
  apply (near_sound _ _ _ (ess_encl _ _ (finite_b_has _ Hf) (lw_encl s)) H).
Qed.
Theorem check_frac_sound s y : check_frac p s y = true -> crit_ok (frac_R (lw_R s)) y.
Proof.
  unfold check_frac. intros H. apply andb_prop in H. destruct H as [H H3]. apply andb_prop in H.
  destruct H as [Hf H2].
  apply (near_sound _ _ _ (frac_encl _ _ (finite_b_has _ Hf) (two_b_len _ H2) (lw_encl s)) H3).
Qed.
Theorem check_zerr_code_sound s y : check_zerr_code p s y = true -> crit_ok (zerr_code_R (lw_R s)) y.
Proof.
  unfold check_zerr_code. intros H. apply andb_prop in H. destruct H as [H H3]. apply andb_prop in H.
  destruct H as [Hf H2].
  apply (near_sound _ _ _ (zerr_code_encl _ _ (finite_b_has _ Hf) (two_b_len _ H2) (lw_encl s)) H3).
Qed.
Theorem check_u_sound s y : check_u p s y = true -> crit_ok (u_R (lw_R s)) y.
Proof.
  unfold check_u. intros H. apply andb_prop in H. destruct H as [H H3]. apply andb_prop in H.
  destruct H as [Hf H2].
  apply (near_sound _ _ _ (u_encl _ _ (finite_b_has _ Hf) (two_b_len _ H2) (lw_encl s)) H3).
Qed.
Theorem check_dz_sound s sp y : check_dz p s sp y = true -> crit_ok (dz_R (lw_R s) (lw_R sp)) y.
Proof.
  unfold check_dz. intros H. apply andb_prop in H. destruct H as [H H3]. apply andb_prop in H.
  destruct H as [Hf Hfp].
  apply (near_sound _ _ _ (dz_encl _ _ _ _ (finite_b_has _ Hf) (finite_b_has _ Hfp) (lw_encl s) (lw_encl sp)) H3).
Qed.
Theorem check_ratio_sound sa s y : check_ratio p sa s y = true -> crit_ok (ratio_R (lw_R sa) (lw_R s)) y.
Proof.
  unfold check_ratio. intros H. apply andb_prop in H. destruct H as [H H3]. apply andb_prop in H.
  destruct H as [Hfa Hf].
  apply (near_sound _ _ _ (ratio_encl _ _ _ _ (finite_b_has _ Hfa) (finite_b_has _ Hf) (lw_encl sa) (lw_encl s)) H3).
Qed.
Theorem check_stdcond_sound z l it nlive y :
  check_stdcond p z l it nlive y = true -> crit_ok (stdcond_R (dyv z) (dyv l) it nlive) y.
Proof.
  unfold check_stdcond. intros H. apply andb_prop in H. destruct H as [Hn H]. apply Z.ltb_lt in Hn.
  apply (near_sound _ _ _ (stdcond_encl _ _ _ _ it nlive Hn (encl_dy p _ _) (encl_dy p _ _)) H).
Qed.

Theorem ccase_sound c : run_ccase p c = true -> ccase_ok c.
Proof.
  destruct c; cbn [run_ccase ccase_ok].
  - apply check_logZ_sound.
  - apply check_ess_sound.
  - apply check_frac_sound.
  - apply check_zerr_code_sound.
  - apply check_u_sound.
  - apply check_dz_sound.
  - apply check_ratio_sound.
  - apply check_stdcond_sound.
Qed.
End Encl.

(* ---- the Z_err criterion as coded can never fall below 1 ---------------------------------------- *)
Lemma u_nonneg l : 0 <= u_R l.
Proof. unfold u_R. apply sqrt_pos. Qed.

Lemma exp_ge_1 x : 0 <= x -> 1 <= exp x.
Proof.
  intros [H|<-]; [|rewrite exp_0; lra]. left. rewrite <- exp_0. now apply exp_increasing.
Qed.

Theorem zerr_code_ge_one l : has_finite l -> 1 <= zerr_code_R l.
Proof.
  intros Hf. unfold zerr_code_R. apply exp_ge_1. unfold frac_R, Rdiv.
  apply Rmult_le_pos; [apply u_nonneg|]. left. apply Rinv_0_lt_compat. now apply zhat_pos.
Qed.

(* ... so with a tolerance below 1 that criterion is never met, whatever the samples *)
Theorem zerr_code_never_met l tol : has_finite l -> tol < 1 -> ~ (zerr_code_R l <= tol).
Proof. intros Hf Ht Hc. generalize (zerr_code_ge_one l Hf). lra. Qed.

(* ---- the standard sampler's condition ln(Z + Lmax X) - ln Z ---------------------------------------- *)
(* positive for every state ... *)
Lemma stdcond_pos z l it nlive : 0 < stdcond_R z l it nlive.
Proof.
  unfold stdcond_R. set (a := l - IZR it / IZR nlive).
  assert (H : z < ln (exp z + exp a)).
  { rewrite <- (ln_exp z) at 1. apply ln_increasing; [apply exp_pos|].
    generalize (exp_pos a). lra. }
  lra.
Qed.

(* ... and, with the evidence and the largest likelihood held fixed, strictly decreasing in the iteration:
   the remaining-prior-volume term shrinks at every step *)
Lemma stdcond_decreasing z l it it' nlive :
  (0 < nlive)%Z -> (it < it')%Z -> stdcond_R z l it' nlive < stdcond_R z l it nlive.
Proof.
  intros Hn Hlt. unfold stdcond_R.
  assert (Hn' : 0 < IZR nlive) by (apply (IZR_lt 0); exact Hn).
  assert (Hi : IZR it < IZR it') by (apply IZR_lt; exact Hlt).
  assert (Hd : IZR it / IZR nlive < IZR it' / IZR nlive).
  { unfold Rdiv. apply Rmult_lt_compat_r; [apply Rinv_0_lt_compat; exact Hn'|exact Hi]. }
  assert (He : exp (l - IZR it' / IZR nlive) < exp (l - IZR it / IZR nlive)) by (apply exp_increasing; lra).
  assert (Hl : ln (exp z + exp (l - IZR it' / IZR nlive)) < ln (exp z + exp (l - IZR it / IZR nlive))).
  { apply ln_increasing; [generalize (exp_pos z) (exp_pos (l - IZR it' / IZR nlive)); lra|lra]. }
  lra.
Qed.

(* closed form: the condition depends on the state only through logLmax - it / nlive - logZ *)
Lemma stdcond_closed z l it nlive :
  stdcond_R z l it nlive = ln (1 + exp (l - IZR it / IZR nlive - z)).
Proof.
  unfold stdcond_R. set (a := l - IZR it / IZR nlive).
  replace (exp z + exp a) with (exp z * (1 + exp (a - z))).
  - rewrite ln_mult; [rewrite ln_exp; lra|apply exp_pos|generalize (exp_pos (a - z)); lra].
  - rewrite Rmult_plus_distr_l, Rmult_1_r, <- exp_plus. f_equal. f_equal. lra.
Qed.
