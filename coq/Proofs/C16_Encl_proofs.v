(* C16 - the interval twins enclose ESS / probabilities / acceptance margins; passing checks are
   statements about reals *)
From Coq Require Import Reals ZArith List Bool Lia Lra.
From Interval Require Import Xreal Interval Basic.
From NessaiV Require Import Lib.Enclose Model.C16_Resample Proofs.C16_Resample_proofs Run.C16_run.
Import ListNotations.
Local Open Scope R_scope.

Section Encl.
Variable p : prec.

Lemma normalise_encl li lw :
  has_finite lw -> Forall2 xencl li lw -> Forall2 xencl (normalise_I p li) (normalise lw).
Proof.
  intros Hf H. unfold normalise_I, normalise. generalize (lse_encl p li lw Hf H).
  generalize (lse_I p li) (lse_R lw). intros si s Hs. revert H. apply Forall2_map2.
  intros a b Hab. now apply encl_xsub.
Qed.

Lemma has_finite_scaled lw : has_finite lw -> has_finite (map (xscale 2) (normalise lw)).
Proof.
  intros [x Hx]. exists (2 * (x - lse_R lw)). unfold normalise. rewrite map_map. apply in_map_iff.
  now exists (Some x).
Qed.

Theorem ess_encl li lw : Forall2 xencl li lw -> has_finite lw -> encl (ess_I p li) (ess lw).
Proof.
  intros H Hf. unfold ess_I, ess. apply encl_exp, encl_neg. apply lse_encl; [now apply has_finite_scaled|].
  generalize (normalise_encl li lw Hf H). apply Forall2_map2. intros a b Hab.
  apply encl_xscale; [exact (encl_iZ p 2)|exact Hab].
Qed.

Theorem probs_encl li lw : Forall2 xencl li lw -> has_finite lw -> Forall2 encl (probs_I p li) (probs lw).
Proof.
  intros H Hf. unfold probs_I, probs. generalize (normalise_encl li lw Hf H). apply Forall2_map2.
  intros a b. apply encl_xexp.
Qed.

Lemma xmaxo_encl li lw : Forall2 xencl li lw -> xencl (xmaxo_I p li) (xmaxo lw).
Proof.
  induction 1 as [|a b li lw Hab H IH]; [exact Logic.I|]. simpl.
  destruct a as [ai|], b as [x|]; simpl in Hab; try contradiction; [|exact IH].
  destruct (xmaxo_I p li) as [mi|], (xmaxo lw) as [m|]; simpl in IH; try contradiction; simpl.
  - now apply encl_max.
  - exact Hab.
Qed.

Lemma absmax_encl li ls : Forall2 xencl li ls -> encl (absmax_I p li) (absmax ls).
Proof.
  induction 1 as [|a b li ls Hab H IH]; simpl; [apply (encl_iZ p 0)|].
  destruct a, b; simpl in Hab; try contradiction; [|exact IH].
  apply encl_max; [now apply encl_abs|exact IH].
Qed.

Lemma Forall2_length {A B} (r : A -> B -> Prop) l l' : Forall2 r l l' -> length l = length l'.
Proof. induction 1; simpl; congruence. Qed.

Lemma tol_rel_encl li lw : Forall2 xencl li lw -> encl (tol_rel_I p li) (tol_rel lw).
Proof.
  intros H. unfold tol_rel_I, tol_rel. apply encl_mul; [apply encl_mul; [apply encl_iZ|apply encl_dy]|].
  apply encl_add; [apply encl_add|exact (encl_iZ p 1)].
  - rewrite (Forall2_length _ _ _ H). rewrite INR_IZR_INZ. apply encl_iZ.
  - now apply absmax_encl.
Qed.

Lemma tol_margin_encl di d li l : encl di d -> encl li l -> encl (tol_margin_I p di li) (tol_margin d l).
Proof.
  intros Hd Hl. unfold tol_margin_I, tol_margin. apply encl_mul; [apply encl_mul; [apply encl_iZ|apply encl_dy]|].
  apply encl_add; [apply encl_add; now apply encl_abs|exact (encl_iZ p 1)].
Qed.

Lemma existsb_has_finite (lwd : list (option dyad)) : existsb is_some lwd = true -> has_finite (map dyoR lwd).
Proof.
  intros H. apply existsb_exists in H. destruct H as [[[m e]|] [Hin Hs]]; [|discriminate].
  exists (dyR m e). apply in_map_iff. now exists (Some (m, e)).
Qed.

(* ---- soundness of the checks -------------------------------------------------------------------- *)
Theorem check_ess_sound lwd y : check_ess p lwd y = true -> ess_ok (map dyoR lwd) y.
Proof.
  unfold check_ess. intros H. apply andb_prop in H. destruct H as [Hf H]. apply existsb_has_finite in Hf.
  generalize (ess_encl _ _ (encl_dyo_list p lwd) Hf). intros He.
  unfold ess_ok, dyv. apply (close_to_sound p _ _ _ _ _ H He).
  apply encl_mul; [apply tol_rel_encl, encl_dyo_list|exact He].
Qed.

Theorem check_default_n_sound lwd n : check_default_n p lwd n = true -> default_n_ok (map dyoR lwd) n.
Proof.
  unfold check_default_n. intros H. apply andb_prop in H. destruct H as [H H2].
  apply andb_prop in H. destruct H as [Hf H1]. apply existsb_has_finite in Hf.
  generalize (ess_encl _ _ (encl_dyo_list p lwd) Hf). intros He.
  assert (Ht : encl (I.mul p (tol_rel_I p (map (dyo p) lwd)) (ess_I p (map (dyo p) lwd)))
                    (tol_rel (map dyoR lwd) * ess (map dyoR lwd))).
  { apply encl_mul; [apply tol_rel_encl, encl_dyo_list|exact He]. }
  unfold default_n_ok. rewrite INR_IZR_INZ. split.
  - assert (E : encl (I.sub p (I.add p (ess_I p (map (dyo p) lwd))
                                 (I.mul p (tol_rel_I p (map (dyo p) lwd)) (ess_I p (map (dyo p) lwd))))
                          (iZ p (Z.of_nat n)))
                     (ess (map dyoR lwd) + tol_rel (map dyoR lwd) * ess (map dyoR lwd) - IZR (Z.of_nat n))).
    { apply encl_sub; [now apply encl_add|apply encl_iZ]. }
    generalize (is_nonneg_sound _ _ H1 E). lra.
  - assert (E : encl (I.sub p (iZ p (Z.of_nat n + 1))
                          (I.sub p (ess_I p (map (dyo p) lwd))
                                 (I.mul p (tol_rel_I p (map (dyo p) lwd)) (ess_I p (map (dyo p) lwd)))))
                     (IZR (Z.of_nat n + 1) - (ess (map dyoR lwd) - tol_rel (map dyoR lwd) * ess (map dyoR lwd)))).
    { apply encl_sub; [apply encl_iZ|now apply encl_sub]. }
    generalize (is_nonneg_sound _ _ H2 E). rewrite plus_IZR. lra.
Qed.

Lemma all2_close pi pr ti t ps :
  Forall2 encl pi pr -> encl ti t ->
  all2 (fun e y => close_to p e y (tol_p_I p ti e)) pi ps = true ->
  Forall2 (fun q y => Rabs (q - dyv y) <= t * q + dyR 1 (-1074)) pr ps.
Proof.
  intros Hp Ht. revert ps. induction Hp as [|a b pi pr Hab Hp IH]; intros ps H.
  - destruct ps; [constructor|discriminate].
  - destruct ps as [|y ps]; [discriminate|]. cbn [all2] in H. apply andb_prop in H. destruct H as [H1 H2].
    constructor; [|now apply IH]. unfold dyv. apply (close_to_sound p _ _ _ _ _ H1 Hab).
    unfold tol_p_I. apply encl_add; [now apply encl_mul|apply encl_dy].
Qed.

Theorem check_probs_sound lwd ps : check_probs p lwd ps = true -> probs_ok (map dyoR lwd) ps.
Proof.
  unfold check_probs. intros H. apply andb_prop in H. destruct H as [Hf H]. apply existsb_has_finite in Hf.
  unfold probs_ok, tol_p.
  exact (all2_close _ _ _ _ _ (probs_encl _ _ (encl_dyo_list p lwd) Hf) (tol_rel_encl _ _ (encl_dyo_list p lwd)) H).
Qed.

Lemma dyR_zero e : dyR 0 e = 0.
Proof. unfold dyR. destruct (0 <=? e)%Z; [now rewrite Z.mul_0_l|unfold Rdiv; now rewrite Rmult_0_l]. Qed.

Lemma check_keep_sound Mi M l u b :
  encl Mi M -> check_keep p Mi l u b = true -> keep_agrees M (dyoR l) (dyv u) b.
Proof.
  intros HM. destruct l as [[m e]|]; simpl.
  - destruct u as [um ue]. cbn [fst snd]. unfold dyv. cbn [fst snd].
    destruct (um =? 0)%Z eqn:E0.
    + apply Z.eqb_eq in E0. subst um. rewrite dyR_zero. intros ->.
      destruct (Req_EM_T 0 0) as [_|Hne]; [reflexivity|now elim Hne].
    + destruct (um <? 0)%Z eqn:En; [discriminate|]. apply Z.eqb_neq in E0. apply Z.ltb_ge in En.
      assert (Hu : 0 < dyR um ue) by (apply dyR_pos; lia).
      destruct (Req_EM_T (dyR um ue) 0) as [Hz|_]; [lra|].
      assert (Hd : encl (I.sub p (dy p m e) Mi) (dyR m e - M)) by (apply encl_sub; [apply encl_dy|exact HM]).
      assert (Hl : encl (I.ln p (dy p um ue)) (ln (dyR um ue))) by (apply encl_ln; [exact Hu|apply encl_dy]).
      generalize (tol_margin_encl _ _ _ _ Hd Hl). intros Ht.
      assert (Hm : encl (I.sub p (I.sub p (dy p m e) Mi) (I.ln p (dy p um ue))) (dyR m e - M - ln (dyR um ue)))
        by now apply encl_sub.
      destruct b; intros H; (split; [exact Hu|]); split; intros Hb; try discriminate.
      * generalize (is_nonneg_sound _ _ H (encl_add p _ _ _ _ Hm Ht)). lra.
      * generalize (is_nonpos_sound _ _ H (encl_sub p _ _ _ _ Hm Ht)). lra.
  - destruct b; [discriminate|reflexivity].
Qed.

Lemma check_keeps_sound k Mi M lwd us idx :
  encl Mi M -> check_keeps_from p k Mi lwd us idx = [] -> keeps_agree_from k M (map dyoR lwd) (map dyv us) idx.
Proof.
  intros HM. revert k us. induction lwd as [|l lwd IH]; intros k us H.
  - destruct us; [exact Logic.I|discriminate].
  - destruct us as [|u us]; [discriminate|]. cbn [check_keeps_from] in H.
    apply app_eq_nil in H. destruct H as [H1 H2]. cbn [map keeps_agree_from]. split; [|now apply IH].
    destruct (check_keep p Mi l u (memb k idx)) eqn:E; [|discriminate]. now apply (check_keep_sound Mi).
Qed.

Theorem check_rej_sound lwd us idx :
  check_rej p lwd us idx = (true, []) -> rej_ok (map dyoR lwd) (map dyv us) idx.
Proof.
  unfold check_rej. generalize (xmaxo_encl _ _ (encl_dyo_list p lwd)).
  destruct (xmaxo_I p (map (dyo p) lwd)) as [Mi|]; [|discriminate].
  destruct (xmaxo (map dyoR lwd)) as [M|] eqn:EM; simpl; [|contradiction].
  intros HM H. inversion H as [H']. exists M. split; [exact EM|]. now apply (check_keeps_sound 0 Mi).
Qed.
End Encl.
