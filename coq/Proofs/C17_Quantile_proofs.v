From Coq Require Import Reals List Lra Lia.
From NessaiV Require Import Model.C17_Quantile.
Import ListNotations.
Local Open Scope R_scope.

Lemma sexp_shift c lw : sexp (map (Rplus c) lw) = exp c * sexp lw.
Proof.
  unfold sexp. induction lw as [|l r IH]; cbn [map rsum fold_right]; [ring|].
  fold (rsum (map exp (map (Rplus c) r))). fold (rsum (map exp r)). rewrite IH, exp_plus. ring.
Qed.

Lemma sexp_pos lw : lw <> [] -> 0 < sexp lw.
Proof.
  unfold sexp. induction lw as [|l r IH]; intros H; [congruence|].
  cbn [map rsum fold_right]. fold (rsum (map exp r)).
  pose proof (exp_pos l). destruct r as [|l' r']; [cbn; lra|].
  assert (0 < rsum (map exp (l' :: r'))) by (apply IH; congruence). lra.
Qed.

Lemma nw_shift c lw : nw (map (Rplus c) lw) = nw lw.
Proof.
  destruct lw as [|l0 r0]; [reflexivity|].
  set (lw := l0 :: r0). assert (Hp : 0 < sexp lw) by (apply sexp_pos; discriminate).
  unfold nw. rewrite map_map. apply map_ext. intros l.
  rewrite sexp_shift, exp_plus. pose proof (exp_pos c). field. split; lra.
Qed.

Lemma rsum_map_div (f : R -> R) s l : rsum (map (fun x => f x / s) l) = rsum (map f l) / s.
Proof.
  induction l as [|x r IH]; cbn [map rsum fold_right]; [unfold Rdiv; ring|].
  fold (rsum (map (fun x => f x / s) r)). fold (rsum (map f r)). rewrite IH. unfold Rdiv. ring.
Qed.

Lemma nw_sum_one lw : lw <> [] -> rsum (nw lw) = 1.
Proof.
  intros H. pose proof (sexp_pos lw H). unfold nw. rewrite rsum_map_div. fold (sexp lw). field. lra.
Qed.

Theorem neff_shift c lw : neff (map (Rplus c) lw) = neff lw.
Proof. unfold neff. now rewrite nw_shift. Qed.

Theorem ends_shift c lw : ends (map (Rplus c) lw) = ends lw.
Proof. unfold ends. now rewrite nw_shift. Qed.

Theorem wquant_shift B q vals c lw : wquant B q vals (map (Rplus c) lw) = wquant B q vals lw.
Proof. unfold wquant. now rewrite neff_shift, ends_shift. Qed.

(* the end points are a cumulative distribution: same number as the samples, the last one is exactly 1 *)
Lemma cums_last acc l d : l <> [] -> last (cums acc l) d = acc + rsum l.
Proof.
  revert acc; induction l as [|w r IH]; intros acc H; [congruence|].
  destruct r as [|w' r'].
  - cbn. lra.
  - change (cums acc (w :: w' :: r')) with ((acc + w) :: cums (acc + w) (w' :: r')).
    change (cums (acc + w) (w' :: r')) with ((acc + w + w') :: cums (acc + w + w') r').
    change (last ((acc + w) :: (acc + w + w') :: cums (acc + w + w') r') d)
      with (last ((acc + w + w') :: cums (acc + w + w') r') d).
    change ((acc + w + w') :: cums (acc + w + w') r') with (cums (acc + w) (w' :: r')).
    rewrite IH by discriminate. cbn. lra.
Qed.

Lemma last_map_R (f : R -> R) l d d' : l <> [] -> last (map f l) d' = f (last l d).
Proof.
  induction l as [|x r IH]; intros H; [congruence|]. destruct r as [|y r']; [reflexivity|].
  change (last (map f (x :: y :: r')) d') with (last (map f (y :: r')) d').
  change (last (x :: y :: r') d) with (last (y :: r') d). apply IH. discriminate.
Qed.

Lemma cums_length acc l : length (cums acc l) = length l.
Proof. revert acc; induction l as [|w r IH]; intros acc; [reflexivity|]. cbn. now rewrite IH. Qed.

Theorem ends_last_one lw : lw <> [] -> last (ends lw) 1 = 1 /\ length (ends lw) = length lw.
Proof.
  intros H. unfold ends.
  assert (Hn : nw lw <> []) by (unfold nw; destruct lw; [congruence|discriminate]).
  assert (Hl : last (cums 0 (nw lw)) 1 = 1).
  { rewrite cums_last by exact Hn. rewrite nw_sum_one by exact H. lra. }
  split.
  - assert (Hc : cums 0 (nw lw) <> []).
    { intros E. apply (f_equal (@length R)) in E. rewrite cums_length in E.
      destruct (nw lw); [congruence|discriminate]. }
    rewrite (last_map_R _ _ 1 1 Hc). rewrite Hl. field.
  - rewrite map_length, cums_length. unfold nw. apply map_length.
Qed.

(* equal weights *)
Lemma rsum_repeat x n : rsum (repeat x n) = INR n * x.
Proof.
  induction n as [|n IH]; [cbn; ring|].
  cbn [repeat rsum fold_right]. fold (rsum (repeat x n)). rewrite IH, S_INR. ring.
Qed.
Lemma map_repeat {A B} (f : A -> B) x n : map f (repeat x n) = repeat (f x) n.
Proof. induction n as [|n IH]; [reflexivity|]. cbn [repeat map]. now rewrite IH. Qed.

Theorem nw_equal c n : (0 < n)%nat -> nw (repeat c n) = repeat (/ INR n) n.
Proof.
  intros Hn. unfold nw, sexp. rewrite !map_repeat, rsum_repeat. f_equal.
  pose proof (exp_pos c). assert (0 < INR n) by (apply lt_0_INR; lia). field. split; lra.
Qed.

Theorem neff_equal c n : (0 < n)%nat -> neff (repeat c n) = INR n.
Proof.
  intros Hn. unfold neff. rewrite (nw_equal c n Hn), map_repeat, rsum_repeat.
  assert (0 < INR n) by (apply lt_0_INR; lia). field. lra.
Qed.

(* with equal log-weights c the quantile is the one obtained with no weights at all (log_weights = zeros) *)
Theorem wquant_equal B q vals c n : wquant B q vals (repeat c n) = wquant B q vals (repeat 0 n).
Proof.
  replace (repeat c n) with (map (Rplus c) (repeat 0 n)); [apply wquant_shift|].
  rewrite map_repeat. now rewrite Rplus_0_r.
Qed.
