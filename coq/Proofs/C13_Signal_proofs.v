(* C13 - lemmas about Model/C13_Signal.v (built on the closed form [expected] of C01's proofs). *)
From Coq Require Import String ZArith List Bool Lia ZifyBool Permutation.
From NessaiV Require Import Lib.Effects Model.C01_LiveSet Proofs.C01_LiveSet_proofs Model.C13_Signal.
Import ListNotations.

(* ---- reachable summaries ------------------------------------------------------------------- *)
Definition wf (a : abs) : bool :=
  implb (dSi a) (dDr a) && implb (dCi a) (dDr a) && implb (dSh a) (dCi a) && implb (dWr a) (dSh a).

Lemma abs_step_wf e a a' : abs_step e a = Some a' -> wf a = true -> wf a' = true.
Proof.
  destruct a as [w lm st de it dr si ci sh wr ai].
  destruct e; cbn [abs_step]; intros H;
    repeat match type of H with
           | (if ?c then _ else _) = _ => destruct c eqn:?; [|discriminate]
           end; inversion H; subst a'; unfold wf; cbn [dSi dDr dCi dSh dWr]; intros; lia.
Qed.

Lemma abs_run_wf : forall effs a a', abs_run effs a = Some a' -> wf a = true -> wf a' = true.
Proof.
  induction effs as [|e r IH]; intros a a' H W; cbn [abs_run] in H.
  - inversion H; subst. exact W.
  - destruct (abs_step e a) as [a1|] eqn:E; [|discriminate].
    exact (IH a1 a' H (abs_step_wf e a a1 E W)).
Qed.

(* ---- reflection of the boolean checks ---------------------------------------------------------- *)
Lemma nodupb_NoDup (l : list Z) : NoDup l -> nodupb l = true.
Proof.
  induction 1 as [|x l Hx _ IH]; cbn [nodupb]; [reflexivity|].
  rewrite IH, andb_true_r. apply negb_true_iff. apply not_true_is_false. intro E.
  apply existsb_exists in E. destruct E as (y & Hy & Hxy). apply Z.eqb_eq in Hxy. subst y. contradiction.
Qed.

Lemma zlist_eqb_refl (l : list Z) : zlist_eqb l l = true.
Proof. induction l as [|x l IH]; cbn [zlist_eqb]; [reflexivity|]. rewrite Z.eqb_refl, IH. reflexivity. Qed.

Lemma Inv_final_ok n s : Inv n s -> final_ok_b n (finalise s) = true.
Proof.
  intros I. destruct (finalise_spec n s I) as (_ & _ & Hs & Hn & Hl & Hll & _ & Hi & Hit).
  unfold final_ok_b. rewrite Hit, Hi, Hll, Hl. cbn [length]. rewrite map_length, Hl.
  rewrite (nodupb_NoDup _ Hn), (proj2 (sorted_sortedb _) Hs), zlist_eqb_refl.
  rewrite (inv_ci n s I), !Nat.eqb_refl. reflexivity.
Qed.

(* ---- the two balanced cases ----------------------------------------------------------------------- *)
Lemma none_done_tracked s ds a : none_done a = true -> tracked (ms (expected s ds a)) = tracked s.
Proof.
  destruct a as [w lm st de it dr si ci sh wr ai]. unfold none_done. cbn [dSt dDe dIt dSh dWr dAi].
  intros H. assert (st = false /\ de = false /\ it = false /\ sh = false /\ wr = false /\ ai = false) by lia.
  decompose [and] H0. subst. reflexivity.
Qed.

Lemma all_done_tracked s ds a :
  all_done a = true -> tracked (ms (expected s ds a)) = tracked (ms (expected s ds abs_all)).
Proof.
  destruct a as [w lm st de it dr si ci sh wr ai]. unfold all_done. cbn [dSt dDe dIt dSh dWr dAi].
  intros H. assert (st = true /\ de = true /\ it = true /\ sh = true /\ wr = true /\ ai = true) by lia.
  decompose [and] H0. subst. reflexivity.
Qed.

Lemma rest_suffix_nodup s ds (L : list Z) :
  NoDup (L ++ ids ds) -> NoDup (L ++ ids (rest_of s ds)).
Proof.
  intros N. unfold rest_of. destruct (scanres s ds) as [[[[new ev] rj] rest]|] eqn:E.
  - unfold scanres in E. destruct (scan_suffix _ _ _ _ _ _ _ _ _ (cmpf_self (w_of s)) E) as (pre & ->).
    unfold ids in *. rewrite map_app in N. exact (NoDup_drop_middle _ _ _ N).
  - cbn. rewrite app_nil_r. exact (NoDup_app_l _ _ N).
Qed.

Lemma tracked_live_dead s s' : tracked s = tracked s' -> live s = live s' /\ dead s = dead s'.
Proof. unfold tracked. intros E. inversion E. split; reflexivity. Qed.

(* A signal at a balanced boundary: the checkpoint is either the state before the iteration or the
   state after it (on every field the property talks about), it satisfies the invariant together with
   what the proposal will still return, and so does every state of every resumed run.             *)
Theorem classify_sound n effs k s ds s' r :
  InvD n s ds ->
  classify effs k = Some true ->
  interrupt canon effs k s ds = Some (s', r) ->
  InvD n s' r
  /\ (tracked s' = tracked s
      \/ exists s1 r1, step s ds = Some (s1, r1) /\ tracked s' = tracked s1 /\ r = r1)
  /\ forall j s'' r'', run j s' r = Some (s'', r'') ->
       InvD n s'' r'' /\ final_ok_b n (finalise s'') = true.
Proof.
  intros I C X. unfold classify, delta in C.
  destruct (abs_run (firstn k effs) abs0) as [a|] eqn:A; [|discriminate].
  assert (B : balanced a = true) by congruence. clear C.
  unfold interrupt in X.
  destruct (run_effs canon (firstn k effs) (inject s ds)) as [m|] eqn:R; [|discriminate].
  inversion X; subst s' r; clear X.
  rewrite <- expected_abs0 in R.
  assert (Hm := run_effs_expected s ds _ abs0 a m A R). subst m.
  assert (W : wf a = true) by (apply (abs_run_wf _ _ _ A); reflexivity).
  assert (Main : InvD n (ms (expected s ds a)) (rs (expected s ds a))
                 /\ (tracked (ms (expected s ds a)) = tracked s
                     \/ exists s1 r1, step s ds = Some (s1, r1)
                                      /\ tracked (ms (expected s ds a)) = tracked s1
                                      /\ rs (expected s ds a) = r1)).
  { unfold balanced in B. apply orb_true_iff in B. destruct B as [B|B].
    - (* nothing of the replacement has happened *)
      assert (T := none_done_tracked s ds a B). split; [|left; exact T].
      destruct I as (J & N). split; [exact (Inv_tracked n s _ (eq_sym T) J)|].
      destruct (tracked_live_dead _ _ T) as (-> & ->).
      unfold expected. cbn [rs]. destruct (dDr a); [apply rest_suffix_nodup|]; exact N.
    - (* the whole replacement has happened *)
      assert (T := all_done_tracked s ds a B).
      assert (Hdr : dDr a = true).
      { destruct a as [w lm st de it dr si ci sh wr ai]. unfold all_done, wf in *.
        cbn [dSt dDe dIt dSh dWr dAi dSi dDr dCi] in *. lia. }
      assert (Hs := run_effs_scanned s ds _ abs0 a _ A R eq_refl Hdr).
      destruct (Inv_live_cons n s (proj1 I)) as (w0 & tl & Hl).
      assert (E := expected_all s ds w0 tl Hl).
      assert (Hrest : rs (expected s ds a) = rest_of s ds) by (unfold expected; cbn [rs]; rewrite Hdr; reflexivity).
      unfold rest_of in Hrest.
      destruct (scanres s ds) as [[[[new ev] rj] rest]|] eqn:Sc; [|congruence].
      destruct E as (E1 & E2).
      destruct (step_spec n s ds _ _ I E1) as ((J1 & N1) & _).
      split.
      + split; [exact (Inv_tracked n _ _ (eq_sym T) J1)|].
        destruct (tracked_live_dead _ _ T) as (-> & ->). rewrite Hrest. exact N1.
      + right. exists (ms (expected s ds abs_all)), rest. split; [exact E1|split; [exact T|exact Hrest]]. }
  destruct Main as (I' & Hcase). split; [exact I'|split; [exact Hcase|]].
  intros j s'' r'' Hrun. assert (I'' := run_inv n j _ _ _ _ I' Hrun).
  split; [exact I''|exact (Inv_final_ok n s'' (proj1 I''))].
Qed.

(* ---- refutation of the unbalanced boundaries of today's iteration, by computation ---------------- *)
Lemma wstate_inv : InvD 4 wstate wstream.
Proof.
  split.
  - constructor; try reflexivity; try (cbn; lia).
    all: cbn [wstate live dead idxs map key wpt sorted app].
    all: try (repeat constructor; cbn; lia).
  - cbn. repeat constructor; cbn; intuition lia.
Qed.

Lemma unsafe_today_refuted :
  forallb (fun k => match classify iteration_today k with Some false => true | _ => false end
                    && match resume_run canon iteration_today k 2 wstate wstream with
                       | Some f => negb (final_ok_b 4 f) | None => false end)
          (unsafe_boundaries iteration_today) = true
  /\ unsafe_boundaries iteration_today = [3; 4; 5; 6; 7; 8; 9; 10; 11; 12; 13; 14]
  /\ outside_known_window iteration_today = [].
Proof. vm_compute. repeat split. Qed.

Theorem unsafe_today : forall k, In k (unsafe_boundaries iteration_today) ->
  exists s ds, InvD 4 s ds /\ classify iteration_today k = Some false
               /\ match resume_run canon iteration_today k 2 s ds with
                  | Some f => final_ok_b 4 f = false
                  | None => False
                  end.
Proof.
  intros k Hk. exists wstate, wstream. split; [exact wstate_inv|].
  assert (H := proj1 unsafe_today_refuted). rewrite forallb_forall in H. specialize (H k Hk).
  apply andb_true_iff in H. destruct H as (H1 & H2).
  split.
  - destruct (classify iteration_today k) as [[|]|]; try discriminate. reflexivity.
  - destruct (resume_run canon iteration_today k 2 wstate wstream); [|discriminate].
    apply negb_true_iff in H2. exact H2.
Qed.

(* ---- a signal inside finalise: refuted for EVERY consistent state ------------------------------- *)
Lemma nodupb_true_NoDup (l : list Z) : nodupb l = true -> NoDup l.
Proof.
  induction l as [|x l IH]; cbn [nodupb]; intros H; [constructor|].
  apply andb_true_iff in H. destruct H as (H1 & H2). constructor; [|exact (IH H2)].
  intro Hin. apply negb_true_iff in H1. apply not_true_iff_false in H1. apply H1.
  apply existsb_exists. exists x. split; [exact Hin|apply Z.eqb_refl].
Qed.

Theorem finalise_refuted n s j :
  Inv n s -> (1 <= j)%nat -> final_ok_b n (resume_finalise j s) = false.
Proof.
  intros I Hj. destruct (Inv_live_cons n s I) as (w & tl & Hl).
  unfold final_ok_b. destruct (nodupb (map pid (dead (resume_finalise j s)))) eqn:E; [|reflexivity].
  exfalso. apply nodupb_true_NoDup in E.
  unfold resume_finalise, finalise, finalise_prefix in E. cbn [dead live] in E. rewrite Hl in E.
  destruct j as [|j]; [lia|]. cbn [firstn] in E.
  rewrite <- app_assoc in E. cbn [app] in E. rewrite !map_app in E. cbn [map] in E.
  apply NoDup_remove_2 in E. apply E.
  apply in_or_app. right. rewrite map_app. apply in_or_app. right. left. reflexivity.
Qed.

(* ---- the handler ------------------------------------------------------------------------------- *)
Lemma heff_eqb_eq a b : heff_eqb a b = true -> a = b.
Proof. destruct a, b; cbn; try discriminate; try reflexivity; intros H; apply eqb_prop in H; subst; reflexivity. Qed.
Lemma hlist_eqb_eq : forall a b, hlist_eqb a b = true -> a = b.
Proof.
  induction a as [|x a IH]; destruct b as [|y b]; cbn [hlist_eqb]; try discriminate; [reflexivity|].
  intros H. apply andb_true_iff in H. destruct H as (H1 & H2). apply heff_eqb_eq in H1. rewrite (IH b H2), H1. reflexivity.
Qed.

Lemma hexec_skip {S} (cur : S) c o npw w : hexec cur c o npw w HSkip = w.
Proof. unfold hexec. destruct (exit_code w); reflexivity. Qed.

Lemma hrun_filter {S} (cur : S) c o npw : forall effs w,
  hrun cur c o npw effs w = hrun cur c o npw (filter (fun e => negb (is_hskip e)) effs) w.
Proof.
  induction effs as [|e r IH]; intros w; [reflexivity|].
  cbn [filter]. destruct e; cbn [is_hskip negb]; unfold hrun in *; cbn [fold_left]; try apply IH.
  rewrite hexec_skip. apply IH.
Qed.

Theorem handler_sound {S} (cur : S) (conf other : Z) (effs : list heff) (w : hworld S) (npw : bool) :
  handler_ok npw effs = true -> exit_code w = None ->
  written (hrun cur conf other npw effs w) = written w ++ [cur]
  /\ exit_code (hrun cur conf other npw effs w) = Some conf
  /\ dirty (hrun cur conf other npw effs w) = dirty w.
Proof.
  unfold handler_ok. intros H E. apply andb_true_iff in H. destruct H as (-> & H).
  rewrite hrun_filter. destruct w as [po wr ec di]. cbn [exit_code] in E. subst ec.
  apply orb_true_iff in H. destruct H as [H|H]; [apply orb_true_iff in H; destruct H as [H|H]|];
    apply hlist_eqb_eq in H; rewrite H; unfold hrun; cbn; repeat split.
Qed.

Lemma handler_today_ok : handler_ok true handler_today = true.
Proof. reflexivity. Qed.

(* ---- no construct on the signal path swallows the exit ----------------------------------------- *)
Lemma propagate_exits : forall path d,
  (forall e, In e path -> intercepts e = false) -> propagate path d = Exits.
Proof.
  induction path as [|e r IH]; intros d H; cbn [propagate]; [reflexivity|].
  rewrite (H e (or_introl eq_refl)). apply IH. intros x Hx. apply H. right. exact Hx.
Qed.

Theorem no_swallow_sound (table : list xentry) :
  no_swallow table = true ->
  forall path, incl path table -> forall d, propagate path d = Exits.
Proof.
  unfold no_swallow. rewrite forallb_forall. intros H path Hin d. apply propagate_exits.
  intros e He. apply negb_true_iff. apply H. apply Hin. exact He.
Qed.

(* handler + propagation: the process terminates with the configured code *)
Theorem exit_reaches_top {S} (cur : S) (conf other : Z) (effs : list heff) (w : hworld S) (npw : bool)
        (table path : list xentry) :
  handler_ok npw effs = true -> exit_code w = None ->
  no_swallow table = true -> incl path table ->
  process_exit (hrun cur conf other npw effs w) path = Some conf
  /\ written (hrun cur conf other npw effs w) = written w ++ [cur].
Proof.
  intros H E N I. destruct (handler_sound cur conf other effs w npw H E) as (Hw & Hc & _).
  unfold process_exit. rewrite (no_swallow_sound table N path I 0). split; assumption.
Qed.

(* and a swallowing construct on the path defeats it, whatever the handler does *)
Lemma swallowed_no_exit {S} (w : hworld S) (e : xentry) (path : list xentry) :
  intercepts e = true -> process_exit w (e :: path) = None.
Proof. intros H. unfold process_exit. cbn [propagate]. rewrite H. reflexivity. Qed.

(* ---- the handler that runs belongs to the sampler created last ------------------------------- *)
Lemma construct_last (regs : list reg) (s : sig) (i : nat) :
  negb (length (regs_for regs s) =? 0)%nat = true ->
  forallb (fun r => negb (r_cond r)) (regs_for regs s) = true ->
  forall t, construct regs t i s = Some i.
Proof.
  unfold construct. induction regs as [|r regs IH] using rev_ind; intros Hne Hun t.
  - cbn in Hne. discriminate.
  - rewrite fold_left_app. cbn [fold_left]. unfold install at 1.
    unfold regs_for in *. rewrite filter_app in Hne, Hun. cbn [filter] in Hne, Hun.
    destruct (sig_eqb s (r_sig r)) eqn:E.
    + assert (E' : sig_eqb (r_sig r) s = true) by (destruct s, (r_sig r); cbn in *; congruence).
      rewrite E' in Hun. rewrite forallb_app in Hun. apply andb_true_iff in Hun. destruct Hun as (_ & Hr).
      cbn in Hr. destruct (r_cond r); [discriminate|reflexivity].
    + assert (E' : sig_eqb (r_sig r) s = false) by (destruct s, (r_sig r); cbn in *; congruence).
      rewrite E' in Hne, Hun. rewrite app_nil_r in Hne, Hun. apply IH; assumption.
Qed.

Theorem regs_sound (regs : list reg) :
  regs_ok regs = true -> forall n s, after_samplers regs (S n) s = Some n.
Proof.
  unfold regs_ok. intros H n s.
  assert (Hs : negb (length (regs_for regs s) =? 0)%nat = true
               /\ forallb (fun r => negb (r_cond r)) (regs_for regs s) = true).
  { rewrite forallb_forall in H. apply andb_true_iff. apply H. destruct s; cbn; tauto. }
  unfold after_samplers. rewrite seq_S, fold_left_app. cbn [fold_left plus].
  apply construct_last; tauto.
Qed.

(* a registration that only fires on a default handler keeps the FIRST sampler's handler *)
Lemma stale_handler_refuted :
  after_samplers [mkreg STERM true; mkreg SINT true; mkreg SALRM true] 2 STERM = Some 0.
Proof. reflexivity. Qed.

(* ---- resume does not re-seed: nothing is offered twice over a whole history -------------------- *)
Lemma pools_from_ge : forall h j i p, In p (pools_from false j i h) ->
  (j < fst p)%nat \/ (j = fst p /\ (i <= snd p)%nat).
Proof.
  induction h as [|e r IH]; intros j i p H; cbn [pools_from] in H; [contradiction|].
  destruct e.
  - unfold pool_key in H. cbn [andb] in H. destruct H as [<-|H]; [right; cbn; split; [reflexivity|lia]|].
    destruct (IH j (S i) p H) as [Hlt|(He & Hle)]; [left; exact Hlt|right; split; [exact He|lia]].
  - destruct (IH (S j) 0%nat p H) as [Hlt|(He & _)]; left; lia.
Qed.

Lemma pools_nodup : forall h j i, NoDup (pools_from false j i h).
Proof.
  induction h as [|e r IH]; intros j i; cbn [pools_from]; [constructor|].
  destruct e; [|apply IH].
  unfold pool_key. cbn [andb]. constructor; [|apply IH].
  intro H. destruct (pools_from_ge r j (S i) (j, i) H) as [Hlt|(_ & Hle)]; cbn in *; lia.
Qed.

Lemma NoDup_app_intro {A} (a b : list A) :
  NoDup a -> NoDup b -> (forall x, In x a -> In x b -> False) -> NoDup (a ++ b).
Proof.
  induction 1 as [|x a Hx _ IH]; intros Nb Hd; cbn [app]; [exact Nb|].
  constructor.
  - intro Hin. apply in_app_or in Hin. destruct Hin as [Hin|Hin]; [contradiction|].
    exact (Hd x (or_introl eq_refl) Hin).
  - apply IH; [exact Nb|]. intros y Hy. apply Hd. right. exact Hy.
Qed.

Lemma flat_map_nodup {K A} (pool : K -> list A) : forall ks,
  NoDup ks -> (forall k, NoDup (pool k)) ->
  (forall k k' x, k <> k' -> In x (pool k) -> In x (pool k') -> False) ->
  NoDup (flat_map pool ks).
Proof.
  induction ks as [|k ks IH]; intros N Hp Hd; cbn [flat_map]; [constructor|].
  inversion N as [|? ? Hk Nk]; subst.
  apply NoDup_app_intro; [apply Hp|exact (IH Nk Hp Hd)|].
  intros x Hx Hin. apply in_flat_map in Hin. destruct Hin as (k' & Hk' & Hx').
  apply (Hd k k' x); try assumption. intro E. subst k'. contradiction.
Qed.

(* every skeleton of the resume path accepted by the checker (no seeding call) : over ANY history of
   refills and resumes, with pools that are internally distinct and pairwise disjoint (fresh draws),
   no point is offered twice - the freshness hypothesis of C01's InvD holds across resumes          *)
Theorem resume_seed_sound {A} (calls : list seedcall) (pool : nat * nat -> list A) (h : list hev) :
  resume_seed_ok calls = true ->
  (forall k, NoDup (pool k)) ->
  (forall k k' x, k <> k' -> In x (pool k) -> In x (pool k') -> False) ->
  NoDup (offered pool (reseeds calls) h).
Proof.
  unfold resume_seed_ok. intros H Hp Hd. apply negb_true_iff in H. rewrite H.
  unfold offered. apply flat_map_nodup; [apply pools_nodup|exact Hp|exact Hd].
Qed.

(* the variant that seeds on resume, refuted: two interruptions, the second refill after a resume
   is the first one again, and through C01's [run] the live set ends with duplicated points         *)
Lemma reseed_refuted :
  resume_seed_ok [SeedConfigure] = false
  /\ pools_from true 0 0 rs_history = [(0, 0); (1, 0); (1, 0)]%nat
  /\ rs_live_after true = [20; 20; 21; 21]%Z /\ nodupb (rs_live_after true) = false
  /\ nodupb (rs_live_after false) = true.
Proof. vm_compute. repeat split. Qed.

(* ---- every attribute the populate path reads survives pickle + resume ------------------------------ *)
Theorem fields_sound (dropped read restored : list string) :
  fields_ok dropped read restored = true ->
  forall (st : fstore) f, In f read -> st f = true -> pickle_resume dropped restored st f = true.
Proof.
  unfold fields_ok. rewrite forallb_forall. intros H st f Hin Hst. specialize (H f Hin).
  unfold pickle_resume. destruct (smem f restored); [reflexivity|].
  destruct (smem f dropped); [discriminate|exact Hst].
Qed.

Lemma fields_refuted :
  fields_ok ["training_data"%string] ["training_data"%string] [] = false
  /\ pickle_resume ["training_data"%string] [] (fun _ => true) "training_data"%string = false.
Proof. split; reflexivity. Qed.

(* ---- the importance sampler refuses mid-iteration checkpoints -------------------------------- *)
Theorem ins_intact {FS} (write touch : FS -> FS) : forall effs fs,
  ins_ckpt_ok effs = true -> irun write touch effs false fs = fs.
Proof.
  induction effs as [|e r IH]; intros fs H; cbn [ins_ckpt_ok] in H; [discriminate|].
  destruct e; try discriminate; cbn [irun negb].
  - reflexivity.
  - exact (IH fs H).
Qed.

Lemma ins_today_ok : ins_ckpt_ok ins_ckpt_today = true.
Proof. reflexivity. Qed.
