(* C09 - lemmas about the population pipelines of Model/C09_Pool.v.
   Everything about acceptance is proved for an ARBITRARY finite-float subtraction [sub_fin]. *)
From Coq Require Import List ZArith Bool Arith Lia ZifyBool Permutation.
Import ListNotations.
From NessaiV Require Import Model.C09_Pool.

(* ---- IEEE facts that do not depend on the finite case ------------------------------------------------- *)
Section Sub.
Variable sub_fin : Z -> Z -> Z -> Z -> ext.
Notation fsub := (fsub sub_fin).

Lemma fsub_fin_args : forall a b, is_fin (fsub a b) = true -> is_fin a = true /\ is_fin b = true.
Proof. intros [| | |m1 e1] [| | |m2 e2]; simpl; intros H; try discriminate; auto. Qed.

Lemma gt_nan_l : forall u, gt NaN u = false.
Proof. reflexivity. Qed.
Lemma gt_ninf_l : forall u, gt NInf u = false.
Proof. intros [| | |m e]; reflexivity. Qed.
Lemma gt_pinf_r_false : forall a, gt a PInf = false.
Proof. intros [| | |m e]; reflexivity. Qed.
Lemma ge_nan_l : forall u, ge NaN u = false.
Proof. reflexivity. Qed.

(* +inf absorbs ndarray.max up to NaN, and np.nanmax completely *)
Definition nan_or_pinf (x : ext) : Prop := x = NaN \/ x = PInf.
Lemma max2_pinf_l : forall a b, nan_or_pinf a -> nan_or_pinf (max2 a b).
Proof. intros a b [->| ->]; destruct b; simpl; unfold nan_or_pinf; auto. Qed.
Lemma max2_pinf_r : forall a, nan_or_pinf (max2 a PInf).
Proof. intros [| | |m e]; simpl; unfold nan_or_pinf; auto. Qed.
Lemma fold_max2_absorb : forall r x, nan_or_pinf x -> nan_or_pinf (fold_left max2 r x).
Proof. induction r as [|y r IH]; intros x H; cbn [fold_left]; auto. apply IH. apply max2_pinf_l; exact H. Qed.
Lemma fold_max2_pinf : forall r x, In PInf r -> nan_or_pinf (fold_left max2 r x).
Proof.
  induction r as [|y r IH]; intros x H; cbn [fold_left In] in *; [contradiction|].
  destruct H as [->|H]; [apply fold_max2_absorb, max2_pinf_r | apply IH; exact H].
Qed.
Lemma np_max_pinf : forall l m, np_max l = Some m -> In PInf l -> nan_or_pinf m.
Proof.
  intros [|x r] m H Hin; cbn [np_max In] in *; [discriminate|]. injection H as <-.
  destruct Hin as [->|Hin]; [apply fold_max2_absorb; right; reflexivity | apply fold_max2_pinf; exact Hin].
Qed.

Lemma nanmax2_pinf_l : forall b, nanmax2 PInf b = PInf.
Proof. intros [| | |m e]; reflexivity. Qed.
Lemma nanmax2_pinf_r : forall a, nanmax2 a PInf = PInf.
Proof. intros [| | |m e]; reflexivity. Qed.
Lemma fold_nanmax2_absorb : forall r, fold_left nanmax2 r PInf = PInf.
Proof. induction r as [|y r IH]; cbn [fold_left]; auto. rewrite nanmax2_pinf_l. exact IH. Qed.
Lemma fold_nanmax2_pinf : forall r x, In PInf r -> fold_left nanmax2 r x = PInf.
Proof.
  induction r as [|y r IH]; intros x H; cbn [fold_left In] in *; [contradiction|].
  destruct H as [->|H]; [rewrite nanmax2_pinf_r; apply fold_nanmax2_absorb | apply IH; exact H].
Qed.
Lemma np_nanmax_pinf : forall l m, np_nanmax l = Some m -> In PInf l -> m = PInf.
Proof.
  intros [|x r] m H Hin; cbn [np_nanmax In] in *; [discriminate|]. injection H as <-.
  destruct Hin as [->|Hin]; [apply fold_nanmax2_absorb | apply fold_nanmax2_pinf; exact Hin].
Qed.

(* the acceptance tests: whatever the maximum is, a weight that passes is a finite number *)
Lemma gt_accept_fin : forall w m u, (w = PInf -> nan_or_pinf m) -> gt (fsub w m) u = true -> is_fin w = true.
Proof.
  intros w m u Hp H. destruct w as [| | |mw ew]; [exfalso|exfalso|exfalso|reflexivity].
  - simpl in H. discriminate.
  - destruct m; destruct u; simpl in H; discriminate.
  - destruct (Hp eq_refl) as [->| ->]; simpl in H; discriminate.
Qed.
Lemma ge_accept_fin : forall w m u, (w = PInf -> m = PInf) -> ge (fsub (fsub w m) u) zero = true -> is_fin w = true.
Proof.
  intros w m u Hp H. destruct w as [| | |mw ew]; [exfalso|exfalso|exfalso|reflexivity].
  - simpl in H. discriminate.
  - destruct m; simpl in H; try discriminate; destruct u; simpl in H; discriminate.
  - rewrite (Hp eq_refl) in H. simpl in H. discriminate.
Qed.
(* with an arbitrary constant (accumulate variant): a passing weight is finite or +inf *)
Lemma gt_accept_not_low : forall w c u, gt (fsub w c) u = true -> is_fin w = true \/ w = PInf.
Proof.
  intros w c u H. destruct w as [| | |mw ew]; [exfalso|exfalso|right; reflexivity|left; reflexivity].
  - simpl in H. discriminate.
  - destruct c; destruct u; simpl in H; discriminate.
Qed.
Lemma weight_fin_prior : forall p q, is_fin (fsub p q) = true -> is_fin p = true.
Proof. intros p q H. apply (fsub_fin_args p q H). Qed.
Lemma weight_pinf_prior : forall p q, fsub p q = PInf -> p <> PInf -> is_fin p = true.
Proof. intros [| | |mp ep] [| | |mq eq]; simpl; intros H Hn; try discriminate; auto; congruence. Qed.

(* ---- survivors ------------------------------------------------------------------------------------------ *)
Definition good (c : cand) : Prop := inb c = true /\ is_fin (lp c) = true /\ is_fin (lq c) = true.

Lemma survivors_spec : forall minlq b c q, In (c, q) (survivors sub_fin minlq b) ->
  In c b /\ is_fin (lq c) = true /\ inb c = true /\ q = fsub (lq c) (lj c).
Proof.
  intros minlq b c q H. unfold survivors in H.
  assert (H' : In (c, q) (filter (fun p => inb (fst p))
                 (map (fun c => (c, fsub (lq c) (lj c))) (filter (fun c => is_fin (lq c)) b)))).
  { destruct minlq; [apply filter_In in H; tauto | exact H]. }
  apply filter_In in H'. destruct H' as [H1 H2]. apply in_map_iff in H1.
  destruct H1 as [c' [E H1]]. injection E as -> <-. apply filter_In in H1. simpl in H2. tauto.
Qed.

Lemma accept_gt_spec : forall m sv us c, In c (accept_gt sub_fin m sv (weights sub_fin sv) us) ->
  exists q u, In (c, q) sv /\ gt (fsub (fsub (lp c) q) m) u = true.
Proof.
  induction sv as [|[c0 q0] sv IH]; intros us c H; simpl in H; [contradiction|].
  destruct us as [|u us]; [contradiction|].
  destruct (gt (fsub (fsub (lp c0) q0) m) u) eqn:E.
  - destruct H as [<-|H]; [exists q0, u; split; [left; reflexivity|exact E]|].
    destruct (IH us c H) as [q [u' [H1 H2]]]. exists q, u'. split; [right; exact H1|exact H2].
  - destruct (IH us c H) as [q [u' [H1 H2]]]. exists q, u'. split; [right; exact H1|exact H2].
Qed.

Lemma in_weights : forall sv c q, In (c, q) sv -> In (fsub (lp c) q) (weights sub_fin sv).
Proof. intros sv c q H. unfold weights. apply in_map_iff. exists (c, q). split; [reflexivity|exact H]. Qed.

Lemma plain_batch_good : forall minlq b acc, plain_batch sub_fin minlq b = Some acc ->
  Forall (fun c => good c /\ In c (cands b)) acc.
Proof.
  intros minlq b acc H. unfold plain_batch in H.
  destruct (np_max (weights sub_fin (survivors sub_fin minlq (cands b)))) as [m|] eqn:Em; [|discriminate].
  injection H as <-. apply Forall_forall. intros c Hc.
  destruct (accept_gt_spec _ _ _ _ Hc) as [q [u [Hin Hgt]]].
  destruct (survivors_spec _ _ _ _ Hin) as [Hb [Hq [Hi _]]].
  assert (Hw : is_fin (fsub (lp c) q) = true).
  { apply (gt_accept_fin _ m u); [|exact Hgt]. intros E. apply (np_max_pinf _ _ Em). rewrite <- E.
    apply in_weights. exact Hin. }
  split; [|exact Hb]. split; [exact Hi|]. split; [apply (weight_fin_prior _ _ Hw)|exact Hq].
Qed.

(* ---- plain loop ------------------------------------------------------------------------------------------- *)
Lemma In_firstn' : forall {A} n (l : list A) x, In x (firstn n l) -> In x l.
Proof. induction n; intros [|y l] x H; simpl in *; try contradiction. destruct H; auto. Qed.
Lemma Forall_firstn' : forall {A} (P : A -> Prop) n l, Forall P l -> Forall P (firstn n l).
Proof. intros A P n l H. apply Forall_forall. intros x Hx. apply (proj1 (Forall_forall P l) H). eapply In_firstn'; eauto. Qed.

Definition all_cands (bs : list batch) : list cand := concat (map cands bs).

Lemma plain_loop_inv : forall strict minlq N bs filled nacc out n k (P : cand -> Prop),
  (forall b c, In b bs -> good c -> In c (cands b) -> P c) ->
  Forall P filled -> length filled = Nat.min N nacc ->
  plain_loop sub_fin strict minlq N filled nacc bs = Done (out, n, k) ->
  Forall P out /\ length out = N /\ N <= n.
Proof.
  induction bs as [|b r IH]; intros filled nacc out n k P HP HF HL H; simpl in H.
  - destruct (N <=? nacc) eqn:E; [|discriminate]. injection H as <- <- <-. apply Nat.leb_le in E.
    split; [exact HF|]. split; lia.
  - destruct (N <=? nacc) eqn:E.
    + injection H as <- <- <-. apply Nat.leb_le in E. split; [exact HF|]. split; lia.
    + apply Nat.leb_gt in E.
      destruct (raises_index strict b); [discriminate|].
      assert (HP' : forall b0 c, In b0 r -> good c -> In c (cands b0) -> P c).
      { intros b0 c Hb. apply HP. right; exact Hb. }
      destruct (plain_batch sub_fin minlq b) as [acc|] eqn:Eb.
      * apply (IH _ _ _ _ _ P HP') in H; auto.
        -- apply Forall_app. split; [exact HF|]. apply Forall_firstn'.
           eapply Forall_impl; [|apply (plain_batch_good _ _ _ Eb)].
           intros c [Hg Hc]. apply (HP b c); auto. left; reflexivity.
        -- rewrite app_length, firstn_length. lia.
      * apply (IH _ _ _ _ _ P HP') in H; auto.
Qed.

Lemma flow_populate_spec : forall strict minlq N bs pool k,
  flow_populate sub_fin strict minlq N bs = Done (pool, k) ->
  Forall (fun c => good c /\ In c (all_cands bs)) pool /\ length pool = N.
Proof.
  intros strict minlq N bs pool k H. unfold flow_populate in H.
  destruct (plain_loop sub_fin strict minlq N [] 0 bs) as [[[filled n] u]| |] eqn:E; try discriminate.
  injection H as <- <-.
  apply (plain_loop_inv _ _ _ _ _ _ _ _ _ (fun c => good c /\ In c (all_cands bs))) in E.
  - destruct E as [HF [HL _]]. split; [apply Forall_firstn'; exact HF|]. rewrite firstn_length. lia.
  - intros b c Hb Hg Hc. split; [exact Hg|]. unfold all_cands. apply in_concat. exists (cands b).
    split; [apply in_map; exact Hb|exact Hc].
  - constructor.
  - simpl. lia.
Qed.

(* ---- accumulate variant ---------------------------------------------------------------------------------------- *)
Lemma select_In : forall {A} mask (l : list A) x, In x (select mask l) -> In x l.
Proof.
  induction mask as [|[|] mask IH]; intros [|y l] x H; simpl in *; try contradiction.
  - destruct H; auto.
  - right. apply IH. exact H.
Qed.
Lemma select_length : forall {A} mask (l : list A), length mask = length l -> length (select mask l) = count_true mask.
Proof.
  induction mask as [|[|] mask IH]; intros [|y l] H; simpl in *; try discriminate; auto;
    unfold count_true in *; simpl; try f_equal; apply IH; lia.
Qed.
Lemma mask_gt_length : forall c lw us, length us = length lw -> length (mask_gt sub_fin c lw us) = length lw.
Proof. induction lw as [|w lw IH]; intros [|u us] H; simpl in *; try discriminate; auto. Qed.

(* pairs (candidate, weight) selected by a mask computed with constant c *)
Lemma select_mask_gt : forall c (l : list cand) lw us x,
  length lw = length l -> In x (select (mask_gt sub_fin c lw us) l) ->
  exists w u, In (x, w) (combine l lw) /\ gt (fsub w c) u = true.
Proof.
  induction l as [|y l IH]; intros [|w lw] us x HL H; simpl in *; try discriminate.
  - destruct (mask_gt sub_fin c [] us); contradiction.
  - destruct us as [|u us]; simpl in H; [contradiction|].
    destruct (gt (fsub w c) u) eqn:E.
    + destruct H as [<-|H]; [exists w, u; split; [left; reflexivity|exact E]|].
      destruct (IH lw us x) as [w' [u' [H1 H2]]]; auto. exists w', u'. split; [right; exact H1|exact H2].
    + destruct (IH lw us x) as [w' [u' [H1 H2]]]; auto. exists w', u'. split; [right; exact H1|exact H2].
Qed.

(* invariant of the accumulated arrays: every stored pair is a survivor with its weight *)
Definition pair_ok (all : list batch) (p : cand * ext) : Prop :=
  exists q, In (fst p) (all_cands all) /\ inb (fst p) = true /\ is_fin (lq (fst p)) = true /\
            snd p = fsub (lp (fst p)) q.
Definition passed (pairs : list (cand * ext)) (x : cand) : Prop :=
  exists w c u, In (x, w) pairs /\ gt (fsub w c) u = true.

Lemma combine_survivors : forall minlq b,
  combine (map fst (survivors sub_fin minlq b)) (weights sub_fin (survivors sub_fin minlq b))
  = map (fun p => (fst p, fsub (lp (fst p)) (snd p))) (survivors sub_fin minlq b).
Proof. intros. unfold weights. induction (survivors sub_fin minlq b) as [|[c q] l IH]; simpl; [reflexivity|]. f_equal. exact IH. Qed.

Lemma combine_app' : forall {A B} (l1 l2 : list A) (m1 m2 : list B), length l1 = length m1 ->
  combine (l1 ++ l2) (m1 ++ m2) = combine l1 m1 ++ combine l2 m2.
Proof. induction l1; intros l2 [|y m1] m2 H; simpl in *; try discriminate; auto. f_equal. apply IHl1. lia. Qed.

Record ainv (all : list batch) (N : nat) (s : astate) : Prop := {
  ai_len : length (a_lw s) = length (a_samples s);
  ai_pairs : Forall (pair_ok all) (combine (a_samples s) (a_lw s));
  ai_mask : forall mk, a_accept s = Some mk ->
            length mk <= length (a_samples s) /\
            (length mk = length (a_samples s) ->
             forall x, In x (select mk (a_samples s)) -> passed (combine (a_samples s) (a_lw s)) x);
  ai_done : N <= a_nacc s ->
            (a_accept s = None /\ a_samples s = [] /\ N = 0) \/
            (exists mk, a_accept s = Some mk /\ length mk = length (a_samples s) /\ a_nacc s = count_true mk)
}.

Lemma np_nanmax_nonempty : forall l m, np_nanmax l = Some m -> 1 <= length l.
Proof. intros [|x r] m H; simpl in *; [discriminate|lia]. Qed.

Lemma acc_loop_inv : forall strict minlq N maxs all bs s s' normal k,
  (forall b, In b bs -> In b all) ->
  ainv all N s -> acc_loop sub_fin strict minlq N maxs s bs = Done (s', normal, k) ->
  ainv all N s' /\ (normal = true -> N <= a_nacc s').
Proof.
  induction bs as [|b r IH]; intros s s' normal k Hsub Hinv H; simpl in H.
  - destruct (N <=? a_nacc s) eqn:E; [|discriminate]. injection H as <- <- <-. apply Nat.leb_le in E. auto.
  - destruct (N <=? a_nacc s) eqn:E.
    + injection H as <- <- <-. apply Nat.leb_le in E. auto.
    + apply Nat.leb_gt in E.
      destruct (raises_index strict b); [discriminate|].
      assert (Hsub' : forall b0, In b0 r -> In b0 all) by (intros b0 Hb; apply Hsub; right; exact Hb).
      destruct (np_nanmax (weights sub_fin (survivors sub_fin minlq (cands b)))) as [m|] eqn:Em.
      * destruct (attempt b && negb (length (us b) =? length (a_lw s ++ weights sub_fin (survivors sub_fin minlq (cands b)))))
          eqn:Eg; [discriminate|].
        apply np_nanmax_nonempty in Em.
        set (sv := survivors sub_fin minlq (cands b)) in *.
        assert (Hlen : length (a_lw s ++ weights sub_fin sv) = length (a_samples s ++ map fst sv)).
        { rewrite !app_length. unfold weights. rewrite !map_length. rewrite (ai_len _ _ _ Hinv). reflexivity. }
        assert (Hgrow : length (a_samples s) < length (a_samples s ++ map fst sv)).
        { rewrite app_length, map_length. unfold weights in Em. rewrite map_length in Em. lia. }
        assert (Hpairs : Forall (pair_ok all) (combine (a_samples s ++ map fst sv) (a_lw s ++ weights sub_fin sv))).
        { rewrite combine_app' by (symmetry; apply (ai_len _ _ _ Hinv)). apply Forall_app. split; [apply (ai_pairs _ _ _ Hinv)|].
          unfold sv. rewrite combine_survivors. apply Forall_forall. intros p Hp. apply in_map_iff in Hp.
          destruct Hp as [[c q] [<- Hp]]. destruct (survivors_spec _ _ _ _ Hp) as [Hb [Hq [Hi _]]].
          exists q. simpl. split; [|auto]. unfold all_cands. apply in_concat. exists (cands b). split; [|exact Hb].
          apply in_map. apply Hsub. left; reflexivity. }
        destruct (attempt b) eqn:Ea.
        -- simpl in Eg. apply negb_false_iff in Eg. apply Nat.eqb_eq in Eg.
           match type of H with context [acc_loop _ _ _ _ _ ?S r] => set (s1 := S) in * end.
           assert (Hml : length (mask_gt sub_fin (py_max m (a_const s)) (a_lw s ++ weights sub_fin sv) (us b))
                         = length (a_samples s ++ map fst sv)).
           { rewrite mask_gt_length by exact Eg. exact Hlen. }
           assert (Hinv1 : ainv all N s1).
           { constructor; simpl; auto.
             - intros mk Hmk. injection Hmk as <-. split; [lia|]. intros _ x Hx.
               destruct (select_mask_gt _ _ _ _ _ Hlen Hx) as [w [u [H1 H2]]]. exists w, (py_max m (a_const s)), u. auto.
             - intros _. right. eexists. split; [reflexivity|]. split; [exact Hml|reflexivity]. }
           destruct (maxs <? a_nprop s + length (cands b)) eqn:Ex.
           ++ injection H as <- <- <-. split; [exact Hinv1|discriminate].
           ++ apply (IH _ _ _ _ Hsub' Hinv1 H).
        -- match type of H with context [acc_loop _ _ _ _ _ ?S r] => set (s1 := S) in * end.
           assert (Hinv1 : ainv all N s1).
           { constructor; simpl; auto.
             - intros mk Hmk. destruct (ai_mask _ _ _ Hinv mk Hmk) as [Hle _]. split; [lia|]. intros Heq. lia.
             - intros Hd. lia. }
           destruct (maxs <? a_nprop s + length (cands b)) eqn:Ex.
           ++ injection H as <- <- <-. split; [exact Hinv1|discriminate].
           ++ apply (IH _ _ _ _ Hsub' Hinv1 H).
      * match type of H with context [acc_loop _ _ _ _ _ ?S r] => set (s1 := S) in * end.
        assert (Hinv1 : ainv all N s1).
        { constructor; simpl; [apply (ai_len _ _ _ Hinv)|apply (ai_pairs _ _ _ Hinv)|apply (ai_mask _ _ _ Hinv)|intros Hd; lia]. }
        apply (IH _ _ _ _ Hsub' Hinv1 H).
Qed.

Lemma ainv0 : forall all N, ainv all N astate0.
Proof.
  intros. constructor; simpl; auto.
  - intros mk Hmk. discriminate.
  - intros H. left. repeat split; auto. lia.
Qed.

Lemma final_mask_selected : forall all N s fus x,
  ainv all N s -> (needs_redraw s && negb (length fus =? length (a_lw s))) = false ->
  In x (select (final_mask sub_fin s fus) (a_samples s)) -> passed (combine (a_samples s) (a_lw s)) x.
Proof.
  intros all N s fus x Hinv Hr Hx. unfold final_mask, needs_redraw in *.
  destruct (a_accept s) as [mk|] eqn:Ea.
  - destruct (length mk =? length (a_samples s)) eqn:El.
    + apply Nat.eqb_eq in El. destruct (ai_mask _ _ _ Hinv mk Ea) as [_ Hm]. apply Hm; auto.
    + destruct (select_mask_gt _ _ _ _ _ (ai_len _ _ _ Hinv) Hx) as [w [u [H1 H2]]]. exists w, (a_const s), u. auto.
  - destruct (select_mask_gt _ _ _ _ _ (ai_len _ _ _ Hinv) Hx) as [w [u [H1 H2]]]. exists w, (a_const s), u. auto.
Qed.

Lemma acc_populate_spec : forall strict minlq N maxs bs fus pool normal k,
  acc_populate sub_fin strict minlq N maxs bs fus = Done (pool, normal, k) ->
  Forall (fun c => In c (all_cands bs) /\ inb c = true /\ is_fin (lq c) = true /\
                   (lp c <> PInf -> is_fin (lp c) = true)) pool
  /\ length pool <= N /\ (normal = true -> length pool = N).
Proof.
  intros strict minlq N maxs bs fus pool normal k H. unfold acc_populate in H.
  destruct (acc_loop sub_fin strict minlq N maxs astate0 bs) as [[[s nm] u]| |] eqn:E; try discriminate.
  destruct (needs_redraw s && negb (length fus =? length (a_lw s))) eqn:Er; [discriminate|].
  injection H as <- <- <-.
  destruct (acc_loop_inv _ _ _ _ bs _ _ _ _ _ (fun b Hb => Hb) (ainv0 bs N) E) as [Hinv Hn].
  split; [|split].
  - apply Forall_firstn'. apply Forall_forall. intros x Hx.
    destruct (final_mask_selected _ _ _ _ _ Hinv Er Hx) as [w [c [u0 [Hin Hgt]]]].
    pose proof (proj1 (Forall_forall _ _) (ai_pairs _ _ _ Hinv) _ Hin) as [q [H1 [H2 [H3 H4]]]]. simpl in *.
    repeat split; auto. intros Hp.
    destruct (gt_accept_not_low _ _ _ Hgt) as [Hf|Hf].
    + rewrite H4 in Hf. apply (weight_fin_prior _ _ Hf).
    + rewrite H4 in Hf. apply (weight_pinf_prior _ _ Hf Hp).
  - rewrite firstn_length. lia.
  - intros Hnm. specialize (Hn Hnm). rewrite firstn_length.
    destruct (ai_done _ _ _ Hinv Hn) as [[_ [_ HN]]|[mk [Ha [Hl Hc]]]]; [lia|].
    unfold final_mask. rewrite Ha. rewrite (proj2 (Nat.eqb_eq _ _) Hl). rewrite (select_length _ _ Hl). lia.
Qed.

(* ---- rejection proposal -------------------------------------------------------------------------------------- *)
Lemma accept_ge_spec : forall m cs us c, In c (accept_ge sub_fin m cs (rej_weights sub_fin cs) us) ->
  exists u, In c cs /\ ge (fsub (fsub (fsub (lp c) (lq c)) m) u) zero = true.
Proof.
  induction cs as [|c0 cs IH]; intros us c H; simpl in H; [contradiction|].
  destruct us as [|u us]; [contradiction|].
  destruct (ge (fsub (fsub (fsub (lp c0) (lq c0)) m) u) zero) eqn:E.
  - destruct H as [<-|H]; [exists u; split; [left; reflexivity|exact E]|].
    destruct (IH us c H) as [u' [H1 H2]]. exists u'. split; [right; exact H1|exact H2].
  - destruct (IH us c H) as [u' [H1 H2]]. exists u'. split; [right; exact H1|exact H2].
Qed.
Lemma accept_ge_length : forall m cs lw us, length (accept_ge sub_fin m cs lw us) <= length cs.
Proof.
  induction cs as [|c cs IH]; intros [|w lw] [|u us]; simpl; try lia.
  destruct (ge _ _); simpl; specialize (IH lw us); lia.
Qed.
Lemma rej_populate_spec : forall cs us pool, rej_populate sub_fin cs us = Some pool ->
  Forall (fun c => In c cs /\ is_fin (lp c) = true) pool /\ length pool <= length cs.
Proof.
  intros cs us pool H. unfold rej_populate in H.
  destruct (np_nanmax (rej_weights sub_fin cs)) as [m|] eqn:Em; [|discriminate]. injection H as <-.
  split; [|apply accept_ge_length].
  apply Forall_forall. intros c Hc. destruct (accept_ge_spec _ _ _ _ Hc) as [u [Hin Hge]]. split; [exact Hin|].
  apply (weight_fin_prior _ (lq c)). apply (ge_accept_fin _ m u); [|exact Hge].
  intros Ep. apply (np_nanmax_pinf _ _ Em). rewrite <- Ep. unfold rej_weights. apply in_map_iff. exists c. auto.
Qed.
End Sub.

(* ---- fill loops ---------------------------------------------------------------------------------------------------- *)
Section FillP.
Context {A : Type}.
Variable keep : A -> bool.
Lemma fill_loop_spec : forall N bs out res k,
  length out <= N -> Forall (fun x => keep x = true) out -> (forall x, In x out -> In x (out ++ concat bs)) ->
  fill_loop keep N out bs = Some (res, k) ->
  length res = N /\ Forall (fun x => keep x = true /\ In x (out ++ concat bs)) res.
Proof.
  induction bs as [|b r IH]; intros out res k HL HF _ H; simpl in H.
  - destruct (N <=? length out) eqn:E; [|discriminate]. injection H as <- <-. apply Nat.leb_le in E. split; [lia|].
    apply Forall_forall. intros x Hx. split; [apply (proj1 (Forall_forall _ _) HF x Hx)|apply in_or_app; left; exact Hx].
  - destruct (N <=? length out) eqn:E.
    + injection H as <- <-. apply Nat.leb_le in E. split; [lia|].
      apply Forall_forall. intros x Hx. split; [apply (proj1 (Forall_forall _ _) HF x Hx)|apply in_or_app; left; exact Hx].
    + apply Nat.leb_gt in E. apply IH in H.
      * destruct H as [H1 H2]. split; [exact H1|]. eapply Forall_impl; [|exact H2]. intros x [Hk Hx]. split; [exact Hk|].
        simpl. apply in_app_or in Hx. destruct Hx as [Hx|Hx].
        -- apply in_app_or in Hx. destruct Hx as [Hx|Hx]; [apply in_or_app; left; exact Hx|].
           apply in_or_app; right. apply in_or_app; left. apply In_firstn' in Hx. apply filter_In in Hx. tauto.
        -- apply in_or_app; right. apply in_or_app; right. exact Hx.
      * rewrite app_length, firstn_length. lia.
      * apply Forall_app. split; [exact HF|]. apply Forall_firstn'. apply Forall_forall. intros x Hx.
        apply filter_In in Hx. tauto.
      * intros x Hx. apply in_or_app; left; exact Hx.
Qed.
Lemma cat_loop_spec : forall N bs out res k,
  Forall (fun x => keep x = true) out ->
  cat_loop keep N out bs = Some (res, k) ->
  length res = N /\ Forall (fun x => keep x = true /\ In x (out ++ concat bs)) res.
Proof.
  induction bs as [|b r IH]; intros out res k HF H; simpl in H.
  - destruct (N <=? length out) eqn:E; [|discriminate]. injection H as <- <-. apply Nat.leb_le in E.
    split; [rewrite firstn_length; lia|]. apply Forall_firstn'. apply Forall_forall. intros x Hx.
    split; [apply (proj1 (Forall_forall _ _) HF x Hx)|apply in_or_app; left; exact Hx].
  - destruct (N <=? length out) eqn:E.
    + injection H as <- <-. apply Nat.leb_le in E.
      split; [rewrite firstn_length; lia|]. apply Forall_firstn'. apply Forall_forall. intros x Hx.
      split; [apply (proj1 (Forall_forall _ _) HF x Hx)|apply in_or_app; left; exact Hx].
    + apply IH in H.
      * destruct H as [H1 H2]. split; [exact H1|]. eapply Forall_impl; [|exact H2]. intros x [Hk Hx]. split; [exact Hk|].
        simpl. apply in_app_or in Hx. destruct Hx as [Hx|Hx].
        -- apply in_app_or in Hx. destruct Hx as [Hx|Hx]; [apply in_or_app; left; exact Hx|].
           apply in_or_app; right. apply in_or_app; left. apply filter_In in Hx. tauto.
        -- apply in_or_app; right. apply in_or_app; right. exact Hx.
      * apply Forall_app. split; [exact HF|]. apply Forall_forall. intros x Hx. apply filter_In in Hx. tauto.
Qed.
End FillP.

Lemma new_points_spec : forall N bs out k, new_points N bs = Some (out, k) ->
  length out = N /\ Forall (fun c => is_fin (lp c) = true /\ In c (concat bs)) out.
Proof.
  intros N bs out k H. unfold new_points in H. apply fill_loop_spec in H; simpl; auto; [lia|intros x []].
Qed.
Lemma ins_draw_spec : forall N bs out k, ins_draw N bs = Some (out, k) ->
  length out = N /\ Forall (fun c => (inb c = true /\ is_fin (lp c) = true) /\ In c (concat bs)) out.
Proof.
  intros N bs out k H. unfold ins_draw in H. apply cat_loop_spec in H; simpl; auto.
  destruct H as [H1 H2]. split; [exact H1|]. eapply Forall_impl; [|exact H2]. intros c [Hk Hc]. split; [|exact Hc].
  unfold ins_keep in Hk. apply andb_true_iff in Hk. destruct Hk as [Hk _]. apply andb_true_iff in Hk. tauto.
Qed.

Lemma ins_from_flows_spec : forall cs,
  Forall (fun c => (inb c = true /\ is_fin (lp c) = true) /\ In c cs) (ins_from_flows cs).
Proof.
  intros cs. apply Forall_forall. intros c Hc. unfold ins_from_flows in Hc. apply filter_In in Hc. destruct Hc as [Hin Hk].
  unfold ins_keep in Hk. apply andb_true_iff in Hk. destruct Hk as [Hk _]. apply andb_true_iff in Hk. tauto.
Qed.

(* ---- marginalisation over augment draws ------------------------------------------------------------------------------ *)
Lemma blocks_fuel_concat : forall {A} (n : nat) (gs : list (list A)) (fuel : nat),
  0 < n -> Forall (fun g => length g = n) gs -> length gs <= fuel -> blocks_fuel fuel n (concat gs) = gs.
Proof.
  intros A n gs. induction gs as [|g gs IH]; intros fuel Hn HF HL.
  - destruct fuel; reflexivity.
  - inversion HF as [|? ? Hg HF']; subst. destruct fuel as [|fuel]; [simpl in HL; lia|].
    simpl. destruct (g ++ concat gs) as [|y r] eqn:E.
    + destruct g; [simpl in Hn; lia|discriminate].
    + rewrite <- E. rewrite firstn_app, Nat.sub_diag, firstn_all. simpl. rewrite app_nil_r.
      rewrite skipn_app, Nat.sub_diag, skipn_all. simpl. f_equal. apply IH; auto. simpl in HL. lia.
Qed.
Lemma concat_length_groups : forall {A} (n : nat) (gs : list (list A)),
  Forall (fun g => length g = n) gs -> length (concat gs) = n * length gs.
Proof.
  intros A n gs H. induction H as [|g gs Hg _ IH]; simpl; [lia|]. rewrite app_length, IH, Hg. lia.
Qed.
Lemma blocks_concat : forall {A} (n : nat) (gs : list (list A)),
  0 < n -> Forall (fun g => length g = n) gs -> blocks n (concat gs) = gs.
Proof.
  intros A n gs Hn HF. unfold blocks. apply blocks_fuel_concat; auto.
  rewrite (concat_length_groups n gs HF). nia.
Qed.
(* every point's marginalised value is the reduction over ITS OWN n_marg terms, for any batch and any n_marg >= 1 *)
Lemma marginalise_own_point : forall {X A B} (reduce : list A -> B) (n : nat) (g : X -> list A) (l : list X),
  0 < n -> (forall x, length (g x) = n) ->
  marginalise reduce n (flat_map g l) = map (fun x => reduce (g x)) l.
Proof.
  intros X A B reduce n g l Hn Hg. unfold marginalise. rewrite flat_map_concat_map.
  rewrite blocks_concat; auto.
  - apply map_map.
  - apply Forall_forall. intros y Hy. apply in_map_iff in Hy. destruct Hy as [x [<- _]]. apply Hg.
Qed.
(* the transposed grouping (reshape(n_marg, -1), axis 0) mixes the terms of different points *)
Lemma strided_refuted : exists (n : nat) (l : list nat),
  let terms := flat_map (fun x => map (fun k => 10 * x + k) (seq 0 n)) l in
  blocks n terms = map (fun x => map (fun k => 10 * x + k) (seq 0 n)) l /\
  strided 0 n terms <> map (fun x => map (fun k => 10 * x + k) (seq 0 n)) l.
Proof. exists 2, [1; 2]. vm_compute. split; [reflexivity|discriminate]. Qed.

(* ---- the prior on the augmented space --------------------------------------------------------------------------------- *)
Lemma fold_add_shift : forall (l : list Z) (a : Z), fold_left Z.add l a = (a + fold_left Z.add l 0)%Z.
Proof. induction l as [|x l IH]; intros a; cbn [fold_left]; [lia|]. rewrite (IH (a + x)%Z), (IH (0 + x)%Z). lia. Qed.
(* every augment parameter's factor enters the weight: moving any one of them by d moves the log-prior by d *)
Lemma full_prior_every_factor : forall (m : Z) (es1 : list Z) (e : Z) (es2 : list Z) (d : Z),
  full_prior Z.add 0%Z m (es1 ++ (e + d)%Z :: es2) = (full_prior Z.add 0%Z m (es1 ++ e :: es2) + d)%Z.
Proof.
  intros. unfold full_prior, augmented_prior. rewrite !fold_left_app. cbn [fold_left].
  rewrite (fold_add_shift es2 (fold_left Z.add es1 0 + (e + d))%Z), (fold_add_shift es2 (fold_left Z.add es1 0 + e)%Z). lia.
Qed.
Lemma last_only_prior_refuted : exists (m e1 e2 d : Z), d <> 0%Z /\
  last_only_prior Z.add 0%Z m [(e1 + d)%Z; e2] = last_only_prior Z.add 0%Z m [e1; e2] /\
  full_prior Z.add 0%Z m [(e1 + d)%Z; e2] <> full_prior Z.add 0%Z m [e1; e2].
Proof. exists (-3)%Z, (-1)%Z, (-2)%Z, 5%Z. vm_compute. repeat split; discriminate. Qed.

(* ---- draws ------------------------------------------------------------------------------------------------------------ *)
Fixpoint draws_rev (k : nat) (r : list nat) : list (nat * bool) :=
  match k, r with
  | S k', i :: rest => (i, negb (match rest with [] => true | _ => false end)) :: draws_rev k' rest
  | _, _ => []
  end.
Lemma draws_as_rev : forall k perm, draws k perm = draws_rev k (rev perm).
Proof.
  induction k as [|k IH]; intros perm; simpl; [destruct (rev perm); reflexivity|].
  unfold draw_one. destruct (rev perm) as [|i rest] eqn:E; [reflexivity|].
  rewrite IH, rev_involutive. reflexivity.
Qed.
Lemma draws_rev_fst : forall k r, map fst (draws_rev k r) = firstn k r.
Proof. induction k; intros [|i r]; simpl; auto. f_equal. apply IHk. Qed.
Lemma draws_rev_flag : forall k r j i p, nth_error (draws_rev k r) j = Some (i, p) ->
  p = negb (S j =? length r) /\ nth_error r j = Some i.
Proof.
  induction k; intros [|i0 r] j i p H; simpl in H; try (destruct j; discriminate).
  destruct j as [|j]; simpl in *.
  - injection H as <- <-. split; [|reflexivity]. destruct r; reflexivity.
  - apply IHk in H. destruct H as [H1 H2]. split; [|exact H2]. rewrite H1. reflexivity.
Qed.
Lemma NoDup_firstn : forall {A} n (l : list A), NoDup l -> NoDup (firstn n l).
Proof.
  induction n; intros [|x l] H; simpl; try constructor.
  - inversion H; subst. intros Hx. apply In_firstn' in Hx. contradiction.
  - inversion H; subst. apply IHn; assumption.
Qed.
Lemma draws_spec : forall perm k, NoDup perm ->
  NoDup (map fst (draws k perm)) /\ incl (map fst (draws k perm)) perm /\
  length (draws k perm) = Nat.min k (length perm) /\
  forall j i p, nth_error (draws k perm) j = Some (i, p) -> p = negb (S j =? length perm).
Proof.
  intros perm k H. rewrite draws_as_rev. split; [|split; [|split]].
  - rewrite draws_rev_fst. apply NoDup_firstn. apply NoDup_rev. exact H.
  - rewrite draws_rev_fst. intros x Hx. apply In_firstn' in Hx. apply in_rev. exact Hx.
  - rewrite <- (map_length fst), draws_rev_fst, firstn_length, rev_length. reflexivity.
  - intros j i p Hj. apply draws_rev_flag in Hj. rewrite rev_length in Hj. tauto.
Qed.

Lemma yield_evaluates_sub : forall c f x, In x (yield_evaluates c f) -> x = c /\ lp c <> NInf.
Proof.
  intros c f x H. unfold yield_evaluates in H. destruct (lp c) eqn:E; destruct f; simpl in H; try contradiction;
  destruct H as [<-|[]]; split; auto; discriminate.
Qed.

(* ---- tie A: call sites --------------------------------------------------------------------------------------------------- *)
Lemma apply_masks_sub : forall ms sel l (P : cand -> Prop), Forall P l -> Forall P (apply_masks ms sel l).
Proof.
  induction ms as [|m ms IH]; intros sel l P H; simpl; [exact H|]. apply IH. apply Forall_forall. intros c Hc.
  apply filter_In in Hc. apply (proj1 (Forall_forall _ _) H). tauto.
Qed.
Lemma apply_masks_keeps : forall ms m sel l, In m ms -> Forall (fun c => mask_keeps m c = true) (apply_masks ms sel l).
Proof.
  induction ms as [|m0 ms IH]; intros m sel l H; simpl in *; [contradiction|]. destruct H as [->|H].
  - apply apply_masks_sub. apply Forall_forall. intros c Hc. apply filter_In in Hc. destruct Hc as [_ Hc].
    apply andb_true_iff in Hc. tauto.
  - apply IH. exact H.
Qed.
Lemma site_sound : forall s, site_ok s = true -> s_flagged s = false ->
  forall sel l, Forall (fun c => src_guarantee (s_src s) c = true) l ->
  Forall (fun c => in_support c = true) (apply_masks (s_masks s) sel l).
Proof.
  intros s Hok Hfl sel l Hl. unfold site_ok in Hok. rewrite Hfl in Hok. simpl in Hok.
  apply andb_true_iff in Hok. destruct Hok as [Hb Hp].
  assert (Hinb : Forall (fun c => inb c = true) (apply_masks (s_masks s) sel l)).
  { apply orb_true_iff in Hb. destruct Hb as [Hb|Hb].
    - apply apply_masks_sub. eapply Forall_impl; [|exact Hl]. intros c Hc. unfold src_guarantee in Hc. rewrite Hb in Hc.
      simpl in Hc. apply andb_true_iff in Hc. tauto.
    - apply existsb_exists in Hb. destruct Hb as [m [Hm Hk]]. eapply Forall_impl; [|apply (apply_masks_keeps _ m sel l Hm)].
      intros c Hc. destruct m; simpl in Hk; try discriminate. exact Hc. }
  assert (Hpr : Forall (fun c => is_fin (lp c) = true) (apply_masks (s_masks s) sel l)).
  { apply orb_true_iff in Hp. destruct Hp as [Hp|Hp].
    - apply apply_masks_sub. eapply Forall_impl; [|exact Hl]. intros c Hc. unfold src_guarantee in Hc. rewrite Hp in Hc.
      simpl in Hc. apply andb_true_iff in Hc. tauto.
    - apply existsb_exists in Hp. destruct Hp as [m [Hm Hk]]. eapply Forall_impl; [|apply (apply_masks_keeps _ m sel l Hm)].
      intros c Hc. destruct m; simpl in Hk; try discriminate; exact Hc. }
  apply Forall_forall. intros c Hc. unfold in_support.
  rewrite (proj1 (Forall_forall _ _) Hinb c Hc), (proj1 (Forall_forall _ _) Hpr c Hc). reflexivity.
Qed.
Theorem sites_sound : forall sk, sites_ok sk = true ->
  forall s, In s sk -> s_flagged s = false ->
  forall sel l, Forall (fun c => src_guarantee (s_src s) c = true) l ->
  Forall (fun c => in_support c = true) (apply_masks (s_masks s) sel l).
Proof.
  intros sk H s Hs. apply site_sound. unfold sites_ok in H. apply (proj1 (forallb_forall _ _) H s Hs).
Qed.

(* ---- statements in the form used by Props/C09.v ------------------------------------------------------------------------------- *)
Lemma in_support_iff : forall c, in_support c = true <-> inb c = true /\ is_fin (lp c) = true.
Proof. intros c. unfold in_support. rewrite andb_true_iff. tauto. Qed.

Lemma pool_in_support_plain : forall sub strict minlq N bs pool k,
  flow_populate sub strict minlq N bs = Done (pool, k) ->
  Forall (fun c => In c (concat (map cands bs)) /\ inb c = true /\ is_fin (lp c) = true /\ is_fin (lq c) = true) pool.
Proof.
  intros sub strict minlq N bs pool k H. destruct (flow_populate_spec sub _ _ _ _ _ _ H) as [HF _].
  eapply Forall_impl; [|exact HF]. intros c [[H1 [H2 H3]] H4]. auto.
Qed.
Lemma pool_size_plain : forall sub strict minlq N bs pool k,
  flow_populate sub strict minlq N bs = Done (pool, k) -> length pool = N.
Proof. intros sub strict minlq N bs pool k H. apply (flow_populate_spec sub _ _ _ _ _ _ H). Qed.

Lemma pool_in_support_acc : forall sub strict minlq N maxs bs fus pool normal k,
  acc_populate sub strict minlq N maxs bs fus = Done (pool, normal, k) ->
  (forall c, In c (concat (map cands bs)) -> lp c <> PInf) ->
  Forall (fun c => In c (concat (map cands bs)) /\ inb c = true /\ is_fin (lp c) = true /\ is_fin (lq c) = true) pool.
Proof.
  intros sub strict minlq N maxs bs fus pool normal k H Hp. destruct (acc_populate_spec sub _ _ _ _ _ _ _ _ _ H) as [HF _].
  eapply Forall_impl; [|exact HF]. intros c [H1 [H2 [H3 H4]]]. repeat split; auto.
Qed.
Lemma pool_size_acc : forall sub strict minlq N maxs bs fus pool normal k,
  acc_populate sub strict minlq N maxs bs fus = Done (pool, normal, k) ->
  length pool <= N /\ (normal = true -> length pool = N).
Proof. intros sub strict minlq N maxs bs fus pool normal k H. apply (acc_populate_spec sub _ _ _ _ _ _ _ _ _ H). Qed.

Lemma draws_perm_spec : forall n perm k, Permutation perm (seq 0 n) ->
  NoDup (map fst (draws k perm)) /\ (forall i, In i (map fst (draws k perm)) -> i < n) /\
  length (draws k perm) = Nat.min k n /\
  forall j i p, nth_error (draws k perm) j = Some (i, p) -> p = negb (S j =? n).
Proof.
  intros n perm k HP.
  assert (Hnd : NoDup perm) by (apply (Permutation_NoDup (Permutation_sym HP)); apply seq_NoDup).
  assert (Hlen : length perm = n) by (rewrite (Permutation_length HP); apply seq_length).
  destruct (draws_spec perm k Hnd) as [H1 [H2 [H3 H4]]]. rewrite Hlen in *.
  repeat split; auto. intros i Hi. apply H2 in Hi. apply (Permutation_in _ HP) in Hi. apply in_seq in Hi. lia.
Qed.

(* the accumulate variant really needs "the prior is never +inf": a witness where a +inf prior reaches the pool
   (batch 1: +inf weight; batch 2: all weights NaN, Python's max(nan, inf) = nan; batch 3: the constant restarts) *)
Definition exact_sub (m1 e1 m2 e2 : Z) : ext :=
  let e := Z.min e1 e2 in Fin (m1 * 2 ^ (e1 - e) - m2 * 2 ^ (e2 - e)) e.
Definition w_cand (i : nat) (p : ext) : cand := {| cid := i; lq := Fin 0 0; lj := Fin 0 0; inb := true; lp := p |}.
Definition witness_batches : list batch :=
  [ {| cands := [w_cand 0 PInf]; us := []; attempt := false |};
    {| cands := [w_cand 1 NaN]; us := []; attempt := false |};
    {| cands := [w_cand 2 (Fin 0 0)]; us := [Fin (-1) 0; Fin (-1) 0; Fin (-1) 0]; attempt := true |} ].
Lemma acc_needs_prior_not_pinf :
  exists pool k, acc_populate exact_sub true None 1 1000 witness_batches [] = Done (pool, true, k) /\
                 exists c, In c pool /\ lp c = PInf.
Proof. eexists. eexists. split; [vm_compute; reflexivity|]. eexists. split; [left; reflexivity|reflexivity]. Qed.

(* the pre-fix backward_pass (z not masked): one non-finite flow log-density in a batch aborts a population that the
   repaired code completes *)
Definition z_unmasked_witness : list batch :=
  [ {| cands := [w_cand 0 (Fin (-2) 0);
                 {| cid := 1; lq := NaN; lj := Fin 0 0; inb := true; lp := Fin (-2) 0 |}];
       us := [Fin (-1) 0]; attempt := false |} ].
Lemma backward_pass_z_unmasked_refuted :
  flow_populate exact_sub true None 1 z_unmasked_witness = Raised /\
  flow_populate exact_sub false None 1 z_unmasked_witness = Done ([w_cand 0 (Fin (-2) 0)], 0).
Proof. vm_compute. split; reflexivity. Qed.
