(* C05 - the importance sampler returns exactly the sum of the draws of every level (model of C03) *)
From Coq Require Import Reals List Arith Lia.
From NessaiV Require Import Lib.Enclose Model.C03_Meta.
Import ListNotations.

Section Count.
Variable pt : Type.
Variable q : nat -> pt -> xlog.
Variable logU : pt -> R.

Lemma total_app a b : total (a ++ b) = (total a + total b)%nat.
Proof. induction a as [|x a IH]; cbn [app total fold_right]; [reflexivity|]. fold (total (a ++ b)). fold (total a). rewrite IH. lia. Qed.

Lemma iteration_count s nt ni :
  length (train pt s) = total (counts pt s) ->
  length (train pt (iteration pt q logU s nt ni)) = total (counts pt (iteration pt q logU s nt ni)).
Proof.
  intros H. unfold iteration. cbn [train counts]. rewrite app_length, !map_length, total_app, H.
  cbn [total fold_right]. lia.
Qed.

Lemma run_count pt_t pt_i batches :
  length (train pt (run pt q logU pt_t pt_i batches)) = total (counts pt (run pt q logU pt_t pt_i batches)).
Proof.
  unfold run.
  assert (H0 : length (train pt (initial pt q logU pt_t pt_i)) = total (counts pt (initial pt q logU pt_t pt_i))).
  { unfold initial. cbn [train counts]. rewrite map_length. cbn. lia. }
  revert H0. generalize (initial pt q logU pt_t pt_i).
  induction batches as [|b r IH]; intros s Hs; cbn [fold_left]; [exact Hs|].
  apply IH. now apply iteration_count.
Qed.

(* the independent store receives as many points per level when it is drawn with the same n *)
Lemma run_count_iid pt_t pt_i batches :
  length pt_i = length pt_t -> Forall (fun b => length (snd b) = length (fst b)) batches ->
  length (iid pt (run pt q logU pt_t pt_i batches)) = total (counts pt (run pt q logU pt_t pt_i batches)).
Proof.
  intros H0' Hb. unfold run.
  assert (H0 : length (iid pt (initial pt q logU pt_t pt_i)) = total (counts pt (initial pt q logU pt_t pt_i))).
  { unfold initial. cbn [iid counts]. rewrite map_length. cbn. lia. }
  revert H0. generalize (initial pt q logU pt_t pt_i).
  induction Hb as [|b r Hb1 Hbr IH]; intros s Hs; cbn [fold_left]; [exact Hs|].
  apply IH. unfold iteration. cbn [iid counts]. rewrite app_length, !map_length, total_app, Hs, Hb1.
  cbn [total fold_right]. lia.
Qed.
End Count.
