From Coq Require Import Reals List Bool Arith Lia Lra.
From NessaiV Require Import Lib.Enclose Model.C03_Meta.
Import ListNotations.
Local Open Scope R_scope.

(* ---- weights --------------------------------------------------------------------- *)
Lemma sum_weights_aux (t : R) (cs : list nat) :
  sum_R (map (fun c => INR c / t) cs) = INR (total cs) / t.
Proof.
  induction cs as [|c r IH]; cbn [map sum_R fold_right total].
  - unfold Rdiv. cbn. ring.
  - fold (total r). fold (sum_R (map (fun c0 => INR c0 / t) r)). rewrite IH, plus_INR. unfold Rdiv. ring.
Qed.

Lemma weights_sum_one cs : (0 < total cs)%nat -> sum_R (weights cs) = 1.
Proof.
  intros H. unfold weights. rewrite sum_weights_aux. apply Rinv_r.
  apply not_0_INR. lia.
Qed.

Lemma total_ge c cs : In c cs -> (c <= total cs)%nat.
Proof.
  induction cs as [|d r IH]; [contradiction|]. cbn [total fold_right]. fold (total r).
  intros [->|H]; [lia|]. specialize (IH H). lia.
Qed.

Lemma weights_in_unit cs : (0 < total cs)%nat -> Forall (fun w => 0 <= w <= 1) (weights cs).
Proof.
  intros H. apply Forall_forall. intros w Hw. unfold weights in Hw. apply in_map_iff in Hw.
  destruct Hw as (c & <- & Hc). pose proof (total_ge c cs Hc) as Hle.
  assert (0 < INR (total cs)) by (apply lt_0_INR; lia).
  split.
  - apply Rmult_le_pos; [apply pos_INR|]. left. now apply Rinv_0_lt_compat.
  - apply (Rmult_le_reg_r (INR (total cs))); [assumption|].
    unfold Rdiv. rewrite Rmult_assoc, Rinv_l by lra. rewrite Rmult_1_r, Rmult_1_l. now apply le_INR.
Qed.

Lemma weights_length cs : length (weights cs) = length cs.
Proof. apply map_length. Qed.

(* ---- rows ------------------------------------------------------------------------ *)
Section Rows.
Variable pt : Type.
Variable q : nat -> pt -> xlog.
Variable logU : pt -> R.
Notation row := (row pt).
Notation row_ok := (row_ok pt q logU).
Notation fresh_row := (fresh_row pt q logU).

Lemma fresh_row_ok cs x : row_ok cs (fresh_row cs x).
Proof. unfold row_ok, fresh_row. cbn. repeat split; reflexivity. Qed.

Lemma seq_snoc n : seq 0 (S n) = seq 0 n ++ [n].
Proof. rewrite seq_S. reflexivity. Qed.

Lemma update_row_ok cs n r : row_ok cs r ->
  row_ok (cs ++ [n]) (recompute_W pt logU (recompute_Q pt (cs ++ [n]) (append_col pt q r))).
Proof.
  intros (Hlq & HQ & HW). unfold row_ok. cbn.
  assert (E : rlq pt r ++ [q (length (rlq pt r)) (rp pt r)]
              = map (fun j => q j (rp pt r)) (seq 0 (length (cs ++ [n])))).
  { rewrite app_length. cbn [length]. rewrite Nat.add_1_r, seq_snoc, map_app. cbn [map].
    rewrite Hlq at 1. f_equal. rewrite Hlq, map_length, seq_length. reflexivity. }
  split; [exact E|split; reflexivity].
Qed.

Lemma iteration_inv s nt ni : Inv pt q logU s -> Inv pt q logU (iteration pt q logU s nt ni).
Proof.
  intros [Ht Hi]. unfold Inv, iteration. cbn. split; apply Forall_app; split.
  - apply Forall_forall. intros r Hr. apply in_map_iff in Hr. destruct Hr as (r0 & <- & Hr0).
    apply update_row_ok. exact (proj1 (Forall_forall _ _) Ht r0 Hr0).
  - apply Forall_forall. intros r Hr. apply in_map_iff in Hr. destruct Hr as (x & <- & _). apply fresh_row_ok.
  - apply Forall_forall. intros r Hr. apply in_map_iff in Hr. destruct Hr as (r0 & <- & Hr0).
    apply update_row_ok. exact (proj1 (Forall_forall _ _) Hi r0 Hr0).
  - apply Forall_forall. intros r Hr. apply in_map_iff in Hr. destruct Hr as (x & <- & _). apply fresh_row_ok.
Qed.

Lemma initial_inv pt_t pt_i : Inv pt q logU (initial pt q logU pt_t pt_i).
Proof.
  unfold Inv, initial. cbn. split; apply Forall_forall; intros r Hr; apply in_map_iff in Hr;
    destruct Hr as (x & <- & _); apply fresh_row_ok.
Qed.

Lemma run_inv pt_t pt_i batches : Inv pt q logU (run pt q logU pt_t pt_i batches).
Proof.
  unfold run. generalize (initial_inv pt_t pt_i). generalize (initial pt q logU pt_t pt_i).
  induction batches as [|b r IH]; intros s Hs; cbn [fold_left]; [exact Hs|].
  apply IH. now apply iteration_inv.
Qed.

(* the number of density columns of every row = number of proposals so far = iterations + 1 *)
Lemma fold_counts batches : forall s,
  length (counts pt (fold_left (fun s b => iteration pt q logU s (fst b) (snd b)) batches s))
  = (length (counts pt s) + length batches)%nat.
Proof.
  induction batches as [|b r IH]; intros s; cbn [fold_left length]; [lia|].
  rewrite IH. unfold iteration. cbn. rewrite app_length. cbn. lia.
Qed.

Lemma run_counts pt_t pt_i batches :
  length (counts pt (run pt q logU pt_t pt_i batches)) = S (length batches).
Proof. unfold run. rewrite fold_counts. reflexivity. Qed.

(* ---- verified checker for the order of effects (tie A) ----------------------------------- *)
Variable n_new : nat.
Variable pts_train pts_iid : list pt.
Variable cs0 : list nat.
Let cs1 := cs0 ++ [n_new].

Definition P_old (l : list row) := Forall (fun r => rlq pt r = map (fun j => q j (rp pt r)) (seq 0 (length cs0))) l.
Definition P_cols (l : list row) := Forall (fun r => rlq pt r = map (fun j => q j (rp pt r)) (seq 0 (length cs1))) l.
Definition P_q (l : list row) := Forall (fun r => rlogQ pt r = mix_R (weights cs1) (rlq pt r)) l.
Definition P_w (l : list row) := Forall (fun r => rlogW pt r = logU (rp pt r) - rlogQ pt r) l.

Definition rel_store (wn : bool) (f : flags) (c : cstore pt) : Prop :=
  (cols_old f = true -> P_old (c_rows pt c)) /\
  (cols_ok f = true -> P_cols (c_rows pt c)) /\
  (q_ok f = true -> P_q (c_rows pt c)) /\
  (w_ok f = true -> P_w (c_rows pt c)) /\
  (fresh_ok f = true -> Forall (row_ok cs1) (c_pending pt c)).

Definition rel (a : astate) (c : cstate pt) : Prop :=
  broken a = false ->
  c_counts pt c = (if weights_new a then cs1 else cs0) /\
  rel_store (weights_new a) (a_train a) (c_train pt c) /\
  rel_store (weights_new a) (a_iid a) (c_iid pt c).

Lemma Forall_map_imp {A B} (f : A -> B) (P : A -> Prop) (Q : B -> Prop) l :
  (forall x, P x -> Q (f x)) -> Forall P l -> Forall Q (map f l).
Proof. intros H. induction 1; cbn; constructor; auto. Qed.
Lemma Forall_map_all {A B} (f : A -> B) (Q : B -> Prop) l : (forall x, Q (f x)) -> Forall Q (map f l).
Proof. intros H. induction l; cbn; constructor; auto. Qed.

Lemma b_and a b : a && b = true -> a = true /\ b = true.
Proof. apply andb_prop. Qed.

Lemma rel_store_step wn f c s counts_now :
  (wn = true -> counts_now = cs1) ->
  rel_store wn f c ->
  forall f' c',
    (* the five per-store transitions *)
    ( (f' = {| cols_old := cols_old f; cols_ok := cols_ok f; q_ok := q_ok f; w_ok := w_ok f;
               fresh_ok := wn; drawn := true; inserted := inserted f |} /\
       c' = {| c_rows := c_rows pt c; c_pending := map (fresh_row counts_now) (pts_of pt pts_train pts_iid s) |})
    \/ (f' = {| cols_old := false; cols_ok := cols_old f; q_ok := false; w_ok := false;
                fresh_ok := fresh_ok f; drawn := drawn f; inserted := inserted f |} /\
        c' = {| c_rows := map (append_col pt q) (c_rows pt c); c_pending := c_pending pt c |})
    \/ (f' = {| cols_old := cols_old f; cols_ok := cols_ok f; q_ok := cols_ok f && wn; w_ok := false;
                fresh_ok := fresh_ok f; drawn := drawn f; inserted := inserted f |} /\
        c' = {| c_rows := map (recompute_Q pt counts_now) (c_rows pt c); c_pending := c_pending pt c |})
    \/ (f' = {| cols_old := cols_old f; cols_ok := cols_ok f; q_ok := q_ok f; w_ok := q_ok f;
                fresh_ok := fresh_ok f; drawn := drawn f; inserted := inserted f |} /\
        c' = {| c_rows := map (recompute_W pt logU) (c_rows pt c); c_pending := c_pending pt c |})
    \/ (f' = {| cols_old := false; cols_ok := cols_ok f && fresh_ok f; q_ok := q_ok f && fresh_ok f;
                w_ok := w_ok f && fresh_ok f; fresh_ok := fresh_ok f; drawn := drawn f; inserted := true |} /\
        c' = {| c_rows := c_rows pt c ++ c_pending pt c; c_pending := c_pending pt c |}) ) ->
    rel_store wn f' c'.
Proof.
  intros Hcn (Ho & Hc & Hq & Hw & Hf) f' c' [[-> ->]|[[-> ->]|[[-> ->]|[[-> ->]|[-> ->]]]]];
    unfold rel_store; cbn.
  - (* draw *) repeat split; auto. intros ->. rewrite (Hcn eq_refl).
    apply Forall_map_all. intros x. apply fresh_row_ok.
  - (* append column *) repeat split; try discriminate; auto.
    intros H. specialize (Ho H). unfold P_cols, P_old in *. eapply Forall_map_imp; [|exact Ho].
    intros r Hr. cbn. unfold cs1. rewrite app_length. cbn [length]. rewrite Nat.add_1_r, seq_snoc, map_app. cbn [map].
    rewrite Hr at 1. f_equal. rewrite Hr, map_length, seq_length. reflexivity.
  - (* recompute Q *) repeat split; try discriminate; auto.
    + intros H. specialize (Ho H). unfold P_old in *. eapply Forall_map_imp; [|exact Ho]. intros r Hr. exact Hr.
    + intros H. specialize (Hc H). unfold P_cols in *. eapply Forall_map_imp; [|exact Hc]. intros r Hr. exact Hr.
    + intros H. apply b_and in H. destruct H as [_ Hwn]. rewrite (Hcn Hwn).
      unfold P_q. apply Forall_map_all. intros r. reflexivity.
  - (* recompute W *) repeat split; auto.
    + intros H. specialize (Ho H). unfold P_old in *. eapply Forall_map_imp; [|exact Ho]. intros r Hr. exact Hr.
    + intros H. specialize (Hc H). unfold P_cols in *. eapply Forall_map_imp; [|exact Hc]. intros r Hr. exact Hr.
    + intros H. specialize (Hq H). unfold P_q in *. eapply Forall_map_imp; [|exact Hq]. intros r Hr. exact Hr.
    + intros _. unfold P_w. apply Forall_map_all. intros r. reflexivity.
  - (* insert *) repeat split; try discriminate.
    + intros H. apply b_and in H. destruct H as [H1 H2]. specialize (Hc H1). specialize (Hf H2).
      unfold P_cols in *. apply Forall_app. split; [exact Hc|].
      eapply Forall_impl; [|exact Hf]. intros r (Hr & _). exact Hr.
    + intros H. apply b_and in H. destruct H as [H1 H2]. specialize (Hq H1). specialize (Hf H2).
      unfold P_q in *. apply Forall_app. split; [exact Hq|].
      eapply Forall_impl; [|exact Hf]. intros r (_ & Hr & _). exact Hr.
    + intros H. apply b_and in H. destruct H as [H1 H2]. specialize (Hw H1). specialize (Hf H2).
      unfold P_w in *. apply Forall_app. split; [exact Hw|].
      eapply Forall_impl; [|exact Hf]. intros r (_ & _ & Hr). exact Hr.
    + exact Hf.
Qed.

Lemma rel_step a c e : rel a c -> rel (aeff a e) (ceff pt q logU n_new pts_train pts_iid c e).
Proof.
  intros HR.
  destruct e as [|s|s|s|s|s|].
  - (* update weights *)
    intros Hb. cbn in Hb. apply orb_false_elim in Hb. destruct Hb as [Hb Hwn].
    destruct (HR Hb) as (Hc & Ht & Hi). rewrite Hwn in Hc, Ht, Hi. cbn.
    split; [now rewrite Hc|].
    split; [destruct Ht as (H1 & H2 & _)|destruct Hi as (H1 & H2 & _)];
      unfold rel_store; cbn; repeat split; auto; discriminate.
  - intros Hb. assert (Hb' : broken a = false) by (destruct s; exact Hb).
    destruct (HR Hb') as (Hc & Ht & Hi).
    assert (Hcn : weights_new a = true -> c_counts pt c = cs1) by (intros E; now rewrite E in Hc).
    destruct s; cbn; (split; [exact Hc|split]); try assumption.
    + eapply rel_store_step with (s := Train); [exact Hcn|exact Ht|left; split; reflexivity].
    + eapply rel_store_step with (s := Iid); [exact Hcn|exact Hi|left; split; reflexivity].
  - intros Hb. assert (Hb' : broken a = false) by (destruct s; exact Hb).
    destruct (HR Hb') as (Hc & Ht & Hi).
    assert (Hcn : weights_new a = true -> c_counts pt c = cs1) by (intros E; now rewrite E in Hc).
    destruct s; cbn; (split; [exact Hc|split]); try assumption.
    + eapply rel_store_step with (s := Train); [exact Hcn|exact Ht|right; left; split; reflexivity].
    + eapply rel_store_step with (s := Iid); [exact Hcn|exact Hi|right; left; split; reflexivity].
  - intros Hb. assert (Hb' : broken a = false) by (destruct s; exact Hb).
    destruct (HR Hb') as (Hc & Ht & Hi).
    assert (Hcn : weights_new a = true -> c_counts pt c = cs1) by (intros E; now rewrite E in Hc).
    destruct s; cbn; (split; [exact Hc|split]); try assumption.
    + eapply rel_store_step with (s := Train); [exact Hcn|exact Ht|right; right; left; split; reflexivity].
    + eapply rel_store_step with (s := Iid); [exact Hcn|exact Hi|right; right; left; split; reflexivity].
  - intros Hb. assert (Hb' : broken a = false) by (destruct s; exact Hb).
    destruct (HR Hb') as (Hc & Ht & Hi).
    assert (Hcn : weights_new a = true -> c_counts pt c = cs1) by (intros E; now rewrite E in Hc).
    destruct s; cbn; (split; [exact Hc|split]); try assumption.
    + eapply rel_store_step with (s := Train); [exact Hcn|exact Ht|right; right; right; left; split; reflexivity].
    + eapply rel_store_step with (s := Iid); [exact Hcn|exact Hi|right; right; right; left; split; reflexivity].
  - intros Hb. assert (Hb' : broken a = false) by (destruct s; exact Hb).
    destruct (HR Hb') as (Hc & Ht & Hi).
    assert (Hcn : weights_new a = true -> c_counts pt c = cs1) by (intros E; now rewrite E in Hc).
    destruct s; cbn; (split; [exact Hc|split]); try assumption.
    + eapply rel_store_step with (s := Train); [exact Hcn|exact Ht|right; right; right; right; split; reflexivity].
    + eapply rel_store_step with (s := Iid); [exact Hcn|exact Hi|right; right; right; right; split; reflexivity].
  - exact HR.
Qed.

Lemma rel_exec effs : forall a c, rel a c ->
  rel (fold_left aeff effs a) (cexec pt q logU n_new pts_train pts_iid c effs).
Proof.
  unfold cexec. induction effs as [|e r IH]; intros a c HR; cbn [fold_left]; [exact HR|].
  apply IH. now apply rel_step.
Qed.

(* soundness of the order checker: starting from stores that satisfy the invariant for the old
   counts, executing an accepted effect list leaves both stores satisfying it for the new counts *)
Theorem order_ok_sound with_iid effs (train0 iid0 : list row) :
  order_ok with_iid effs = true ->
  Forall (row_ok cs0) train0 -> Forall (row_ok cs0) iid0 ->
  let c0 := {| c_counts := cs0; c_train := {| c_rows := train0; c_pending := [] |};
               c_iid := {| c_rows := iid0; c_pending := [] |} |} in
  let c := cexec pt q logU n_new pts_train pts_iid c0 effs in
  c_counts pt c = cs1
  /\ Forall (row_ok cs1) (c_rows pt (c_train pt c))
  /\ (with_iid = true -> Forall (row_ok cs1) (c_rows pt (c_iid pt c))).
Proof.
  intros Hok Ht Hi c0 c.
  assert (H0 : rel a0 c0).
  { intros _. cbn. split; [reflexivity|].
    split; unfold rel_store; cbn; repeat split; try discriminate; intros _; unfold P_old;
      (eapply Forall_impl; [|eassumption]); intros r (Hr & _); exact Hr. }
  pose proof (rel_exec effs a0 c0 H0) as HR. fold c in HR.
  unfold order_ok in Hok. set (a := fold_left aeff effs a0) in *.
  apply b_and in Hok. destruct Hok as [Hok Hiid]. apply b_and in Hok. destruct Hok as [Hok Htr].
  apply b_and in Hok. destruct Hok as [Hwn Hnb]. apply negb_true_iff in Hnb.
  destruct (HR Hnb) as (Hc & Rt & Ri). rewrite Hwn in Hc.
  assert (Hfin : forall f st, flags_final f = true -> rel_store (weights_new a) f st -> Forall (row_ok cs1) (c_rows pt st)).
  { intros f st Hf (_ & Hcols & Hq & Hw & _). unfold flags_final in Hf.
    apply b_and in Hf. destruct Hf as [Hf Hins]. apply b_and in Hf. destruct Hf as [Hf Hdr].
    apply b_and in Hf. destruct Hf as [Hf Hwok]. apply b_and in Hf. destruct Hf as [Hcok Hqok].
    specialize (Hcols Hcok). specialize (Hq Hqok). specialize (Hw Hwok).
    unfold P_cols, P_q, P_w in *. rewrite Forall_forall in *. intros r Hr. unfold row_ok.
    repeat split; auto. }
  split; [exact Hc|]. split; [now apply (Hfin _ _ Htr Rt)|].
  intros ->. cbn in Hiid. now apply (Hfin _ _ Hiid Ri).
Qed.
End Rows.

Lemma order_today_ok : order_ok true order_today = true /\ order_ok false order_today = true.
Proof. vm_compute. split; reflexivity. Qed.


(* ---- enclosures -------------------------------------------------------------------------- *)
Lemma weights_encl_aux p (T : nat) (l : list nat) : INR T <> 0 ->
  Forall2 encl (map (fun c => I.div p (iZ p (Z.of_nat c)) (iZ p (Z.of_nat T))) l)
               (map (fun c => INR c / INR T) l).
Proof.
  intros Hne. induction l as [|c r IH]; cbn [map]; constructor; [|exact IH].
  rewrite !INR_IZR_INZ in *. apply encl_div; [exact Hne|apply encl_iZ|apply encl_iZ].
Qed.

Lemma weights_encl p cs : (0 < total cs)%nat -> Forall2 encl (weights_I p cs) (weights cs).
Proof.
  intros H. unfold weights_I, weights. apply weights_encl_aux. apply not_0_INR. lia.
Qed.

Lemma mix_encl p wi w li l :
  Forall2 encl wi w -> Forall2 xencl li l ->
  0 < sum_R (map2 (fun wj qj => wj * xexp qj) w l) ->
  encl (mix_I p wi li) (mix_R w l).
Proof.
  intros Hw Hl Hpos. unfold mix_I, mix_R. apply encl_ln; [exact Hpos|].
  apply sum_encl.
  apply (encl_map2 encl xencl encl (fun wj qj => I.mul p wj (xexp_I p qj)) (fun wj qj => wj * xexp qj));
    [|exact Hw|exact Hl].
  intros a a' b b' Ha Hb. apply encl_mul; [exact Ha|now apply encl_xexp].
Qed.

Lemma map2_nonneg w l : Forall (fun x => 0 <= x) w ->
  Forall (fun x => 0 <= x) (map2 (fun wj qj => wj * xexp qj) w l).
Proof.
  intros H; revert l; induction H as [|x r Hx Hr IH]; intros l; destruct l as [|y l']; cbn; constructor.
  - apply Rmult_le_pos; [exact Hx|apply xexp_nonneg].
  - apply IH.
Qed.

(* the initial proposal's column is finite and its weight positive: the mixture is positive *)
Lemma mix_pos w0 wr x0 lr : 0 < w0 -> Forall (fun x => 0 <= x) wr ->
  0 < sum_R (map2 (fun wj qj => wj * xexp qj) (w0 :: wr) (Some x0 :: lr)).
Proof.
  intros H0 Hr. cbn [map2 sum_R fold_right].
  pose proof (sum_R_nonneg _ (map2_nonneg wr lr Hr)) as Hs. unfold sum_R in Hs.
  assert (0 < w0 * exp x0) by (apply Rmult_lt_0_compat; [exact H0|apply exp_pos]).
  cbn [xexp]. lra.
Qed.

(* what one accepted row check means, as a statement about reals *)
Theorem row_check_sound p (cs : list nat) (c0 : nat) (cr : list nat) (d0 : Z * Z) (lr : list (option (Z * Z)))
        (y : Z * Z) (tol : I.type) (t : R) :
  cs = c0 :: cr -> (0 < c0)%nat -> encl tol t ->
  close_to p (mix_I p (weights_I p cs) (map (dyo p) (Some d0 :: lr))) y tol = true ->
  Rabs (mix_R (weights cs) (map dyoR (Some d0 :: lr)) - dyR (fst y) (snd y)) <= t.
Proof.
  intros Hcs Hc0 Ht Hclose.
  assert (Htot : (0 < total cs)%nat) by (subst cs; cbn [total fold_right]; lia).
  eapply close_to_sound; [exact Hclose| |exact Ht].
  apply mix_encl; [now apply weights_encl|apply encl_dyo_list|].
  subst cs. unfold weights. cbn [map]. destruct d0 as [m e]. cbn [dyoR].
  apply mix_pos.
  - apply Rdiv_lt_0_compat; apply lt_0_INR; [exact Hc0|exact Htot].
  - apply Forall_forall. intros x Hx. apply in_map_iff in Hx. destruct Hx as (c & <- & _).
    apply Rmult_le_pos; [apply pos_INR|]. left. apply Rinv_0_lt_compat. now apply lt_0_INR.
Qed.

(* ---- the stale-weights variant violates the invariant ---------------------------------------- *)
Theorem stale_refuted :
  exists (q : nat -> unit -> xlog) (logU : unit -> R) (s : state unit),
    Inv unit q logU s /\ ~ Inv unit q logU (iteration_stale unit q logU s [tt] []).
Proof.
  exists (fun j _ => match j with O => Some 0 | _ => Some (ln 2) end), (fun _ => 0).
  exists (initial unit (fun j _ => match j with O => Some 0 | _ => Some (ln 2) end) (fun _ => 0) [tt] []).
  split; [apply initial_inv|].
  intros [Ht _]. cbn in Ht. inversion Ht as [|r l (_ & HQ & _) _]; subst. cbn in HQ.
  unfold mix_R, weights in HQ. cbn in HQ.
  rewrite exp_0, exp_ln in HQ by lra.
  replace (1 / 1 * 1 + 0) with 1 in HQ by field.
  replace (1 / (1 + 1) * 1 + (1 / (1 + 1) * 2 + 0)) with (3 / 2) in HQ by field.
  rewrite ln_1 in HQ. assert (0 < ln (3 / 2)) by (rewrite <- ln_1; apply ln_increasing; lra). lra.
Qed.
