(* C04 - statuses are preserved across add_samples (soft threshold): every index keeps pointing at
   the same sample.  old_indices[...] remaps an index of the old store to the position the same
   sample has in the new store, and new_indices are the positions of the batch. *)
From Coq Require Import List ZArith Bool Arith Lia Sorting.Sorted Sorting.Permutation.
Import ListNotations.
From NessaiV Require Import Lib.ListOps Lib.ListOps_proofs Model.C04_Store Proofs.C04_Store_proofs.

(* ---- subsequences ------------------------------------------------------------------------- *)
Inductive subseq {A} : list A -> list A -> Prop :=
| sub_nil l : subseq [] l
| sub_skip a x l : subseq a l -> subseq a (x :: l)
| sub_take a x l : subseq a l -> subseq (x :: a) (x :: l).

Lemma subseq_refl {A} (l : list A) : subseq l l.
Proof. induction l; constructor; assumption. Qed.

Lemma subseq_in {A} (a l : list A) x : subseq a l -> In x a -> In x l.
Proof.
  induction 1 as [l|a y l H IH|a y l H IH]; intros Hx; [contradiction|right; auto|].
  destruct Hx as [->|Hx]; [now left|right; auto].
Qed.

Lemma subseq_app_head {A} (p a l : list A) : subseq a l -> subseq (p ++ a) (p ++ l).
Proof. intros H. induction p; cbn; [exact H|now constructor]. Qed.

(* two order-preserving selections of a duplicate-free list that hold the same elements are equal *)
Lemma subseq_perm_eq {A} (L : list A) : NoDup L -> forall a b,
  subseq a L -> subseq b L -> Permutation a b -> a = b.
Proof.
  induction 1 as [|x L Hx Hnd IH]; intros a b Ha Hb Hp.
  - inversion Ha; inversion Hb; subst. reflexivity.
  - destruct a as [|ya a'], b as [|yb b'].
    + reflexivity.
    + apply Permutation_nil in Hp. discriminate.
    + apply Permutation_sym, Permutation_nil in Hp. discriminate.
    + inversion Ha as [|a0 y0 l0 Ha'|a0 y0 l0 Ha']; inversion Hb as [|b0 y1 l1 Hb'|b0 y1 l1 Hb']; subst.
      * now apply IH.
      * exfalso. apply Hx. apply (subseq_in (ya :: a') L x Ha'). apply (Permutation_in x (Permutation_sym Hp)). now left.
      * exfalso. apply Hx. apply (subseq_in (yb :: b') L x Hb'). apply (Permutation_in x Hp). now left.
      * f_equal. apply IH; [exact Ha'|exact Hb'|]. now apply Permutation_cons_inv in Hp.
Qed.

(* np.insert keeps the old elements in their order *)
Lemma ins_subseq {A} (iv : list (nat * A)) : forall pos l, subseq l (ins iv pos l).
Proof.
  induction iv as [|[i v] iv IH]; intros pos l; cbn [ins]; [apply subseq_refl|].
  rewrite <- (firstn_skipn (i - pos) l) at 1. apply subseq_app_head. constructor. apply IH.
Qed.

(* fancy indexing with a strictly increasing index vector selects a subsequence *)
Lemma sincr_tail_pos i r : sincr (i :: r) -> Forall (fun j => 1 <= j) r.
Proof.
  intros H. inversion H as [|? ? _ Hi]; subst. apply Forall_forall. intros j Hj.
  pose proof (proj1 (Forall_forall _ _) Hi j Hj). lia.
Qed.

Lemma sincr_map_pred idx : sincr idx -> Forall (fun j => 1 <= j) idx -> sincr (map pred idx).
Proof.
  induction 1 as [|i r Hr IH Hi]; intros Hp; cbn; constructor.
  - apply IH. now inversion Hp.
  - apply Forall_forall. intros y Hy. apply in_map_iff in Hy. destruct Hy as (j & <- & Hj).
    pose proof (proj1 (Forall_forall _ _) Hi j Hj). inversion Hp as [|? ? H1 Hpr]; subst.
    pose proof (proj1 (Forall_forall _ _) Hpr j Hj). cbv beta in *. lia.
Qed.

Lemma take_cons_pos {A} (d x : A) (r : list A) idx : Forall (fun j => 1 <= j) idx ->
  take d (x :: r) idx = take d r (map pred idx).
Proof.
  unfold take. intros H. rewrite map_map. apply map_ext_in. intros j Hj.
  pose proof (proj1 (Forall_forall _ _) H j Hj). destruct j; [cbv beta in *; lia|reflexivity].
Qed.

Lemma take_subseq {A} (d : A) (l : list A) : forall idx,
  sincr idx -> Forall (fun j => j < length l) idx -> subseq (take d l idx) l.
Proof.
  induction l as [|x r IH]; intros idx Hs Hb.
  - destruct idx as [|i is]; [constructor|]. inversion Hb; subst. cbn in *. lia.
  - destruct idx as [|i is]; [constructor|].
    assert (Hbound : forall js, Forall (fun j => 1 <= j) js -> Forall (fun j => j < length (x :: r)) js ->
                                Forall (fun j => j < length r) (map pred js)).
    { intros js H1 H2. apply Forall_forall. intros y Hy. apply in_map_iff in Hy. destruct Hy as (j & <- & Hj).
      pose proof (proj1 (Forall_forall _ _) H1 j Hj). pose proof (proj1 (Forall_forall _ _) H2 j Hj). cbn in *. lia. }
    destruct i as [|i].
    + (* the head is selected *)
      pose proof (sincr_tail_pos 0 is Hs) as Hpos. inversion Hs as [|? ? Hs' _]; subst. inversion Hb as [|? ? _ Hb']; subst.
      change (take d (x :: r) (0 :: is)) with (x :: take d (x :: r) is).
      rewrite (take_cons_pos d x r is Hpos). apply sub_take.
      apply IH; [now apply sincr_map_pred|now apply Hbound].
    + assert (Hpos : Forall (fun j => 1 <= j) (S i :: is)).
      { constructor; [lia|exact (sincr_tail_pos _ _ Hs)]. }
      rewrite (take_cons_pos d x r _ Hpos). apply sub_skip.
      apply IH; [now apply sincr_map_pred|now apply Hbound].
Qed.

(* the inserted values sit at idx_j + j *)
Lemma ins_nth_new {A} (d : A) (idx : list nat) : forall (vals : list A) pos l j,
  length vals = length idx -> StronglySorted le idx ->
  Forall (fun i => pos <= i <= pos + length l) idx -> j < length idx ->
  nth (nth j idx 0 - pos + j) (ins (combine idx vals) pos l) d = nth j vals d.
Proof.
  induction idx as [|i idx IH]; intros vals pos l j Hlen Hs Hb Hj; [cbn in Hj; lia|].
  destruct vals as [|v vals]; [discriminate|]. cbn [combine ins].
  inversion Hb as [|? ? Hbi Hbr]; subst. inversion Hs as [|? ? Hs' Hsi]; subst.
  assert (Hfl : length (firstn (i - pos) l) = i - pos) by (rewrite firstn_length; lia).
  destruct j as [|j]; cbn [nth].
  - rewrite Nat.add_0_r. rewrite app_nth2 by lia. rewrite Hfl, Nat.sub_diag. reflexivity.
  - assert (Hij : i <= nth j idx 0).
    { apply (proj1 (Forall_forall _ _) Hsi). apply nth_In. cbn in Hj. lia. }
    rewrite app_nth2 by lia. rewrite Hfl.
    replace (nth j idx 0 - pos + S j - (i - pos)) with (S (nth j idx 0 - i + j)) by lia. cbn [nth].
    apply IH; [cbn in Hlen; lia|exact Hs'| |cbn in Hj; lia].
    apply Forall_forall. intros y Hy. pose proof (proj1 (Forall_forall _ _) Hsi y Hy).
    pose proof (proj1 (Forall_forall _ _) Hbr y Hy) as Hy2. cbv beta in Hy2. rewrite skipn_length. lia.
Qed.

Lemma add_arange_nth k idx j : j < length idx -> nth j (add_arange k idx) 0 = nth j idx 0 + k + j.
Proof.
  revert k j; induction idx as [|i r IH]; intros k j Hj; [cbn in Hj; lia|].
  destruct j; cbn; [lia|]. rewrite IH by (cbn in Hj; lia). lia.
Qed.

Lemma take_new_is_batch {A} (d : A) (l vals : list A) idx :
  length vals = length idx -> StronglySorted le idx -> Forall (fun i => i <= length l) idx ->
  take d (np_insert l idx vals) (add_arange 0 idx) = vals.
Proof.
  intros Hlen Hs Hb. unfold take, np_insert.
  apply nth_ext with (d := d) (d' := d); [now rewrite map_length, add_arange_length|].
  intros j Hj. rewrite map_length, add_arange_length in Hj.
  rewrite (nth_indep _ d (nth 0 (ins (combine idx vals) 0 l) d)) by (rewrite map_length, add_arange_length; exact Hj).
  change (nth 0 (ins (combine idx vals) 0 l) d) with ((fun i => nth i (ins (combine idx vals) 0 l) d) 0).
  rewrite map_nth, add_arange_nth by exact Hj.
  replace (nth j idx 0 + 0 + j) with (nth j idx 0 - 0 + j) by lia.
  apply ins_nth_new; [exact Hlen|exact Hs| |exact Hj].
  eapply Forall_impl; [|exact Hb]. intros; cbv beta in *; lia.
Qed.

Lemma take_app' {A} (d : A) l a b : take d l (a ++ b) = take d l a ++ take d l b.
Proof. unfold take. apply map_app. Qed.
Lemma take_perm' {A} (d : A) l a b : Permutation a b -> Permutation (take d l a) (take d l b).
Proof. unfold take. apply Permutation_map. Qed.

(* ---- the theorem --------------------------------------------------------------------------- *)
Section Status.
Variable s : store.
Variable b : list (srow * qrow).
Hypothesis HI : Inv s.
(* every sample has its own identity: no two stored or added samples coincide *)
Hypothesis Hdistinct : NoDup (rows s ++ map fst b).

Local Notation bs := (a_bs b).
Local Notation idx := (a_idx s b).
Local Notation rows' := (a_rows s b).

Lemma idx_sorted : StronglySorted le idx.
Proof. exact (ss_idx_nondecr key 0 (rows s) bs (sort_samples_sorted b)). Qed.
Lemma idx_bound : Forall (fun i => i <= length (rows s)) idx.
Proof. pose proof (ss_idx_bound key 0 (rows s) bs) as H. eapply Forall_impl; [|exact H]. intros; cbv beta in *; lia. Qed.

Lemma bs_perm : Permutation bs (map fst b).
Proof. unfold a_bs, a_sb. apply Permutation_map, sort_samples_perm. Qed.

Lemma rows'_nodup : NoDup rows'.
Proof.
  eapply Permutation_NoDup; [apply Permutation_sym, np_insert_perm; apply idx_len|].
  eapply Permutation_NoDup; [|exact Hdistinct]. apply Permutation_app_head, Permutation_sym, bs_perm.
Qed.

(* positions of the batch, and - through the complement - of the old samples *)
Theorem new_positions : take dflt_row rows' (add_arange 0 idx) = bs.
Proof. apply take_new_is_batch; [symmetry; apply idx_len|exact idx_sorted|exact idx_bound]. Qed.

Theorem old_positions :
  let new := add_arange 0 idx in
  let old := inverse_indices (length rows') new in
  take dflt_row rows' old = rows s.
Proof.
  intros new old.
  destruct (new_props s b) as (Hns & Hnb & Hnl). fold new in Hns, Hnb, Hnl.
  pose proof (inverse_perm (length rows') new (sincr_NoDup _ Hns) Hnb) as Hop. fold old in Hop.
  apply (subseq_perm_eq rows' rows'_nodup).
  - apply take_subseq; [apply inverse_sincr|].
    apply Forall_forall. intros i Hi. apply inverse_in in Hi. tauto.
  - apply ins_subseq.
  - (* same elements: rows' = take rows' (old ++ new) up to order = take rows' old ++ bs *)
    assert (H1 : Permutation (take dflt_row rows' old ++ bs) rows').
    { rewrite <- new_positions. fold new. unfold take. rewrite <- map_app.
      eapply Permutation_trans; [apply Permutation_map, Hop|].
      change (map (fun i => nth i rows' dflt_row) (seq 0 (length rows'))) with (take dflt_row rows' (seq 0 (length rows'))).
      rewrite take_seq. apply Permutation_refl. }
    assert (H2 : Permutation rows' (rows s ++ bs)) by (apply np_insert_perm, idx_len).
    apply (Permutation_app_inv_r bs). eapply Permutation_trans; [exact H1|exact H2].
Qed.

(* hence: after a soft-threshold add_samples every discarded index points at the sample it pointed at
   before, every previously live index likewise, and the new live indices point at the batch *)
Theorem status_preserved s' :
  strict s = false -> add_samples s b = Some s' ->
  take dflt_row (rows s') (dead s') = take dflt_row (rows s) (dead s)
  /\ Permutation (take dflt_row (rows s') (live_list s')) (take dflt_row (rows s) (live_list s) ++ map fst b).
Proof.
  intros Hst H. unfold add_samples in H.
  fold (a_sb b) in H. fold bs in H. fold (a_bq b) in H. fold idx in H. fold rows' in H. fold (a_lq s b) in H.
  destruct (init s); cbn [negb] in H; [|discriminate]. rewrite Hst in H.
  destruct bs as [|b0 br] eqn:Ebs; [discriminate|]. rewrite <- Ebs in *.
  set (new := add_arange 0 idx) in *. set (old := inverse_indices (length rows') new) in *.
  destruct (length old =? length rows' - length bs) eqn:El; cbn [negb] in H; [|discriminate].
  injection H as <-. cbn [rows dead live].
  pose proof old_positions as Hold. cbv zeta in Hold. fold new in Hold. fold old in Hold.
  pose proof (inv_bounds s HI) as Hb. apply Forall_app in Hb. destruct Hb as [Hbd Hbl].
  assert (Hlen_old : length old = length (rows s)).
  { apply (f_equal (@length srow)) in Hold. now rewrite take_length in Hold. }
  (* remapping an index through old and then reading the new store = reading the old store *)
  assert (Hremap : forall l, Forall (fun i => i < length (rows s)) l ->
                             take dflt_row rows' (take 0 old l) = take dflt_row (rows s) l).
  { intros l Hl. unfold take. rewrite map_map. apply map_ext_in. intros i Hi.
    pose proof (proj1 (Forall_forall _ _) Hl i Hi) as Hlt. cbv beta in Hlt.
    replace (nth i (rows s) dflt_row) with (nth i (take dflt_row rows' old) dflt_row) by (now rewrite Hold).
    unfold take.
    rewrite (nth_indep (map (fun k => nth k rows' dflt_row) old) dflt_row (nth 0 rows' dflt_row)) by (rewrite map_length; lia).
    change (nth 0 rows' dflt_row) with ((fun k => nth k rows' dflt_row) 0).
    now rewrite map_nth. }
  split; [now apply Hremap|].
  unfold live_list; cbn [live].
  destruct (live s) as [lv|] eqn:Elv.
  - unfold live_list in Hbl. rewrite Elv in Hbl.
    eapply Permutation_trans; [apply take_perm', merge_idx_perm|]. rewrite take_app'.
    apply Permutation_app.
    + rewrite (Hremap lv Hbl). apply Permutation_refl.
    + unfold new. rewrite new_positions. apply bs_perm.
  - cbn [app]. unfold take at 2. cbn [map]. unfold new. rewrite new_positions. apply bs_perm.
Qed.
End Status.
